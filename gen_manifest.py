#!/venv/bin/python
"""Regenerates MANIFEST.json from the table of claimed properties."""
import json, os, sys
HERE = os.path.dirname(os.path.abspath(__file__))
sys.path.insert(0, HERE)
from pyvc.claims import CLAIMS, NOT_APPLICABLE, ENGINES
BASE = json.load(open("/root/.vp/BASELINE.json"))["cmd"]
checks = []
for pid, c in sorted(CLAIMS.items()):
    checks.append(dict(
        property_id=pid,
        quick_cmd=f"./check {pid} --tier quick",
        thorough_cmd=f"./check {pid} --tier thorough",
        evidence_file=f"/verif/evidence/{pid}.json",
        replay_cmd_template="./check %s --replay {path}" % pid,
        engine="pyvc",
        level_claimed=dict(category="proof", text=c["text"], design_ref=c["design_ref"]),
        level_note=c["note"],
        technique=c["technique"],
    ))
m = dict(
    version=1,
    setup_cmd="/venv/bin/python -m pyvc.selftest",
    hooks=dict(guard="EXO_VERIF", enable="no source hooks: contracts are sidecar files under /verif/contracts keyed by file::qualname; "
               "the checks re-read /repo's working tree on every run (VERIF_REPO overrides the root for scratch copies)",
               baseline_off_cmd=BASE, source_commits=[], add_only=True),
    engines=[dict(e, serves_properties=sorted(CLAIMS)) for e in ENGINES],
    checks=checks,
    notes="Contract-based deductive verification with a self-built VC generator (pyvc) over the real Python source; see DESIGN.md. "
          "Exit codes: 0 held, 1 violation, 2 undecided, 3 checker error.",
    not_applicable=[dict(property_id=k, reason=v) for k, v in sorted(NOT_APPLICABLE.items()) if k not in CLAIMS],
)
json.dump(m, open(os.path.join(HERE, "MANIFEST.json"), "w"), indent=1)
print("MANIFEST.json written:", len(checks), "checks,", len(m["not_applicable"]), "not applicable")
