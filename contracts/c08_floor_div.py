"""C08 / C02 - the C helper `exo_floor_div` (sub-engine E, DESIGN 2.6).

The helper is C text inside a Python string (`_static_helpers["exo_floor_div"]`
in src/exo/backend/LoopIR_compiler.py).  On every run the text is taken from
the file, parsed by the small recursive-descent parser below (subset:
`static int f(int a, int b) { int x = e; ... return e; }` with `?: || && == !=
< <= > >= + - * / % unary- !`; anything else -> unsupported = undecided), and
verification conditions are generated from the parse tree:

  contract   requires  quot > 0  and  |num| < 2^30  and  quot < 2^30
             ensures   result == floor(num / quot)
             and no undefined behaviour on the way.

  UB layer   `int` = 32-bit two's complement bit-vectors; for every arithmetic
             node, under the guards of the enclosing ?: && || :
               + - * unary-  : no signed overflow     / %  : divisor != 0 and
               not (INT_MIN / -1).          One obligation per node (z3, QF_BV).
  value layer  C defines signed arithmetic that does not overflow as the
             mathematical operation (`/` truncates toward zero, `%` has the sign
             of the dividend), so - the UB layer being discharged - the value is
             computed over mathematical integers from the same parse tree and
             compared with floor division (z3, NIA; plus the range of every
             intermediate value, which restates the UB layer over integers).
             The direct bit-vector statement of the value clause (two 32-bit
             dividers against a 64-bit product) is beyond z3 within minutes; it
             is proved at widths 8..14 with the envelope scaled, and reported
             as *bounded*, not as discharged.

A refuted obligation is replayed by compiling the helper text with the C
compiler (gcc -fsanitize=undefined -ftrapv-free build) on the model's inputs,
and by the concrete evaluator below if no compiler is available.
"""
from __future__ import annotations
import ast, os, re, subprocess, tempfile, textwrap, time
import z3

FC = "src/exo/backend/LoopIR_compiler.py"
HELPER = "exo_floor_div"
TGT = f"{FC}::_static_helpers[{HELPER!r}]"
W = 32
ENVELOPE = "quot > 0 and |num| < 2^30 and quot < 2^30"


class Unsupported(Exception):
    pass


# ----------------------------------------------------------------------------
# text -> parse tree

# specification of each known helper: (value of the result as a z3 term of num, quot)
SPECS = {
    "exo_floor_div": ("floor(num / quot)", lambda N, Q: N / Q, lambda n, q: n // q),
    "exo_floor_mod": ("num - quot * floor(num / quot)", lambda N, Q: N - Q * (N / Q), lambda n, q: n % q),
}


def helper_names(root):
    path = os.path.join(root, FC)
    tree = ast.parse(open(path).read(), path)
    for node in tree.body:
        if isinstance(node, ast.Assign) and any(isinstance(t, ast.Name) and t.id == "_static_helpers"
                                                for t in node.targets):
            if not isinstance(node.value, ast.Dict):
                raise Unsupported("_static_helpers is not a dict display")
            return [k.value for k in node.value.keys if isinstance(k, ast.Constant)]
    raise Unsupported("_static_helpers not found")


def helper_text(root, HELPER=HELPER):
    path = os.path.join(root, FC)
    tree = ast.parse(open(path).read(), path)
    for node in tree.body:
        if isinstance(node, ast.Assign) and any(isinstance(t, ast.Name) and t.id == "_static_helpers"
                                                for t in node.targets):
            if not isinstance(node.value, ast.Dict):
                raise Unsupported("_static_helpers is not a dict display")
            for k, v in zip(node.value.keys, node.value.values):
                if isinstance(k, ast.Constant) and k.value == HELPER:
                    return _const_text(v)
    raise Unsupported(f"_static_helpers[{HELPER!r}] not found")


def _const_text(v):
    if isinstance(v, ast.Constant) and isinstance(v.value, str):
        return v.value
    if (isinstance(v, ast.Call) and isinstance(v.func, ast.Attribute) and v.func.attr == "dedent"
            and len(v.args) == 1 and isinstance(v.args[0], ast.Constant)):
        return textwrap.dedent(v.args[0].value)
    raise Unsupported("helper text is not a string literal / textwrap.dedent(literal)")


_TOK = re.compile(r"\s*(?:(\d+)|([A-Za-z_]\w*)|(>=|<=|==|!=|&&|\|\||[-+*/%()<>{}?:;,=!]))")


def tokenize(src):
    src = re.sub(r"/\*.*?\*/", " ", src, flags=re.S)
    src = re.sub(r"//[^\n]*", " ", src)
    out, i = [], 0
    src = src.rstrip()
    while i < len(src):
        m = _TOK.match(src, i)
        if not m:
            raise Unsupported(f"cannot tokenize C text at: {src[i:i + 20]!r}")
        i = m.end()
        if m.group(1):
            out.append(("num", int(m.group(1))))
        elif m.group(2):
            out.append(("id", m.group(2)))
        else:
            out.append(("op", m.group(3)))
    return out


class Parser:
    def __init__(self, toks):
        self.t, self.i = toks, 0

    def peek(self):
        return self.t[self.i] if self.i < len(self.t) else ("eof", None)

    def eat(self, kind=None, val=None):
        k, v = self.peek()
        if (kind is not None and k != kind) or (val is not None and v != val):
            raise Unsupported(f"C subset: expected {val or kind}, found {v!r}")
        self.i += 1
        return v

    def at(self, val):
        return self.peek()[1] == val and self.peek()[0] in ("op", "id")

    def function(self):
        if self.at("static"):
            self.eat()
        if self.at("inline"):
            self.eat()
        self.eat("id", "int")
        name = self.eat("id")
        self.eat("op", "(")
        params = []
        while not self.at(")"):
            self.eat("id", "int")
            params.append(self.eat("id"))
            if self.at(","):
                self.eat()
        self.eat("op", ")")
        self.eat("op", "{")
        body = []
        while not self.at("}"):
            if self.at("int"):
                self.eat()
                v = self.eat("id")
                self.eat("op", "=")
                body.append(("decl", v, self.expr()))
                self.eat("op", ";")
            elif self.at("return"):
                self.eat()
                body.append(("return", self.expr()))
                self.eat("op", ";")
            else:
                raise Unsupported(f"C subset: statement starting with {self.peek()[1]!r}")
        self.eat("op", "}")
        if self.peek()[0] != "eof":
            raise Unsupported("C subset: text after the function")
        if not body or body[-1][0] != "return" or any(s[0] == "return" for s in body[:-1]):
            raise Unsupported("C subset: exactly one return, at the end")
        return dict(name=name, params=params, body=body)

    def expr(self):
        c = self.binary(0)
        if self.at("?"):
            self.eat()
            a = self.expr()
            self.eat("op", ":")
            b = self.expr()
            return ("?:", c, a, b)
        return c

    LEVELS = [["||"], ["&&"], ["==", "!="], ["<", "<=", ">", ">="], ["+", "-"], ["*", "/", "%"]]

    def binary(self, lvl):
        if lvl == len(self.LEVELS):
            return self.unary()
        e = self.binary(lvl + 1)
        while self.peek()[0] == "op" and self.peek()[1] in self.LEVELS[lvl]:
            op = self.eat()
            e = (op, e, self.binary(lvl + 1))
        return e

    def unary(self):
        if self.at("-"):
            self.eat()
            return ("neg", self.unary())
        if self.at("+"):
            self.eat()
            return self.unary()
        if self.at("!"):
            self.eat()
            return ("not", self.unary())
        k, v = self.peek()
        if k == "num":
            self.eat()
            return ("num", v)
        if k == "id":
            self.eat()
            return ("var", v)
        if self.at("("):
            self.eat()
            e = self.expr()
            self.eat("op", ")")
            return e
        raise Unsupported(f"C subset: unexpected {v!r} in expression")


def parse_helper(text):
    return Parser(tokenize(text)).function()


def show(e):
    if e[0] in ("num", "var"):
        return str(e[1])
    if e[0] == "neg":
        return f"-({show(e[1])})"
    if e[0] == "not":
        return f"!({show(e[1])})"
    if e[0] == "?:":
        return f"({show(e[1])} ? {show(e[2])} : {show(e[3])})"
    return f"({show(e[1])} {e[0]} {show(e[2])})"


# ----------------------------------------------------------------------------
# semantics.  A backend gives the meaning of `int` values; `Eval` walks the
# tree, collecting (guard, safety condition, description) for every node that
# can have undefined behaviour.

class BV:
    def __init__(self, w=W):
        self.w = w
        self.min, self.max = -(1 << (w - 1)), (1 << (w - 1)) - 1

    def var(self, n):
        return z3.BitVec(n, self.w)

    def const(self, v):
        return z3.BitVecVal(v, self.w)

    def fits(self, v):
        return self.min <= v <= self.max

    def lt(self, a, b): return a < b            # signed on BitVecRef
    def le(self, a, b): return a <= b
    def eq(self, a, b): return a == b

    def add(self, a, b): return a + b, z3.And(z3.BVAddNoOverflow(a, b, True), z3.BVAddNoUnderflow(a, b))
    def sub(self, a, b): return a - b, z3.And(z3.BVSubNoOverflow(a, b), z3.BVSubNoUnderflow(a, b, True))
    def mul(self, a, b): return a * b, z3.And(z3.BVMulNoOverflow(a, b, True), z3.BVMulNoUnderflow(a, b))
    def neg(self, a): return -a, a != self.const(self.min)

    def _divok(self, a, b):
        return z3.And(b != 0, z3.Not(z3.And(a == self.const(self.min), b == self.const(-1))))

    def div(self, a, b): return a / b, self._divok(a, b)              # bvsdiv: truncates
    def rem(self, a, b): return z3.SRem(a, b), self._divok(a, b)      # sign of the dividend


class MathInt:
    """C arithmetic on values that did not overflow = arithmetic on integers."""
    def __init__(self, w=W):
        self.min, self.max = -(1 << (w - 1)), (1 << (w - 1)) - 1

    def var(self, n): return z3.Int(n)
    def const(self, v): return z3.IntVal(v)
    def fits(self, v): return self.min <= v <= self.max
    def lt(self, a, b): return a < b
    def le(self, a, b): return a <= b
    def eq(self, a, b): return a == b

    def _rng(self, v):
        return z3.And(self.min <= v, v <= self.max)

    def add(self, a, b): return a + b, self._rng(a + b)
    def sub(self, a, b): return a - b, self._rng(a - b)
    def mul(self, a, b): return a * b, self._rng(a * b)
    def neg(self, a): return -a, self._rng(-a)

    @staticmethod
    def tdiv(a, b):
        # truncation toward zero from z3's Euclidean div (exact for b != 0)
        return z3.If(a >= 0, z3.If(b > 0, a / b, -(a / (-b))),
                     z3.If(b > 0, -((-a) / b), (-a) / (-b)))

    def div(self, a, b):
        q = self.tdiv(a, b)
        return q, z3.And(b != 0, self._rng(q))

    def rem(self, a, b):
        q = self.tdiv(a, b)
        return a - b * q, z3.And(b != 0, self._rng(q))


class Eval:
    def __init__(self, sem):
        self.s = sem
        self.sites = []       # (guard, condition, description)

    def truth(self, v):
        return v if z3.is_bool(v) else v != self.s.const(0)

    def value(self, v):
        return z3.If(v, self.s.const(1), self.s.const(0)) if z3.is_bool(v) else v

    def ev(self, e, env, guard):
        s, k = self.s, e[0]
        if k == "num":
            if not s.fits(e[1]):
                raise Unsupported(f"integer literal {e[1]} does not fit int")
            return s.const(e[1])
        if k == "var":
            if e[1] not in env:
                raise Unsupported(f"unknown variable {e[1]}")
            return env[e[1]]
        if k == "?:":
            c = self.truth(self.ev(e[1], env, guard))
            a = self.value(self.ev(e[2], env, z3.And(guard, c)))
            b = self.value(self.ev(e[3], env, z3.And(guard, z3.Not(c))))
            return z3.If(c, a, b)
        if k in ("&&", "||"):
            a = self.truth(self.ev(e[1], env, guard))
            g2 = z3.And(guard, a) if k == "&&" else z3.And(guard, z3.Not(a))
            b = self.truth(self.ev(e[2], env, g2))
            return z3.And(a, b) if k == "&&" else z3.Or(a, b)
        if k == "not":
            return z3.Not(self.truth(self.ev(e[1], env, guard)))
        if k == "neg":
            a = self.value(self.ev(e[1], env, guard))
            r, ok = s.neg(a)
            self.sites.append((guard, ok, f"no overflow in {show(e)}"))
            return r
        a = self.value(self.ev(e[1], env, guard))
        b = self.value(self.ev(e[2], env, guard))
        if k in ("<", "<=", ">", ">=", "==", "!="):
            return {"<": s.lt(a, b), "<=": s.le(a, b), ">": s.lt(b, a), ">=": s.le(b, a),
                    "==": s.eq(a, b), "!=": z3.Not(s.eq(a, b))}[k]
        fn = {"+": s.add, "-": s.sub, "*": s.mul, "/": s.div, "%": s.rem}.get(k)
        if fn is None:
            raise Unsupported(f"operator {k}")
        r, ok = fn(a, b)
        what = "no division by zero / INT_MIN/-1 in" if k in "/%" else "no signed overflow in"
        self.sites.append((guard, ok, f"{what} {show(e)}"))
        return r

    def run(self, fn, args):
        env = dict(zip(fn["params"], args))
        for st in fn["body"]:
            if st[0] == "decl":
                if st[1] in env:
                    raise Unsupported(f"redeclaration of {st[1]}")
                env[st[1]] = self.value(self.ev(st[2], env, z3.BoolVal(True)))
            else:
                return self.value(self.ev(st[1], env, z3.BoolVal(True)))


def envelope(sem, num, quot, shift=30):
    b = sem.const(1 << shift)
    return z3.And(sem.lt(sem.const(0), quot), sem.lt(num, b), sem.lt(sem.neg(b)[0], num), sem.lt(quot, b))


# ----------------------------------------------------------------------------
# concrete evaluator (replay without a compiler) and C-compiler replay

def c_eval(fn, num, quot, w=W):
    """Returns (value | None, [undefined behaviours hit])."""
    lo, hi = -(1 << (w - 1)), (1 << (w - 1)) - 1
    ub = []

    def chk(v, e):
        if not lo <= v <= hi:
            ub.append(f"signed overflow in {show(e)}")
            v = (v - lo) % (1 << w) + lo
        return v

    def ev(e, env):
        k = e[0]
        if k == "num":
            return e[1]
        if k == "var":
            return env[e[1]]
        if k == "?:":
            return ev(e[2], env) if ev(e[1], env) else ev(e[3], env)
        if k == "&&":
            return int(bool(ev(e[1], env)) and bool(ev(e[2], env)))
        if k == "||":
            return int(bool(ev(e[1], env)) or bool(ev(e[2], env)))
        if k == "not":
            return int(not ev(e[1], env))
        if k == "neg":
            return chk(-ev(e[1], env), e)
        a, b = ev(e[1], env), ev(e[2], env)
        if k in ("<", "<=", ">", ">=", "==", "!="):
            return int({"<": a < b, "<=": a <= b, ">": a > b, ">=": a >= b, "==": a == b, "!=": a != b}[k])
        if k in "/%":
            if b == 0:
                ub.append(f"division by zero in {show(e)}")
                return 0
            q = abs(a) // abs(b) * (1 if (a >= 0) == (b > 0) else -1)
            return chk(q, e) if k == "/" else a - b * q
        return chk({"+": a + b, "-": a - b, "*": a * b}[k], e)
    env = dict(zip(fn["params"], (num, quot)))
    r = None
    for st in fn["body"]:
        if st[0] == "decl":
            env[st[1]] = ev(st[2], env)
        else:
            r = ev(st[1], env)
    return r, ub


REPLAY = '''#!/venv/bin/python
"""Replay for the C helper exo_floor_div (C08/C02): runs the helper text of the
working tree on one input, with the C compiler under -fsanitize=undefined when
available and with pyvc's concrete C evaluator.  exit 1 = wrong value or UB."""
import sys
sys.path.insert(0, {verif!r})
from contracts.c08_floor_div import replay
sys.exit(replay({num}, {quot}, {what!r}, {helper!r}))
'''


def replay(num, quot, what="", helper=HELPER):
    from pyvc.run import repo_root
    text = helper_text(repo_root(), helper)
    fn = parse_helper(text)
    want = SPECS[helper][2](num, quot) if quot != 0 else None
    val, ub = c_eval(fn, num, quot)
    print(f"obligation : {what}")
    print(f"helper text:{text}")
    print(f"input      : num={num} quot={quot}   (envelope: {ENVELOPE})")
    print(f"evaluator  : result={val} undefined-behaviour={ub}   specified ({SPECS[helper][0]})={want}")
    bad = bool(ub) or val != want
    cc = _cc_run(text, fn["name"], num, quot)
    if cc is not None:
        print(f"gcc -fsanitize=undefined: {cc}")
        bad = bad or "runtime error" in cc or (cc.split()[0] if cc.split() else "") != str(want)
    print("verdict    :", "confirmed" if bad else "not-reproduced")
    return 1 if bad else 0


def _cc_run(text, name, num, quot):
    import shutil
    cc = shutil.which("gcc") or shutil.which("cc")
    if cc is None:
        return None
    d = tempfile.mkdtemp(prefix="pyvc_cc_", dir="/var/tmp")
    try:
        src = os.path.join(d, "t.c")
        with open(src, "w") as f:
            f.write("#include <stdio.h>\n#include <stdlib.h>\n" + text +
                    f"\nint main(int c, char**v){{ printf(\"%d\\n\", {name}(atoi(v[1]), atoi(v[2]))); return 0; }}\n")
        exe = os.path.join(d, "t")
        r = subprocess.run([cc, "-O0", "-fsanitize=undefined", "-o", exe, src], capture_output=True, text=True)
        if r.returncode != 0:
            return None
        r = subprocess.run([exe, str(num), str(quot)], capture_output=True, text=True, timeout=20)
        return (r.stdout.strip() + " " + r.stderr.strip()).strip()
    except Exception:
        return None
    finally:
        import shutil as sh
        sh.rmtree(d, ignore_errors=True)


# ----------------------------------------------------------------------------
# the engine

def _prove(hyps, goal, timeout_ms):
    s = z3.Solver()
    s.set("timeout", timeout_ms)
    for h in hyps:
        s.add(h)
    s.add(z3.Not(goal))
    t0 = time.time()
    r = s.check()
    return r, (s.model() if r == z3.sat else None), time.time() - t0


def _model_inputs(m, num, quot, signed_bv):
    def val(x):
        v = m.eval(x, model_completion=True)
        if z3.is_bv_value(v):
            return v.as_signed_long()
        return v.as_long()
    return val(num), val(quot)


def run(tier="quick", seed=0):
    from pyvc.run import repo_root
    verif = os.path.dirname(os.path.dirname(os.path.abspath(__file__)))
    tmo = 60000 if tier == "thorough" else 10000
    res = dict(obligations=0, discharged=0, functions=[TGT], assumptions=[
        "C08/C02 helper: ISO C semantics of int as modelled here (32-bit two's complement, / truncates, % has the "
        "sign of the dividend, overflow and division by zero undefined); a signed operation that does not overflow "
        "yields the mathematical result (bridge between the bit-vector UB layer and the integer value layer)",
        "C08/C02 helper: callers pass arguments inside the envelope " + ENVELOPE +
        " (the divisor is a positive literal by the front end's typecheck rule; index values are assumed to fit)",
    ], samples=[], violations=[], undecided=[], bounded=[], clauses={}, solver_time_s=0.0)
    try:
        names = helper_names(repo_root())
    except Unsupported as u:
        res["undecided"].append(f"{TGT}: unsupported: {u}")
        return res
    res["functions"] = []
    for hname in names:
        tgt = f"{FC}::_static_helpers[{hname!r}]"
        res["functions"].append(tgt)
        if hname not in SPECS:
            res["undecided"].append(f"{tgt}: helper without a specification in contracts/c08_floor_div.py")
            continue
        _run_helper(res, hname, tgt, tier, tmo, verif)
    res["solver_time_s"] = round(res["solver_time_s"], 3)
    return res


def _run_helper(res, HELPER, TGT, tier, tmo, verif):
    from pyvc.run import repo_root
    spec_txt, spec_z3, spec_py = SPECS[HELPER]
    try:
        text = helper_text(repo_root(), HELPER)
        fn = parse_helper(text)
        if len(fn["params"]) != 2:
            raise Unsupported("helper does not take (num, quot)")
    except Unsupported as u:
        res["undecided"].append(f"{TGT}: unsupported: {u}")
        return res

    def record(name, r, m, dt, num, quot, is_bv):
        key = f"{TGT} :: {name}"
        res["obligations"] += 1
        res["solver_time_s"] += dt
        if r == z3.unsat:
            res["discharged"] += 1
            res["clauses"].setdefault(key, "discharged")
            if len(res["samples"]) < 3:
                res["samples"].append(f"{key}: unsat in {dt:.3f}s")
        elif r == z3.sat:
            n, q = _model_inputs(m, num, quot, is_bv)
            _, ub = c_eval(fn, n, q)
            val, _ = c_eval(fn, n, q)
            confirmed = bool(ub) or val != spec_py(n, q)
            res["clauses"][key] = "refuted"
            res["violations"].append(dict(obligation=key, confirmed=confirmed,
                                          replay_script=REPLAY.format(verif=verif, num=n, quot=q, what=name,
                                                                      helper=HELPER)))
        else:
            res["clauses"][key] = "unknown"
            res["undecided"].append(f"{key}: solver returned unknown")

    # UB layer: 32-bit bit-vectors
    bv = BV(W)
    num, quot = bv.var("num"), bv.var("quot")
    E = Eval(bv)
    E.run(fn, [num, quot])
    pre = envelope(bv, num, quot)
    for i, (guard, ok, what) in enumerate(E.sites):
        r, m, dt = _prove([pre, guard], ok, tmo)
        record(f"[int32] {what}", r, m, dt, num, quot, True)

    # value layer: mathematical integers, same tree
    mi = MathInt(W)
    N, Q = mi.var("num"), mi.var("quot")
    EI = Eval(mi)
    out = EI.run(fn, [N, Q])
    preI = envelope(mi, N, Q)
    for guard, ok, what in EI.sites:
        r, m, dt = _prove([preI, guard], ok, tmo)
        record(f"[integers] intermediate value fits int: {what}", r, m, dt, N, Q, False)
    r, m, dt = _prove([preI], out == spec_z3(N, Q), tmo)   # z3 div/mod with Q > 0 are floor div/mod
    record(f"result == {spec_txt}", r, m, dt, N, Q, False)

    # bounded: the value clause stated directly on bit-vectors, small widths
    widths = (8, 10, 12, 14) if tier == "thorough" else (8, 10, 12)
    ok_w, bad_w = [], []
    all32 = res["obligations"] == res["discharged"]
    for w in widths:
        b = BV(w)
        n_, q_ = b.var("num"), b.var("quot")
        Ew = Eval(b)
        try:
            out_w = Ew.run(fn, [n_, q_])
        except Unsupported:
            continue                                # e.g. a literal that does not fit w bits
        pre_w = envelope(b, n_, q_, shift=w - 2)
        ext = lambda x: z3.SignExt(w, x)
        if HELPER == "exo_floor_div":
            spec = z3.And(ext(out_w) * ext(q_) <= ext(n_), ext(n_) < ext(out_w) * ext(q_) + ext(q_))
        else:
            spec = z3.And(ext(out_w) >= 0, ext(out_w) < ext(q_), z3.SRem(ext(n_) - ext(out_w), ext(q_)) == 0)
        safe = z3.And([z3.Implies(g_, c_) for g_, c_, _ in Ew.sites] or [z3.BoolVal(True)])
        r, m, dt = _prove([pre_w], z3.And(spec, safe), tmo)
        res["solver_time_s"] += dt
        if r == z3.unsat:
            ok_w.append(w)
        elif r == z3.sat:
            bad_w.append((w,) + _model_inputs(m, n_, q_, True))
    if bad_w and all32:
        # the 32-bit layers hold but a scaled-down instance fails: needs a human look, not a verdict
        res["undecided"].append(f"{TGT}: value clause fails on bit-vectors of width/num/quot {bad_w} although the "
                                f"32-bit obligations are discharged")
    res["bounded"].append(dict(target=TGT + " [value clause on bit-vectors]", cases=len(ok_w),
                               bound=f"int widths {list(widths)} with the envelope scaled to 2^(w-2); "
                                     f"passed at {ok_w}, failed at {[b[0] for b in bad_w]}"))
    return res


ENGINES = ["contracts.c08_floor_div:run"]
