r"""C11 - procedure-equivalence tracking is a sound congruence.

Contracts on ALL of src/exo/core/proc_eqv.py.

Reading of the property that is verified (DESIGN 3/C11, "per field"): for every
tracked structure i (the universal one, the strict one, one per known
configuration key k) the *view*  view_i = { (u,v) | u and v reach the same
self-loop by following parent pointers }  is the equivalence closure of the
recorded steps (p,q,S) relevant for i (all steps / steps with S = {} / steps
with k not in S).  Because "closure of E + one edge (p,q)" is "the old closure
with the classes of p and q merged and nothing else changed" (lemmas
`closure:*` below, discharged by z3), the history-level statement is the
induction over the history whose step is exactly the postcondition of
`assert_eqv_proc` / `derive_proc` / `decl_new_proc` / `new_uf_by_eqv_key`
stated here over the whole view (for all u, v).

Three layers, labelled honestly in the evidence:

 1. UNBOUNDED (obligations, z3): the heap of a union-find is a symbolic map
    (pyvc/heap.py: dom : Ref->Bool, val : Ref->Ref, any number of nodes), the
    ghost functions `root`, `rank` describe it through
        WF(m, root, rank) :=  forall x in dom(m).
            m[x] in dom  /\  root(x) in dom  /\  m[root x] = root x  /\  rank x >= 0
            /\ (m[x] = x  ->  root x = x)
            /\ (m[x] != x ->  root(m[x]) = root x  /\  rank(m[x]) < rank x)
    (`WF` determines `root` uniquely: lemma `wf:root-unique`).  `find`'s loop is
    cut with the invariant "WF w.r.t. the *entry* root/rank" (so path splitting
    cannot change anybody's representative) and the measure rank(val).
    The module functions are verified modularly on top of the method
    contracts, for ANY number of procedures; the number of *known keys* and the
    config-set are container shapes and are enumerated (0..2 known keys for the
    state-changing functions, 0..3 for the queries, every subset of a pool of 3
    keys as config-set, so keys "first seen late" are covered in every position).
 2. BOUNDED (reported under `bounded`, never counted as proved): the real
    functions run natively on every parent-pointer forest over <= 5 distinct
    (structurally equal!) LoopIR.proc objects, and every history of
    declarations / derivations / assertions up to a small length against a
    reference closure computed from the history (engine `run_bounded`).
 3. lemmas about the specification vocabulary itself (engine `run_lemmas`).
"""
from __future__ import annotations
import itertools, os, sys, time, weakref
import z3
from pyvc.contract import contract
from pyvc import sym as S
from pyvc.sym import And, Or, Not, Implies, Iff, Ite
from pyvc.heap import (SRef, SymMap, Ref, fresh_ref, ref_eq, ref_ite, forall_refs,
                       heap_entry)
from exo.core import proc_eqv as PE
from exo.core.LoopIR import LoopIR
from exo.core.prelude import SrcInfo

F = "src/exo/core/proc_eqv.py"
PROP = "C11"

ASSUMPTIONS = [
    "C11: WeakKeyDictionary keyed by LoopIR.proc is modelled as an identity-keyed dict: hash(proc) is id(proc) "
    "(LoopIR.py, extclass __hash__) and CPython dictionaries compare the cached full hash before calling the "
    "(structural, attrs-generated) __eq__, so two live procs are the same key iff they are the same object; "
    "the bounded engine uses structurally equal procs on purpose to exercise this",
    "C11: no garbage collection of procedures that are still referenced by a query; a proc that dies is a leaf in every "
    "structure (inner nodes are kept alive by the strong parent references stored as values), so its removal "
    "cannot change the view of the surviving nodes (argued, not machine-checked)",
    "C11: iterating `dict.items()` visits every key exactly once (for-loop cut rule of pyvc/heap.py)",
    "C11: the number of known configuration keys and the config_set are enumerated shapes (0..2 known keys for "
    "decl/derive/assert/new_uf_by_eqv_key/get_repr, 0..3 for check_eqv_proc/get_strictest_eqv_proc, all subsets of a "
    "pool of 3 keys as config_set); the number of procedures/nodes is unbounded in the proved obligations",
    "C11: which scheduling operations pass a provenance (derive_proc) and which start a new origin (decl_new_proc), "
    "i.e. the 'signature-changing operation' clause of the property, is decided in API.py/API_scheduling.py and is "
    "not covered by these contracts",
    "C11: the history-level statement (view_i = closure of the relevant recorded steps) follows from the proved "
    "one-step postconditions by induction on the length of the history (meta-argument; the closure "
    "characterisation it uses is the z3-discharged lemma group `closure:*`)",
    "C11: per-field reading of 'equivalent modulo K' (DESIGN 3/C11): connected, for each key outside K, by steps none "
    "of which disturbed that key; for a key not yet known to the module that relation is the universal one",
]

SRC = SrcInfo("c11", 0)

# Every proof obligation of this module is discharged by E-matching in well
# under a second.  Feasibility (sat) queries over the quantified invariants
# cannot be answered `sat` (WF has an inherent matching loop x -> m[x] ->
# m[m[x]] ...); they end `unknown`, which pyvc treats as "feasible".  To make
# them end quickly *and deterministically* (independent of machine load) the
# incremental solver runs without model-based quantifier instantiation and
# under a z3 resource limit per query; a *proof* that would need more falls
# through to pyvc's fresh solver (no resource limit) and CLI portfolio.
HEAP_TIMEOUT_MS = 4000
RLIMIT = 100000


# ----------------------------------------------------------------------------
# vocabulary that works on symbolic heaps (proving) and on real objects (replay)

def mk_proc():
    """a real LoopIR.proc; all of them are structurally equal on purpose"""
    return LoopIR.proc("p", [], [], [LoopIR.Pass(SRC)], None, SRC)


def concrete():
    return S.cur().concrete


def universe():
    return S.cur().ghost["universe"]


def forall(n, f):
    if concrete():
        return all(bool(f(*xs)) for xs in itertools.product(universe(), repeat=n))
    return forall_refs(n, f)


def m_has(m, x):
    if isinstance(m, SymMap):
        return m.has(x)
    return x in m


class _Undef:
    pass


def m_get(m, x):
    if isinstance(m, SymMap):
        return m.get(x)
    try:
        return m[x]
    except KeyError:
        return _Undef()


def walk(m, x, limit=10000):
    """the self-loop reached from x by following parent pointers, or None"""
    n = 0
    while True:
        try:
            p = m[x]
        except KeyError:
            return None
        if p is x:
            return x
        x = p
        n += 1
        if n > limit:
            return None


class SymView:
    """ghost root / rank functions of one union-find (symbolic mode)"""
    def __init__(self, root, rank):
        self._root, self._rank = root, rank

    @staticmethod
    def fresh(ctx, name):
        ctx.nfresh += 1
        r = z3.Function(ctx._leafname(name + "_root"), Ref, Ref)
        k = z3.Function(ctx._leafname(name + "_rank"), Ref, z3.IntSort())
        return SymView(lambda x: SRef(r(x.t)), lambda x: S.mk(k(x.t)))

    def root(self, x):
        return self._root(x)

    def rank(self, x):
        return self._rank(x)


class ConcView:
    """snapshot of the actual roots of a real lookup table (concrete mode)"""
    def __init__(self, m):
        self.table = {}
        self.keep = []
        for k in list(m.keys()):
            self.table[id(k)] = walk(m, k)
            self.keep.append(k)

    def root(self, x):
        r = self.table.get(id(x))
        return r if r is not None else _Undef()

    def rank(self, x):
        return 0


def same(view, u, v):
    return ref_eq(view.root(u), view.root(v))


class MergedView:
    """the class of b is re-rooted under the representative of a"""
    def __init__(self, view, a, b):
        self.v, self.ra, self.rb = view, view.root(a), view.root(b)

    def root(self, x):
        r = self.v.root(x)
        return ref_ite(ref_eq(r, self.rb), self.ra, r)

    def rank(self, x):
        moved = And(ref_eq(self.v.root(x), self.rb), Not(ref_eq(self.ra, self.rb)))
        return Ite(moved, self.v.rank(x) + self.v.rank(self.ra) + 1, self.v.rank(x))


class IteView:
    def __init__(self, c, v1, v2):
        self.c, self.v1, self.v2 = c, v1, v2

    def root(self, x):
        return ref_ite(self.c, self.v1.root(x), self.v2.root(x))

    def rank(self, x):
        return Ite(self.c, self.v1.rank(x), self.v2.rank(x))


class ExtendedView:
    """`val` becomes a singleton class if it was absent"""
    def __init__(self, view, val, absent):
        self.v, self.val, self.absent = view, val, absent

    def root(self, x):
        return ref_ite(And(ref_eq(x, self.val), self.absent), self.val, self.v.root(x))

    def rank(self, x):
        return Ite(And(ref_eq(x, self.val), self.absent), 0, self.v.rank(x))


def wf(m, view):
    """the heap m is a forest and view.root is its root function"""
    if not isinstance(m, SymMap):
        for k in list(m.keys()):
            r = walk(m, k)
            if r is None or r is not view.root(k):
                return False
        return True

    def body(x):
        p, r = m.get(x), view.root(x)
        return Implies(m.has(x), And(
            m.has(p), m.has(r), ref_eq(m.get(r), r), view.rank(x) >= 0,
            Implies(ref_eq(p, x), ref_eq(r, x)),
            Implies(Not(ref_eq(p, x)), And(ref_eq(view.root(p), r), view.rank(p) < view.rank(x)))))
    return forall_refs(1, body)


def dom_pred(m):
    """membership predicate of the *current* key set of m, frozen"""
    if isinstance(m, SymMap):
        d = m.dom
        return lambda x: S.mk(z3.Select(d, x.t))
    ids = {id(k) for k in m.keys()}
    return lambda x: id(x) in ids


def same_keys(m, D, plus=None):
    """key set of m == D (+ {plus})"""
    def body(x):
        want = D(x) if plus is None else Or(D(x), ref_eq(x, plus))
        return Iff(m_has(m, x), want)
    return forall(1, body)


def cur_view(uf):
    """the view of the structure *now*: recomputed from the real pointers in
    concrete mode, the ghost witness maintained by the method contracts in
    symbolic mode (tied to the heap by the `wf` clauses)"""
    if concrete():
        return ConcView(uf.lookup)
    return uf._pyvc_view


def merged_rel(rel, p, q):
    return lambda u, v: Or(rel(u, v), And(rel(u, p), rel(q, v)), And(rel(u, q), rel(p, v)))


def rel_of(view, D):
    return lambda u, v: And(D(u), D(v), same(view, u, v))


def rel_is(view, D, spec):
    """for all u, v in D:  u ~view v  <=>  spec(u, v)"""
    return forall(2, lambda u, v: Implies(And(D(u), D(v)), Iff(same(view, u, v), spec(u, v))))


# ----------------------------------------------------------------------------
# input shapes

def pick(g, name, pool=None):
    if g.concrete:
        pool = pool if pool is not None else g.ghost["universe"]
        return pool[abs(g.int(name)) % len(pool)]
    return fresh_ref(g.ctx, name)


def g_forest(g, name, nodes, uf=None):
    """concrete mode: a random parent-pointer forest over `nodes` in a real
    _UnionFind (node i points to one of nodes[0..i])"""
    uf = uf or PE._UnionFind()
    for i, n in enumerate(nodes):
        uf.lookup[n] = nodes[abs(g.int(f"{name}_par{i}")) % (i + 1)]
    return uf


def quick_unknown(g):
    """see the comment at HEAP_TIMEOUT_MS"""
    if not g.concrete:
        g.ctx.solver.set("smt.mbqi", False)
        g.ctx.solver.set("rlimit", RLIMIT)
        g.ctx.rlimit = RLIMIT          # keep this budget for every incremental check of the path


def g_uf(g, name="uf"):
    quick_unknown(g)
    if g.concrete:
        n = abs(g.int(name + "_n")) % 5 + 1
        nodes = [mk_proc() for _ in range(n)]
        g.ghost["universe"] = nodes + [mk_proc()]      # one node outside the table
        g.ghost["members"] = nodes
        uf = g_forest(g, name, nodes)
        view = ConcView(uf.lookup)
    else:
        uf = object.__new__(PE._UnionFind)
        uf.lookup = SymMap.fresh(g.ctx, name)
        view = SymView.fresh(g.ctx, name)
    uf._pyvc_view = view
    g.ghost["uf"] = uf
    return uf, view


def uf_contract(qual, params, need_member=()):
    c = contract(PROP, F, f"_UnionFind.{qual}")
    c.entry = heap_entry()
    c.timeout_ms = HEAP_TIMEOUT_MS
    c.native_entry = lambda g, fn, a: fn(a.self, *[getattr(a, p) for p in params])

    @c.inputs
    def _(g):
        uf, view = g_uf(g)
        d = {"self": uf}
        for p in params:
            d[p] = pick(g, p, g.ghost.get("members") if p in need_member else None)
        d["__ghost__"] = {"view": view, "D": dom_pred(uf.lookup), "m0": _snapshot(uf.lookup)}
        g.ghost["args0"], g.ghost["D0"] = dict(d), d["__ghost__"]["D"]
        return d

    @c.requires
    def _(a):
        return And(wf(a.self.lookup, a.ghost.view), *[m_has(a.self.lookup, getattr(a, p)) for p in need_member])
    return c


def _snapshot(m):
    if isinstance(m, SymMap):
        return SymMap(m.dom, m.val)
    return dict((id(k), (k, v)) for k, v in m.items())


def same_table(m, m0):
    """m and the snapshot m0 have the same keys and the same values"""
    if isinstance(m, SymMap):
        return forall_refs(1, lambda x: And(Iff(m.has(x), m0.has(x)),
                                            Implies(m0.has(x), ref_eq(m.get(x), m0.get(x)))))
    return (set(map(id, m.keys())) == set(m0) and all(m[k] is m0[id(k)][1] for k in m.keys()))


# ----------------------------------------------------------------------------
# method contracts as used by callers (each is PROVED by the contract of the
# same name below; `assumed=False`)

def _pre(g, a, what, *members):
    """call-site precondition (WF + membership) as an obligation of its own.
    The label carries a per-path call counter: pyvc identifies obligations by
    (label, decision trace), and several calls between two decisions would
    otherwise share one identity."""
    n = g.ghost["ncall"] = g.ghost.get("ncall", 0) + 1
    m = a.self.lookup
    if not isinstance(m, SymMap) or not hasattr(a.self, "_pyvc_view"):
        g.ctx.prove(False, f"call #{n} _UnionFind.{what}: receiver is a tracked structure")
        raise S.PathEnd()
    cond = And(wf(m, a.self._pyvc_view), *[m.has(getattr(a, x)) for x in members])
    g.ctx.prove(cond, f"call #{n} _UnionFind.{what}: structure well formed and arguments registered in it")
    g.ctx.assume(cond)


def _res_find(g, a):
    _pre(g, a, "find", "val")
    view = a.self._pyvc_view
    r = view.root(a.val)
    a.self.lookup.havoc_vals(g.ctx, "find")
    return r

_WF_AFTER = lambda a: wf(a.self.lookup, a.self._pyvc_view)

FIND_CALLEE = dict(result=_res_find, ensures=_WF_AFTER, assumed=False,
                   note="proved: find returns root(val), the heap stays WF w.r.t. the same root function, same keys")


def _res_union(g, a):
    _pre(g, a, "union", "val1", "val2")
    old = a.self._pyvc_view
    o = g.bool("union_orientation")
    a.self._pyvc_view = IteView(o, MergedView(old, a.val1, a.val2), MergedView(old, a.val2, a.val1))
    a.self.lookup.havoc_vals(g.ctx, "union")
    return None

UNION_CALLEE = dict(result=_res_union, ensures=_WF_AFTER, assumed=False,
                    note="proved: after union the heap is WF w.r.t. the merged root function (either orientation), same keys")


def _res_check(g, a):
    _pre(g, a, "check_eqv", "val1", "val2")
    view = a.self._pyvc_view
    r = same(view, a.val1, a.val2)
    a.self.lookup.havoc_vals(g.ctx, "check")
    return r

CHECK_CALLEE = dict(result=_res_check, ensures=_WF_AFTER, assumed=False,
                    note="proved: check_eqv(a,b) <=> root a = root b; view unchanged")


def _res_new_node(g, a):
    _pre(g, a, "new_node")
    m, old = a.self.lookup, a.self._pyvc_view
    absent = Not(m.has(a.val))
    a.self._pyvc_view = ExtendedView(old, a.val, absent)
    m.dom = z3.Store(m.dom, a.val.t, z3.BoolVal(True))
    m.havoc_vals(g.ctx, "new_node")
    return None

NEWNODE_CALLEE = dict(result=_res_new_node, ensures=_WF_AFTER, assumed=False,
                      note="proved: new_node adds val as a singleton class iff absent; nothing else changes")


def _res_copy(g, a):
    _pre(g, a, "copy_entire_UF")
    new = object.__new__(PE._UnionFind)
    new.lookup = SymMap(a.self.lookup.dom, a.self.lookup.val)
    new._pyvc_view = a.self._pyvc_view
    return new

COPY_CALLEE = dict(result=_res_copy, ensures=lambda a: wf(a.result.lookup, a.result._pyvc_view), assumed=False,
                   note="proved: copy_entire_UF returns the same table on fresh storage")


def use_methods(c, *names):
    tab = {"find": FIND_CALLEE, "union": UNION_CALLEE, "check_eqv": CHECK_CALLEE,
           "new_node": NEWNODE_CALLEE, "copy_entire_UF": COPY_CALLEE}
    for n in names or tab:
        c.callee("_UnionFind." + n, **tab[n])


# ----------------------------------------------------------------------------
# _UnionFind.find

cfind = uf_contract("find", ["val"], need_member=["val"])

@cfind.ensures("find returns the representative of val's class")
def _(a):
    return ref_eq(a.result, a.ghost.view.root(a.val))

@cfind.ensures("path splitting leaves the representative of EVERY node unchanged (whole view)")
def _(a):
    return wf(a.self.lookup, a.ghost.view)

@cfind.ensures("find does not add or remove nodes")
def _(a):
    return same_keys(a.self.lookup, a.ghost.D)

def _find_inv(env):
    g = S.cur().ghost
    uf, view, val0 = g["uf"], g["uf"]._pyvc_view, g["args0"]["val"]
    m = uf.lookup
    return And(wf(m, view), m.has(env.val), ref_eq(env.parent, m.get(env.val)),
               ref_eq(view.root(env.val), view.root(val0)), same_keys(m, g["D0"]))

def _find_havoc_heap(g):
    g.ghost["uf"].lookup.havoc_vals(g.ctx, "loop")
    return None

cfind.loop("_UnionFind.find", 0, _find_inv,
           {"val": lambda g: fresh_ref(g.ctx, "val_l"), "parent": lambda g: fresh_ref(g.ctx, "parent_l"),
            "_pyvc_heap": _find_havoc_heap},
           decreases=lambda env: S.cur().ghost["uf"]._pyvc_view.rank(env.val))

# ----------------------------------------------------------------------------
# _UnionFind.check_eqv

cchk = uf_contract("check_eqv", ["val1", "val2"], need_member=["val1", "val2"])
use_methods(cchk, "find")

@cchk.ensures("check_eqv(a,b) iff a and b are in the same class")
def _(a):
    return Iff(a.result, same(a.ghost.view, a.val1, a.val2))

@cchk.ensures("a query leaves the view of every node unchanged")
def _(a):
    return And(wf(a.self.lookup, a.ghost.view), same_keys(a.self.lookup, a.ghost.D))


# ----------------------------------------------------------------------------
# _UnionFind.union

cuni = uf_contract("union", ["val1", "val2"], need_member=["val1", "val2"])
use_methods(cuni, "find")

@cuni.ensures("after union the heap is a forest whose root function is the old one with the class of one "
              "argument re-rooted under the representative of the other")
def _(a):
    m, v = a.self.lookup, a.ghost.view
    return And(Or(wf(m, MergedView(v, a.val1, a.val2)), wf(m, MergedView(v, a.val2, a.val1))),
               same_keys(m, a.ghost.D))

@cuni.ensures("union yields exactly the old partition with the two classes merged (for all u, v)")
def _(a):
    v0, D = a.ghost.view, a.ghost.D
    spec = merged_rel(lambda u, v: same(v0, u, v), a.val1, a.val2)
    if concrete():
        return rel_is(ConcView(a.self.lookup), D, spec)
    # both admissible witnesses induce the merged partition
    return And(rel_is(MergedView(v0, a.val1, a.val2), D, spec),
               rel_is(MergedView(v0, a.val2, a.val1), D, spec))


# ----------------------------------------------------------------------------
# _UnionFind.new_node

cnew = uf_contract("new_node", ["val"])

@cnew.ensures("new_node adds val as a class of its own iff it was absent; every other class is unchanged")
def _(a):
    m, v0, D = a.self.lookup, a.ghost.view, a.ghost.D
    return And(wf(m, ExtendedView(v0, a.val, Not(D(a.val)))), same_keys(m, D, plus=a.val))

@cnew.ensures("a freshly added node is equivalent to no older node; older nodes keep their relation")
def _(a):
    v0, D = a.ghost.view, a.ghost.D
    v1 = ConcView(a.self.lookup) if concrete() else ExtendedView(v0, a.val, Not(D(a.val)))
    return And(rel_is(v1, D, lambda u, v: same(v0, u, v)),
               Implies(Not(D(a.val)), forall(1, lambda u: Implies(D(u), Not(same(v1, u, a.val))))),
               same(v1, a.val, a.val))

@cnew.ensures("an existing node is left alone (table unchanged)")
def _(a):
    if concrete():
        return same_table(a.self.lookup, a.ghost.m0) if a.ghost.D(a.val) else True
    return Implies(a.ghost.D(a.val), same_table(a.self.lookup, a.ghost.m0))


# ----------------------------------------------------------------------------
# _UnionFind.copy_entire_UF

ccpy = uf_contract("copy_entire_UF", [])

def _the_copy(env):
    """the structure under construction: the local bound to a _UnionFind other
    than self (whatever the implementation calls it)"""
    me = env.self
    cands = [v for v in env._f.vars.values() if isinstance(v, PE._UnionFind) and v is not me]
    return cands[0] if len(cands) == 1 else None

def _copy_inv(env):
    m, V, cp = env.self.lookup, env._pyvc_visited, _the_copy(env)
    if cp is None or not isinstance(cp.lookup, SymMap) or cp.lookup is m:
        return False
    c = cp.lookup
    return forall_refs(1, lambda x: And(Iff(c.has(x), V.has(x)),
                                        Implies(V.has(x), ref_eq(c.get(x), m.get(x)))))

def _copy_havoc(g):
    _the_copy(S.cur().ghost["loop_env"]).lookup.havoc_all(g.ctx, "copy")
    return None

ccpy.loop("_UnionFind.copy_entire_UF", 0, _copy_inv, {"_pyvc_heap": _copy_havoc})

@ccpy.ensures("the copy has the same table, hence the same partition")
def _(a):
    r = a.result
    if not isinstance(r, PE._UnionFind):
        return False
    if concrete():
        return And(same_table(r.lookup, a.ghost.m0), wf(r.lookup, a.ghost.view))
    return And(same_table(r.lookup, a.ghost.m0), wf(r.lookup, a.ghost.view))

@ccpy.ensures("the copy lives on disjoint storage (mutating it cannot affect the original)")
def _(a):
    r = a.result
    return (r is not a.self) and (r.lookup is not a.self.lookup) and \
        isinstance(r.lookup, (SymMap, weakref.WeakKeyDictionary))

@ccpy.ensures("the original is untouched")
def _(a):
    return same_table(a.self.lookup, a.ghost.m0)


# ============================================================================
# module level: _UF_Unv, _UF_Strict, _UF_Unv_key and the functions over them
#
# Pre-state = ANY state satisfying the module invariant
#     Inv :=  every structure is WF  /\  every structure has the same key set D
# (views are arbitrary: whatever the earlier history produced).  Pre-conditions
# on arguments come from the call sites in API.py: procedures handed to
# assert/check/derive(orig) have been registered by Procedure.__init__
# (decl_new_proc / derive_proc) before, config_set is a frozenset.

KEYPOOL = [("Cfg", "a"), ("Cfg", "b"), ("Cfg", "c")]


class ModState:
    """ghost snapshot of the module state at entry"""
    pass


def g_module(g, max_known=2, n_extra=1):
    quick_unknown(g)
    nk = g.choose(list(range(max_known + 1)), "known_keys")
    known = KEYPOOL[:nk]
    st = ModState()
    names = ["Unv", "Strict"] + known
    if g.concrete:
        n = abs(g.int("n_procs")) % 4 + 1
        nodes = [mk_proc() for _ in range(n)]
        g.ghost["members"] = nodes
        g.ghost["universe"] = nodes + [mk_proc() for _ in range(n_extra)]
        ufs = [g_forest(g, f"uf{i}", nodes) for i in range(len(names))]
        for uf in ufs:
            uf._pyvc_view = ConcView(uf.lookup)
        st.D = dom_pred(ufs[0].lookup)
    else:
        ctx = g.ctx
        ctx.nfresh += 1
        D = z3.Const(ctx._leafname("D"), z3.ArraySort(Ref, z3.BoolSort()))
        ufs = []
        for i in range(len(names)):
            uf = object.__new__(PE._UnionFind)
            uf.lookup = SymMap.fresh(ctx, f"uf{i}", dom=D)
            uf._pyvc_view = SymView.fresh(ctx, f"uf{i}")
            ufs.append(uf)
        st.D = lambda x: S.mk(z3.Select(D, x.t))
    st.names = names
    st.known = list(known)
    st.uf = dict(zip(names, ufs))
    st.view = {nm: uf._pyvc_view for nm, uf in st.uf.items()}
    st.m0 = {nm: _snapshot(uf.lookup) for nm, uf in st.uf.items()}
    # install as the module's state (the functions read these globals)
    PE._UF_Unv, PE._UF_Strict = st.uf["Unv"], st.uf["Strict"]
    PE._UF_Unv_key = {k: st.uf[k] for k in known}
    g.ghost["st"] = st
    return st


def g_config_set(g, name="config_set"):
    subsets = [frozenset(c) for r in range(len(KEYPOOL) + 1) for c in itertools.combinations(KEYPOOL, r)]
    return g.choose(subsets, name)


def inv_pre(st):
    return And([wf(uf.lookup, st.view[nm]) for nm, uf in st.uf.items()])


def structures_now():
    return [("Unv", PE._UF_Unv), ("Strict", PE._UF_Strict)] + list(PE._UF_Unv_key.items())


SLOTS = ["Unv", "Strict"] + KEYPOOL


def slot_name(nm):
    return nm if isinstance(nm, str) else "key " + ".".join(nm)


def per_structure(c, label, fn):
    """one obligation per structure slot (universal, strict, each key of the
    pool): `fn(a, name, uf)` for the structure that occupies the slot after the
    call, trivially true for a key that is (still) unknown"""
    for slot in SLOTS:
        def clause(a, slot=slot):
            now = dict(structures_now())
            if slot not in now:
                return True
            if not isinstance(now[slot], PE._UnionFind):
                return False
            if not concrete() and not hasattr(now[slot], "_pyvc_view"):
                # not produced by a tracked method (e.g. a bare _UnionFind()): an
                # empty table, which does not have the key set D
                return False
            return fn(a, slot, now[slot])
        c.ensures(f"{label} [{slot_name(slot)}]")(clause)


def inv_post_one(uf, D, plus=None):
    """Inv after the call, for one structure: WF w.r.t. its current view and
    key set equal to D (+ {plus})"""
    return And(wf(uf.lookup, cur_view(uf)), same_keys(uf.lookup, D, plus=plus))


def frame_ok(st, new_keys=()):
    """no structure is dropped, replaced or shared; exactly `new_keys` appear"""
    if PE._UF_Unv is not st.uf["Unv"] or PE._UF_Strict is not st.uf["Strict"]:
        return False
    if not isinstance(PE._UF_Unv_key, dict):
        return False
    if set(PE._UF_Unv_key.keys()) != set(st.known) | set(new_keys):
        return False
    if any(PE._UF_Unv_key[k] is not st.uf[k] for k in st.known):
        return False
    ufs = [uf for _, uf in structures_now()]
    tabs = [uf.lookup for uf in ufs if isinstance(uf, PE._UnionFind)]
    return (len(tabs) == len(ufs) and len(set(map(id, ufs))) == len(ufs)
            and len(set(map(id, tabs))) == len(tabs))


def unchanged(st, nm, uf, D):
    return rel_is(cur_view(uf), D, lambda u, v: same(st.view[nm], u, v))


def mod_contract(qual, params_gen, requires=None, max_known=2):
    c = contract(PROP, F, qual)
    c.entry = heap_entry()
    c.timeout_ms = HEAP_TIMEOUT_MS
    # the universe table is the state this property is about: its contents are
    # specified by the postconditions over the whole view (symbolic heap), not by the frame
    c.modifies_globals("exo.core.proc_eqv:_UF_Unv_key")
    use_methods(c)

    @c.inputs
    def _(g):
        st = g_module(g, max_known=max_known)
        d = params_gen(g, st)
        d["__ghost__"] = {"st": st}
        return d

    @c.requires
    def _(a):
        st = a.ghost.st
        cs = [inv_pre(st)]
        if requires is not None:
            cs.append(requires(a, st))
        return And(cs)

    c.native_entry = lambda g, fn, a: fn(**{k: v for k, v in a.__dict__.items()
                                            if k not in ("ghost", "g", "exc", "result")})
    return c


def member(g, name):
    return pick(g, name, g.ghost.get("members"))


# ----------------------------------------------------------------------------
# decl_new_proc

cdecl = mod_contract("decl_new_proc", lambda g, st: {"proc": pick(g, "proc")})

@cdecl.ensures("no structure is dropped, replaced or shared")
def _(a):
    return frame_ok(a.ghost.st)

per_structure(cdecl, "module invariant preserved: structure well formed, over D + {proc}",
              lambda a, nm, uf: inv_post_one(uf, a.ghost.st.D, plus=a.proc))

def _decl_rel(a, nm, uf):
    st, D = a.ghost.st, a.ghost.st.D
    v1 = cur_view(uf)
    return And(unchanged(st, nm, uf, D),
               Implies(Not(D(a.proc)), forall(1, lambda u: Implies(D(u), Not(same(v1, u, a.proc))))),
               same(v1, a.proc, a.proc))

per_structure(cdecl, "a newly declared procedure is related to nothing but itself; relations among older "
                     "procedures are unchanged", _decl_rel)


# ----------------------------------------------------------------------------
# new_uf_by_eqv_key

def _g_newkey(g, st):
    fresh_keys = [k for k in KEYPOOL if k not in st.known]
    return {"key": g.choose(fresh_keys, "key")}

cnk = mod_contract("new_uf_by_eqv_key", _g_newkey)

@cnk.ensures("exactly the new key is added, on storage of its own; nothing dropped, replaced or shared")
def _(a):
    return frame_ok(a.ghost.st, new_keys=[a.key])

per_structure(cnk, "module invariant preserved", lambda a, nm, uf: inv_post_one(uf, a.ghost.st.D))

def _nk_rel(a, nm, uf):
    st, D = a.ghost.st, a.ghost.st.D
    if nm == a.key:
        return rel_is(cur_view(uf), D, lambda u, v: same(st.view["Unv"], u, v))
    return unchanged(st, nm, uf, D)

per_structure(cnk, "a key first seen now starts from the universal relation (no earlier step mentions it); "
                   "every other structure is unchanged", _nk_rel)


# ----------------------------------------------------------------------------
# assert_eqv_proc / derive_proc : one recorded step (p, q, S)

def step_spec(st, nm, p, q, S_, base):
    """relation of structure nm after the step (p,q,S_):
         merged(base_nm, p, q)   if the step is relevant for nm
         base_nm                 otherwise
       where a key that was unknown before the step starts from base_Unv (it is
       in S_ - see the frame clause - so the step itself is not relevant for it).
       `base(nm)` is the relation of structure nm just before the union."""
    if nm == "Unv":
        return merged_rel(base("Unv"), p, q)
    if nm == "Strict":
        return merged_rel(base("Strict"), p, q) if len(S_) == 0 else base("Strict")
    if nm in st.known:
        return merged_rel(base(nm), p, q) if nm not in S_ else base(nm)
    return base("Unv")


def _g_assert(g, st):
    return {"proc1": member(g, "proc1"), "proc2": member(g, "proc2"), "config_set": g_config_set(g)}

cas = mod_contract("assert_eqv_proc", _g_assert,
                   requires=lambda a, st: And(st.D(a.proc1), st.D(a.proc2)))

@cas.ensures("every key of the config-set is known afterwards, each new one on storage of its own; nothing "
             "dropped, replaced or shared")
def _(a):
    st = a.ghost.st
    return frame_ok(st, new_keys=[k for k in a.config_set if k not in st.known])

per_structure(cas, "module invariant preserved", lambda a, nm, uf: inv_post_one(uf, a.ghost.st.D))

def _as_rel(a, nm, uf):
    st, D = a.ghost.st, a.ghost.st.D
    base = lambda n: (lambda u, v: same(st.view[n], u, v))
    return rel_is(cur_view(uf), D, step_spec(st, nm, a.proc1, a.proc2, a.config_set, base))

per_structure(cas, "the step (p,q,S) merges the classes of p and q iff it is relevant for this structure "
                   "(universal: always; strict: S empty; key k: k not in S), nothing else changes; a key first "
                   "seen in S starts from the universal relation before the step", _as_rel)


def _g_derive(g, st):
    return {"orig_proc": member(g, "orig_proc"), "new_proc": pick(g, "new_proc"), "config_set": g_config_set(g)}

cder = mod_contract("derive_proc", _g_derive, requires=lambda a, st: st.D(a.orig_proc))

@cder.ensures("every key of the config-set is known afterwards, each new one on storage of its own; nothing "
              "dropped, replaced or shared")
def _(a):
    st = a.ghost.st
    return frame_ok(st, new_keys=[k for k in a.config_set if k not in st.known])

per_structure(cder, "module invariant preserved over D + {new_proc}",
              lambda a, nm, uf: inv_post_one(uf, a.ghost.st.D, plus=a.new_proc))

def _der_rel(a, nm, uf):
    st, D0, new = a.ghost.st, a.ghost.st.D, a.new_proc
    D1 = lambda x: Or(D0(x), ref_eq(x, new))
    def base(n):
        v0 = st.view[n]
        return lambda u, v: Or(And(D0(u), D0(v), same(v0, u, v)), And(ref_eq(u, new), ref_eq(v, new)))
    return rel_is(cur_view(uf), D1, step_spec(st, nm, a.orig_proc, new, a.config_set, base))

per_structure(cder, "derive = declare new_proc (a singleton class if it is new) then record the step "
                    "(orig,new,S): merged iff relevant for this structure, nothing else changes, late keys "
                    "start from the universal relation", _der_rel)


# ----------------------------------------------------------------------------
# queries

def _g_query(g, st):
    return {"proc1": member(g, "proc1"), "proc2": member(g, "proc2"), "config_set": g_config_set(g)}

def query_frame(c):
    c.ensures("a query drops, replaces or shares no structure")(lambda a: frame_ok(a.ghost.st))
    per_structure(c, "a query changes no relation (path compression included) and keeps the invariant",
                  lambda a, nm, uf: And(inv_post_one(uf, a.ghost.st.D), unchanged(a.ghost.st, nm, uf, a.ghost.st.D)))

cq = mod_contract("check_eqv_proc", _g_query, max_known=3,
                  requires=lambda a, st: And(st.D(a.proc1), st.D(a.proc2)))

@cq.ensures("p,q are reported equivalent modulo K iff they are connected in the universal relation and in the "
            "relation of every known key outside K")
def _(a):
    st = a.ghost.st
    want = [same(st.view["Unv"], a.proc1, a.proc2)]
    want += [same(st.view[k], a.proc1, a.proc2) for k in st.known if k not in a.config_set]
    if not isinstance(a.result, (bool, S.SBool)):
        return False
    return Iff(a.result, And(want))

query_frame(cq)


cgs = mod_contract("get_strictest_eqv_proc",
                   lambda g, st: {"proc1": member(g, "proc1"), "proc2": member(g, "proc2")}, max_known=3,
                   requires=lambda a, st: And(st.D(a.proc1), st.D(a.proc2)))

@cgs.ensures("is_eqv iff connected in the universal relation; keys = exactly the known keys whose relation "
             "separates p and q (empty when not equivalent at all)")
def _(a):
    st = a.ghost.st
    if not (isinstance(a.result, tuple) and len(a.result) == 2):
        return False
    is_eqv, keys = a.result
    if not isinstance(is_eqv, (bool, S.SBool)) or not isinstance(keys, (set, frozenset)):
        return False
    if not set(keys) <= set(st.known):
        return False
    cs = [Iff(is_eqv, same(st.view["Unv"], a.proc1, a.proc2))]
    for k in st.known:
        cs.append(Iff(k in keys, And(is_eqv, Not(same(st.view[k], a.proc1, a.proc2)))))
    return And(cs)

query_frame(cgs)


crep = mod_contract("get_repr_proc", lambda g, st: {"q_proc": member(g, "q_proc")},
                    requires=lambda a, st: st.D(a.q_proc))

@crep.ensures("the representative is a declared procedure strictly equivalent to the argument")
def _(a):
    st = a.ghost.st
    return And(st.D(a.result), same(st.view["Strict"], a.result, a.q_proc))

query_frame(crep)


# ============================================================================
# engine 1: lemmas about the specification vocabulary (z3, unbounded)

ENGINES = ["contracts.c11_proc_eqv:run_lemmas", "contracts.c11_proc_eqv:run_bounded"]


def run_lemmas(tier="quick", seed=0):
    r"""Facts of mathematics the reading of the contracts relies on, discharged
    by z3 through the same Ctx.prove machinery:
      wf:root-unique     WF(m,r1,k1) /\ WF(m,r2,k2) ==> r1 = r2 on dom(m)
                         (step of the well-founded induction on k1; the
                         induction principle itself is the trusted meta-step)
      closure:*          for an equivalence R, merged_rel(R,p,q) is the LEAST
                         equivalence containing R and (p,q), i.e. the
                         equivalence closure of R + {(p,q)}
      extend:*           adding a fresh singleton class gives an equivalence on
                         D + {x} that restricts to R on D
    `merged_rel` and `wf` are the very functions the contracts use."""
    t0 = time.time()
    ctx = S.Ctx((), 20000)
    ctx.solver.set("smt.mbqi", False)
    ctx.solver.set("rlimit", 10 * RLIMIT)
    old = S.set_ctx(ctx)
    B = z3.BoolSort()
    try:
        def sb(t):
            return S.SBool(t)
        # ---- wf:root-unique
        m = SymMap.fresh(ctx, "lm")
        v1, v2 = SymView.fresh(ctx, "lv1"), SymView.fresh(ctx, "lv2")
        x = fresh_ref(ctx, "x")
        ctx.assume(And(wf(m, v1), wf(m, v2), m.has(x)))
        ctx.assume(forall_refs(1, lambda y: Implies(And(m.has(y), v1.rank(y) < v1.rank(x)),
                                                    ref_eq(v1.root(y), v2.root(y)))))
        ctx.prove(ref_eq(v1.root(x), v2.root(x)), "wf:root-unique (induction step on rank)")

        # ---- closure
        R = z3.Function("R", Ref, Ref, B)
        Q = z3.Function("Q", Ref, Ref, B)
        rel = lambda F_: (lambda u, v: sb(F_(u.t, v.t)))
        def equivalence(r):
            return And(forall_refs(1, lambda u: r(u, u)),
                       forall_refs(2, lambda u, v: Implies(r(u, v), r(v, u))),
                       forall_refs(3, lambda u, v, w: Implies(And(r(u, v), r(v, w)), r(u, w))))
        p, q = fresh_ref(ctx, "p"), fresh_ref(ctx, "q")
        ctx.assume(equivalence(rel(R)))
        M = merged_rel(rel(R), p, q)
        ctx.prove(forall_refs(1, lambda u: M(u, u)), "closure: merged relation is reflexive")
        ctx.prove(forall_refs(2, lambda u, v: Implies(M(u, v), M(v, u))), "closure: merged relation is symmetric")
        ctx.prove(forall_refs(3, lambda u, v, w: Implies(And(M(u, v), M(v, w)), M(u, w))),
                  "closure: merged relation is transitive")
        ctx.prove(And(forall_refs(2, lambda u, v: Implies(rel(R)(u, v), M(u, v))), M(p, q)),
                  "closure: merged relation contains the old relation and the new edge")
        ctx.assume(And(equivalence(rel(Q)), forall_refs(2, lambda u, v: Implies(rel(R)(u, v), rel(Q)(u, v))),
                       rel(Q)(p, q)))
        ctx.prove(forall_refs(2, lambda u, v: Implies(M(u, v), rel(Q)(u, v))),
                  "closure: merged relation is below every equivalence containing the old relation and the new edge")

        # ---- extend
        Dm = z3.Function("Dm", Ref, B)
        D = lambda u: sb(Dm(u.t))
        n = fresh_ref(ctx, "n")
        E = lambda u, v: Or(And(D(u), D(v), rel(R)(u, v)), And(ref_eq(u, n), ref_eq(v, n)))
        D1 = lambda u: Or(D(u), ref_eq(u, n))
        ctx.assume(Not(D(n)))
        ctx.prove(And(forall_refs(1, lambda u: Implies(D1(u), E(u, u))),
                      forall_refs(2, lambda u, v: Implies(E(u, v), E(v, u))),
                      forall_refs(3, lambda u, v, w: Implies(And(E(u, v), E(v, w)), E(u, w)))),
                  "extend: relation with a fresh singleton class is an equivalence on D + {n}")
        ctx.prove(And(forall_refs(2, lambda u, v: Implies(And(D(u), D(v)), Iff(E(u, v), rel(R)(u, v)))),
                      forall_refs(1, lambda u: Implies(D(u), Not(E(u, n))))),
                  "extend: it restricts to the old relation on D and relates n to nothing older")
        # canary: the hypotheses above are not contradictory in a way z3 sees
        ctx.solver.set("timeout", 1000)
        canary_unsat = ctx._check()[0] == z3.unsat
    finally:
        S.set_ctx(old)
    obs = list(ctx.obligations)
    out = dict(obligations=len(obs), discharged=sum(o.status == "discharged" for o in obs),
               functions=["(lemma) contracts/c11_proc_eqv.py::wf / merged_rel"], assumptions=[],
               samples=[f"lemma {o.label}: unsat in {o.time:.3f}s" for o in obs[:3]], violations=[], undecided=[],
               bounded=[], clauses={f"lemma :: {o.label}": o.status for o in obs},
               solver_time_s=round(time.time() - t0, 3))
    for o in obs:
        if o.status != "discharged":
            out["undecided"].append(f"C11 lemma '{o.label}': {o.status}")
    if canary_unsat:
        out["undecided"].append("C11 lemmas: hypotheses are contradictory (canary proved False)")
    return out


# ============================================================================
# engine 2: bounded stand-ins (exhaustive small scope, natively, real objects)

class _Timeout(Exception):
    pass


class _watchdog:
    """turns a non-terminating call of the code under test into an exception"""
    def __init__(self, secs):
        self.secs = secs

    def __enter__(self):
        import signal
        self.ok = False
        try:
            def h(sig, frm):
                raise _Timeout()
            self.old = signal.signal(signal.SIGALRM, h)
            signal.setitimer(signal.ITIMER_REAL, self.secs)
            self.ok = True
        except ValueError:
            pass

    def __exit__(self, *exc):
        import signal
        if self.ok:
            signal.setitimer(signal.ITIMER_REAL, 0)
            signal.signal(signal.SIGALRM, self.old)
        return False


def forests(n):
    """every parent function on range(n) that is a forest with self-loops at the roots"""
    for par in itertools.product(range(n), repeat=n):
        ok = True
        for i in range(n):
            x, k = i, 0
            while par[x] != x and k <= n:
                x, k = par[x], k + 1
            if par[x] != x:
                ok = False
                break
        if ok:
            yield par


def _roots(par):
    out = []
    for i in range(len(par)):
        x = i
        while par[x] != x:
            x = par[x]
        out.append(x)
    return out


def _build(P, par, nodes):
    uf = P._UnionFind()
    for i, p in enumerate(par):
        uf.lookup[nodes[i]] = nodes[p]
    return uf


def _partition(uf, nodes):
    """actual partition of the nodes present in uf: frozenset of frozensets of indices; None if broken"""
    cls = {}
    for i, n in enumerate(nodes):
        if n in uf.lookup:
            r = walk(uf.lookup, n, limit=1000)
            if r is None:
                return None
            cls.setdefault(id(r), set()).add(i)
    return frozenset(frozenset(c) for c in cls.values())


def _part_of_roots(roots, present):
    cls = {}
    for i in present:
        cls.setdefault(roots[i], set()).add(i)
    return frozenset(frozenset(c) for c in cls.values())


def _merge(part, a, b):
    ca = next(c for c in part if a in c)
    cb = next(c for c in part if b in c)
    return frozenset(c for c in part if c is not ca and c is not cb) | {ca | cb}


_FOREST_REPLAY = '''#!/venv/bin/python
"""Replay (bounded engine of C11): one operation of _UnionFind on a small forest.
exit 1 = the real code violates the clause."""
import os, sys
sys.path.insert(0, os.path.join(os.environ.get("VERIF_REPO", "/repo"), "src"))
sys.path.insert(0, {verif!r})
from contracts.c11_proc_eqv import replay_forest
sys.exit(replay_forest({case!r}))
'''

_HISTORY_REPLAY = '''#!/venv/bin/python
"""Replay (bounded engine of C11): a history of declarations / derivations /
assertions followed by a query, against the equivalence closure of the recorded steps.
exit 1 = the real code violates the property."""
import os, sys
sys.path.insert(0, os.path.join(os.environ.get("VERIF_REPO", "/repo"), "src"))
sys.path.insert(0, {verif!r})
from contracts.c11_proc_eqv import replay_history
sys.exit(replay_history({case!r}))
'''

VERIF_DIR = os.path.dirname(os.path.dirname(os.path.abspath(__file__)))


def check_forest_op(P, par, op, args, verbose=False):
    """run one operation of the real _UnionFind on the forest `par`; returns
    None if every clause holds, else (clause, observed, expected)"""
    n = len(par)
    nodes = [mk_proc() for _ in range(n + 1)]          # nodes[n] is outside the table
    roots = _roots(par)
    p0 = _part_of_roots(roots, range(n))
    uf = _build(P, par, nodes)
    say = print if verbose else (lambda *a: None)
    say(f"forest: parent = {list(par)} (node i -> parent[i]; node {n} is not in the table)")
    say(f"operation: {op}{tuple(args)}")
    try:
        with _watchdog(5):
            if op == "find":
                r = uf.find(nodes[args[0]])
                say(f"returned node {nodes.index(r) if any(r is x for x in nodes) else r!r}")
                if r is not nodes[roots[args[0]]]:
                    return ("find returns the representative", _ix(nodes, r), roots[args[0]])
                exp = p0
            elif op == "check_eqv":
                r = uf.check_eqv(nodes[args[0]], nodes[args[1]])
                say(f"returned {r!r}")
                if r is not (roots[args[0]] == roots[args[1]]):
                    return ("check_eqv iff same class", r, roots[args[0]] == roots[args[1]])
                exp = p0
            elif op == "union":
                uf.union(nodes[args[0]], nodes[args[1]])
                exp = _merge(p0, args[0], args[1])
            elif op == "new_node":
                uf.new_node(nodes[args[0]])
                exp = p0 if args[0] < n else p0 | {frozenset([n])}
            elif op == "copy":
                cp = uf.copy_entire_UF()
                if cp is uf or cp.lookup is uf.lookup:
                    return ("copy lives on disjoint storage", "aliased", "distinct objects")
                if _partition(cp, nodes) != p0 or any(cp.lookup.get(nodes[i]) is not nodes[par[i]] for i in range(n)):
                    return ("copy has the same table", _show_part(_partition(cp, nodes)), _show_part(p0))
                # mutate the copy in every way the module does; the original must not move
                cp.new_node(nodes[n])
                cp.union(nodes[0], nodes[n])
                for i in range(n):
                    cp.union(nodes[0], nodes[i])
                if nodes[n] in uf.lookup or any(uf.lookup.get(nodes[i]) is not nodes[par[i]] for i in range(n)):
                    return ("mutating the copy does not affect the original",
                            _show_part(_partition(uf, nodes)), _show_part(p0))
                exp = p0
            else:
                raise ValueError(op)
    except _Timeout:
        return ("terminates", "no result after 5 s", "a result")
    except Exception as e:
        return ("no exception", f"{type(e).__name__}: {e}", "normal return")
    got = _partition(uf, nodes)
    say(f"partition before: {_show_part(p0)}")
    say(f"partition after : {_show_part(got)}")
    if got != exp:
        return ("partition after the operation", _show_part(got), _show_part(exp))
    return None


def _ix(nodes, r):
    for i, x in enumerate(nodes):
        if x is r:
            return i
    return repr(r)


def _show_part(p):
    if p is None:
        return "broken (cycle or dangling parent)"
    return sorted(sorted(c) for c in p)


def replay_forest(case):
    from exo.core import proc_eqv as P
    print(f"module under test: {P.__file__}")
    bad = check_forest_op(P, tuple(case["parent"]), case["op"], case["args"], verbose=True)
    if bad is None:
        print("verdict: clause holds")
        return 0
    print(f"clause  : {bad[0]}\nobserved: {bad[1]}\nexpected: {bad[2]}\nverdict : VIOLATED")
    return 1


# ---- histories ------------------------------------------------------------------

def _reset(P):
    P._UF_Unv, P._UF_Strict, P._UF_Unv_key = P._UnionFind(), P._UnionFind(), dict()


def _connected(nprocs, edges):
    """components by naive fixpoint (deliberately not a union-find)"""
    comp = list(range(nprocs))
    changed = True
    while changed:
        changed = False
        for a, b in edges:
            lo = min(comp[a], comp[b])
            for x in (a, b):
                if comp[x] != lo:
                    old = comp[x]
                    comp = [lo if c == old else c for c in comp]
                    changed = True
    return comp


def _ref_state(nprocs, steps, keys):
    """reference closure per the property text: relation for key k = closure of
    the steps (p,q,S) with k not in S; universal = all steps; strict = S empty"""
    rel = {"*": _connected(nprocs, [(p, q) for p, q, S_ in steps]),
           "0": _connected(nprocs, [(p, q) for p, q, S_ in steps if not S_])}
    for k in keys:
        rel[k] = _connected(nprocs, [(p, q) for p, q, S_ in steps if k not in S_])
    return rel


def run_history(P, hist, keys, verbose=False, queries=True):
    """execute `hist` on a fresh module state; after every operation compare
    every query with the reference.  Returns None or (step index, what, observed, expected)."""
    say = print if verbose else (lambda *a: None)
    _reset(P)
    procs, steps = [], []
    subsets = [frozenset(c) for r in range(len(keys) + 1) for c in itertools.combinations(keys, r)]
    for si, op in enumerate(hist):
        say(f"step {si}: {op}")
        try:
            with _watchdog(5):
                if op[0] == "decl":
                    procs.append(mk_proc())
                    P.decl_new_proc(procs[-1])
                elif op[0] == "derive":
                    procs.append(mk_proc())
                    P.derive_proc(procs[op[1]], procs[-1], frozenset(op[2]))
                    steps.append((op[1], len(procs) - 1, frozenset(op[2])))
                elif op[0] == "assert":
                    P.assert_eqv_proc(procs[op[1]], procs[op[2]], frozenset(op[3]))
                    steps.append((op[1], op[2], frozenset(op[3])))
                else:
                    raise ValueError(op)
                if not queries and si < len(hist) - 1:
                    continue
                ref = _ref_state(len(procs), steps, keys)
                n = len(procs)
                for i in range(n):
                    for j in range(n):
                        for K in subsets:
                            exp = ref["*"][i] == ref["*"][j] and all(ref[k][i] == ref[k][j] for k in keys if k not in K)
                            got = P.check_eqv_proc(procs[i], procs[j], K)
                            if got is not exp:
                                return (si, f"check_eqv_proc(p{i}, p{j}, {sorted(K)})", got, exp)
                        eq = ref["*"][i] == ref["*"][j]
                        expk = {k for k in keys if ref[k][i] != ref[k][j]} if eq else set()
                        got = P.get_strictest_eqv_proc(procs[i], procs[j])
                        if not (isinstance(got, tuple) and got[0] is eq and set(got[1]) == expk):
                            return (si, f"get_strictest_eqv_proc(p{i}, p{j})", got, (eq, expk))
                    r = P.get_repr_proc(procs[i])
                    ri = _ix(procs, r)
                    if not isinstance(ri, int) or ref["0"][ri] != ref["0"][i]:
                        return (si, f"get_repr_proc(p{i})", f"p{ri}", f"a procedure strictly equivalent to p{i}")
        except _Timeout:
            return (si, str(op), "no result after 5 s", "a result")
        except Exception as e:
            return (si, str(op), f"{type(e).__name__}: {e}", "normal return")
    return None


def replay_history(case):
    from exo.core import proc_eqv as P
    print(f"module under test: {P.__file__}")
    keys = [tuple(k) for k in case["keys"]]
    hist = [_norm_op(op) for op in case["history"]]
    print("history (procedures are numbered in order of creation; config-sets are sets of keys):")
    bad = run_history(P, hist, keys, verbose=True)
    if bad is None:
        print("verdict: every query agrees with the closure of the recorded steps")
        return 0
    print(f"after step {bad[0]}: {bad[1]}\nobserved: {bad[2]}\nexpected: {bad[3]} "
          f"(equivalence closure of the recorded steps, per key)\nverdict : VIOLATED")
    return 1


def _norm_op(op):
    op = list(op)
    op[-1] = [tuple(k) for k in op[-1]] if op[0] != "decl" else op[-1]
    return tuple(op)


def _histories(maxlen, maxprocs, keys):
    subsets = [tuple(c) for r in range(len(keys) + 1) for c in itertools.combinations(keys, r)]
    def rec(prefix, nprocs):
        if prefix:
            yield prefix
        if len(prefix) >= maxlen:
            return
        opts = []
        if nprocs < maxprocs:
            opts.append((("decl",), nprocs + 1))
            for i in range(nprocs):
                for S_ in subsets:
                    opts.append((("derive", i, S_), nprocs + 1))
        for i in range(nprocs):
            for j in range(i, nprocs):
                for S_ in subsets:
                    opts.append((("assert", i, j, S_), nprocs))
        for op, n2 in opts:
            yield from rec(prefix + [op], n2)
    yield from rec([("decl",)], 1)


def _random_history(rng, length, maxprocs, keys):
    hist, n = [("decl",)], 1
    while len(hist) < length:
        S_ = tuple(k for k in keys if rng.random() < 0.35)
        r = rng.random()
        if n < maxprocs and r < 0.15:
            hist.append(("decl",)); n += 1
        elif n < maxprocs and r < 0.5:
            hist.append(("derive", rng.randrange(n), S_)); n += 1
        else:
            hist.append(("assert", rng.randrange(n), rng.randrange(n), S_))
    return hist


def run_bounded(tier="quick", seed=0):
    """Exhaustive small-scope runs of the REAL module under CPython.  Everything
    here is reported under `bounded`; nothing is counted as proved."""
    import random
    from pyvc.run import ensure_repo_on_path
    ensure_repo_on_path()
    P = PE
    t0 = time.time()
    out = dict(obligations=0, discharged=0, functions=[], assumptions=[], samples=[], violations=[],
               undecided=[], bounded=[], clauses={}, solver_time_s=0.0)
    seen = set()

    def violation(kind, name, case, bad):
        key = (kind, name, bad[0] if kind == "forest" else "")
        if key in seen or len(out["violations"]) >= 6:
            return
        seen.add(key)
        tmpl = _FOREST_REPLAY if kind == "forest" else _HISTORY_REPLAY
        out["violations"].append(dict(
            obligation=f"bounded {name}", confirmed=True,
            replay_script=tmpl.format(verif=VERIF_DIR, case=case),
            detail=f"{bad}"))

    # ---- all forests
    N = 6 if tier == "thorough" else 5
    cases = 0
    per_op = {}
    for n in range(1, N + 1):
        for par in forests(n):
            ops = [("find", (i,)) for i in range(n)]
            ops += [("check_eqv", (i, j)) for i in range(n) for j in range(n)]
            ops += [("union", (i, j)) for i in range(n) for j in range(n)]
            ops += [("new_node", (i,)) for i in range(n + 1)]
            ops += [("copy", ())]
            for op, args in ops:
                cases += 1
                per_op[op] = per_op.get(op, 0) + 1
                bad = check_forest_op(P, par, op, args)
                if bad is not None:
                    violation("forest", f"_UnionFind.{'copy_entire_UF' if op == 'copy' else op}: {bad[0]}",
                              dict(parent=list(par), op=op, args=list(args)), bad)
    out["bounded"].append(dict(
        target=f"{F}::_UnionFind.{{find,union,check_eqv,new_node,copy_entire_UF}} (native, real WeakKeyDictionary, "
               f"structurally equal LoopIR.proc nodes)",
        bound=f"every parent-pointer forest over <= {N} nodes, every argument (pair)", cases=cases))

    # ---- all short histories + seeded random longer ones
    keys2 = KEYPOOL[:2]
    L, Pn = (4, 3) if tier == "thorough" else (3, 3)
    hc = 0
    for h in _histories(L + 1, Pn, keys2):
        hc += 1
        bad = run_history(P, h, keys2, queries=False)
        if bad is not None:
            violation("history", f"history: {bad[1].split('(')[0]}",
                      dict(history=[list(op) for op in h], keys=keys2), bad)
    out["bounded"].append(dict(
        target=f"{F}::decl_new_proc/derive_proc/assert_eqv_proc/new_uf_by_eqv_key + check_eqv_proc/"
               f"get_strictest_eqv_proc/get_repr_proc against the reference closure of the history",
        bound=f"every history of <= {L} operations after the first declaration, <= {Pn} procedures, 2 keys "
              f"(all config-sets, all query pairs and modulo-sets after the last operation of every history)",
        cases=hc))
    rng = random.Random(seed)
    nr = 2000 if tier == "thorough" else 250
    for _ in range(nr):
        h = _random_history(rng, rng.randrange(4, 14), 6, KEYPOOL)
        bad = run_history(P, h, KEYPOOL)
        if bad is not None:
            violation("history", f"history: {bad[1].split('(')[0]}",
                      dict(history=[list(op) for op in h], keys=KEYPOOL), bad)
    out["bounded"].append(dict(
        target="same, random histories (seeded by VERIF_SEED), queries after every operation",
        bound="<= 13 operations, <= 6 procedures, 3 keys", cases=nr))
    _reset(P)
    out["samples"] = [f"bounded: {cases} forest cases, {hc} exhaustive + {nr} random histories in {time.time() - t0:.1f}s"]
    return out
