"""C16 - find and cursor navigation are exact.

Part 1 (this module): navigation laws of src/exo/core/internal_cursors.py
(Node / Block / Gap) and of the thin wrappers in src/exo/API_cursors.py, for
all positions: the cursor index, the distance of next/prev, block bounds,
slice bounds and expand deltas are symbolic integers (unbounded where the
code takes an arbitrary int, e.g. `next(dist)`, `b[i]`, `expand`).

The procedures are the real little LoopIR procedures of contracts.cursor_ghost
(distinct statement objects; block lengths 0..4 and nesting depth <= 2 are
enumerated as shapes - a bound on the shape, stated in ASSUMPTIONS).

Part 2: contracts/c16_find.py (traversal order/completeness of `_children`
against the ASDL, `#n` selection, agreement of the two `#n` regular
expressions).
"""
from __future__ import annotations
import types
from pyvc.contract import contract
from pyvc import sym as S
from pyvc.sym import And, Or, Not, Implies, Ite
from pyvc.srange import SRange
from contracts.cursor_ghost import (
    SRC, leaf, mk_for, mk_if, mk_proc, tag, tag_name, stmt_lists, all_stmts, all_blocks, get_path,
    is_symbolic, mk_range, g_index, g_subrange, g_above, in_rng, resolve_g, path_eq, range_eq, cursor_eq, Runner,
    show_cursor, show_path, stable, Outcome, SList, SymRoot, Elem)
from contracts.c06_forwarding import Tree, show_tree, Dummy
from exo.core.LoopIR import LoopIR, T
from exo.core.prelude import Sym, SrcInfo
from exo.core import internal_cursors as IC
from exo.core.internal_cursors import InvalidCursorError, GapType
from exo import API as _API
from exo import API_cursors as PC

F = "src/exo/core/internal_cursors.py"
F_PC = "src/exo/API_cursors.py"
RLIMIT = 5_000_000

ASSUMPTIONS = [
    "C16 navigation: the laws of next/prev/_child_node/parent/as_block/before/after/get_index/Block indexing, "
    "slicing, len, expand, before/after are proved for a block of ANY length (symbolic-length statement list at "
    "depth 1, contracts.cursor_ghost.SList) and, for object identity and nesting, on generated procedures with block "
    "length 0..4 and depth <= 2 (NAV_SHAPES); is_ancestor_of, __contains__, __iter__ and the API_cursors wrappers "
    "(which dispatch on real LoopIR node classes) only on the latter.  Indices, distances, slice bounds and expand "
    "deltas are arbitrary integers.",
    "C16: `Block.__getitem__` follows Python's sequence protocol (IndexError, negative indices from the end); "
    "the 'invalid cursor at the edges' clause of the property is attached to next/prev/parent/_child_node.",
]

NAV_SHAPES = [("ifbody", n, None) for n in range(5)] + [("ifbody", 3, 1), ("root", 2, None),
                                                         ("iforelse", 2, None), ("iforelse", 3, None), ("iforelse", 1, None), ("deep", 3, 0)]


class SymTree:
    """a procedure whose body has SYMBOLIC length n (any n >= min_n): the laws
    that only look at one list are proved for every block length.  In concrete
    mode (replay, cross-check) it is a real procedure with n statements."""
    level, q, ppath, attr = "root", None, [], "body"

    def __init__(self, g, min_n):
        n = g.nat("n")
        if g.concrete:
            n = max(n, min_n)
            self.root = mk_proc([leaf(f"e{i}") for i in range(n)])
            self.OL = self.root.body
        else:
            g.assume(n >= min_n)
            self.root = SymRoot(n)
            self.OL = self.root.body
        self.n = n
        self.parent = self.root

    def __str__(self):
        return f"SymTree(n={self.n})"


def g_nav_tree(g, min_n=0, symbolic=True):
    shapes = [s for s in NAV_SHAPES if s[1] >= min_n] + (["symbolic length"] if symbolic else [])
    sh = g.choose(shapes, "shape")
    if sh == "symbolic length":
        return SymTree(g, min_n)
    return Tree(*sh)


def node_at(t, i):
    return IC.Node(t.root, t.ppath + [(t.attr, i)])


def parent_node(t):
    return IC.Node(t.root, list(t.ppath))


def block_of(g, t, lo, hi):
    return IC.Block(t.root, parent_node(t), t.attr, mk_range(g, lo, hi))


def denotes(cur, root, stmts_by_index, idx):
    """Node cursor `cur` resolves to stmts[idx] (identity), idx symbolic"""
    if isinstance(stmts_by_index, SList):
        # symbolic-length body: the cursor is [("body", j)] with j == idx in range
        return And(len(cur._path) == 1, cur._path[0][0] == "body", cur._path[0][1] == idx,
                   0 <= idx, idx < stmts_by_index.n)
    ok, cands = resolve_g(root, cur._path)
    conds = [ok]
    for k, s in enumerate(stmts_by_index):
        for gd, n in cands:
            conds.append(Implies(And(idx == k, gd), n is s))
    return And(conds)


def _cache_is(v, OL, idx):
    """the cursor's cached node is OL[idx]"""
    cached = v.__dict__.get("_node")
    if isinstance(OL, SList):
        return isinstance(cached, Elem) and cached.lst is OL and cached.idx == idx
    return And([Implies(idx == k, cached is s) for k, s in enumerate(OL)])


def law(qualname, label, gen, drive, spec, raises=(), file=F, name=None):
    """a navigation law: `drive(R, fn, a)` runs a short sequence of real
    cursor operations (through the interpreter when proving, natively when
    replaying) and returns (value, exception); `spec(a, value)` is the law;
    `raises` = [(exception class, condition(a), label)]."""
    c = contract("C16", file, qualname, name=name or f"{file}::{qualname} [{label}]")
    c.rlimit = RLIMIT
    c.inputs(gen)

    def run(R, fn, a):
        return Outcome(*drive(R, fn, a))
    c.entry = lambda g, it, fn, a: run(Runner(it), fn, a)
    c.native_entry = lambda g, fn, a: run(Runner(None), fn, a)

    @c.ensures(label)
    def _(a):
        val, exc = a.result
        if exc is not None:
            return True
        return spec(a, val)

    for cls, cond, lab in raises:
        def clause(a, cls=cls, cond=cond):
            val, exc = a.result
            if exc is None:
                return Not(cond(a))          # must raise when the condition holds
            if isinstance(exc, cls):
                return cond(a)               # and only then
            return True
        c.ensures(lab)(clause)

    @c.ensures(f"{label}: no exception other than the documented ones")
    def _(a):
        val, exc = a.result
        return exc is None or any(isinstance(exc, cls) for cls, _, _ in raises)
    return c


# ---------------------------------------------------------------------------
# Node.next / prev

def g_next(g):
    t = g_nav_tree(g, min_n=1)
    i = g_index(g, "i", t.n)
    return {"t": t, "i": i, "k": g.int("k"), "cur": node_at(t, i)}


def _in_list(a, j):
    return And(0 <= j, j < a.t.n)


law("Node.next", "next(k) is the k-th following sibling (identity), InvalidCursorError exactly when i+k is outside the block",
    g_next, lambda R, fn, a: R.call(fn, a.cur, a.k),
    lambda a, v: And(isinstance(v, IC.Node), v._root is a.t.root,
                     path_eq(v._path, a.t.ppath + [(a.t.attr, a.i + a.k)]),
                     denotes(v, a.t.root, a.t.OL, a.i + a.k)),
    raises=[(InvalidCursorError, lambda a: Not(_in_list(a, a.i + a.k)), "next: InvalidCursorError exactly at the edges")])

law("Node.prev", "prev(k) is the k-th preceding sibling (identity), InvalidCursorError exactly when i-k is outside the block",
    g_next, lambda R, fn, a: R.call(fn, a.cur, a.k),
    lambda a, v: And(isinstance(v, IC.Node), v._root is a.t.root,
                     path_eq(v._path, a.t.ppath + [(a.t.attr, a.i - a.k)]),
                     denotes(v, a.t.root, a.t.OL, a.i - a.k)),
    raises=[(InvalidCursorError, lambda a: Not(_in_list(a, a.i - a.k)), "prev: InvalidCursorError exactly at the edges")])


def _drive_roundtrip(R, fn, a):
    n1, e = R.call(IC.Node.next, a.cur, a.k)
    if e is not None:
        return None, e
    return R.call(IC.Node.prev, n1, a.k)


law("Node.next", "c.next(k).prev(k) == c whenever next is defined",
    g_next, _drive_roundtrip, lambda a, v: cursor_eq(v, a.cur),
    raises=[(InvalidCursorError, lambda a: Not(_in_list(a, a.i + a.k)), "round trip undefined exactly when next is")],
    name=f"{F}::Node.next [round trip]")


def g_special_node(g):
    """cursors that are not inside a block: the root and a non-list child"""
    t = g_nav_tree(g, min_n=1, symbolic=False)
    which = g.choose(["root", "expr_child"], "which")
    if which == "root":
        cur = IC.Node(t.root, [])
    else:
        cur = IC.Node(t.root, t.ppath + [(t.attr, g_index(g, "i", t.n)), ("rhs", None)])
        g.assume(True if t.q is None else Not(cur._path[-2][1] == t.q))
    return {"t": t, "cur": cur, "k": g.int("k"), "which": which}


law("Node.next", "a root cursor or a cursor to a non-list child has no siblings",
    g_special_node, lambda R, fn, a: R.call(fn, a.cur, a.k), lambda a, v: False,
    raises=[(InvalidCursorError, lambda a: True, "next on a cursor outside a block raises InvalidCursorError")],
    name=f"{F}::Node.next [outside a block]")


# ---------------------------------------------------------------------------
# parent / _child_node / _child_block

def g_child(g):
    t = g_nav_tree(g)
    return {"t": t, "i": g.int("i"), "cur": parent_node(t)}


law("Node._child_node", "_child_node(attr, i) is the i-th statement of the block (identity) with its cache set, "
    "InvalidCursorError exactly outside [0, n)",
    g_child, lambda R, fn, a: R.call(fn, a.cur, a.t.attr, a.i),
    lambda a, v: And(isinstance(v, IC.Node), v._root is a.t.root, path_eq(v._path, a.t.ppath + [(a.t.attr, a.i)]),
                     denotes(v, a.t.root, a.t.OL, a.i),
                     _cache_is(v, a.t.OL, a.i)),
    raises=[(InvalidCursorError, lambda a: Not(_in_list(a, a.i)), "_child_node: InvalidCursorError exactly outside the block")])


def _drive_parent_child(R, fn, a):
    p, e = R.call(IC.Node.parent, a.cur)
    if e is not None:
        return None, e
    return R.call(IC.Node._child_node, p, a.t.attr, a.i)


law("Node.parent", "c.parent()._child_node(attr, i) == c",
    lambda g: (lambda t: {"t": t, "i": (i := g_index(g, "i", t.n)), "cur": node_at(t, i)})(g_nav_tree(g, min_n=1)),
    _drive_parent_child, lambda a, v: cursor_eq(v, a.cur))

law("Node.parent", "parent() drops the last edge; the root has no parent",
    lambda g: (lambda t, w: {"t": t, "which": w,
                             "cur": IC.Node(t.root, []) if w == "root" else node_at(t, g_index(g, "i", t.n))})(
        g_nav_tree(g, min_n=1), g.choose(["root", "stmt"], "which")),
    lambda R, fn, a: R.call(fn, a.cur),
    lambda a, v: And(isinstance(v, IC.Node), v._root is a.t.root, path_eq(v._path, a.cur._path[:-1])),
    raises=[(InvalidCursorError, lambda a: a.which == "root", "parent: InvalidCursorError exactly for the root")],
    name=f"{F}::Node.parent [definition]")

law("Node._child_block", "_child_block(attr) is the whole block [0, n) anchored at the node",
    lambda g: (lambda t: {"t": t, "cur": parent_node(t)})(g_nav_tree(g)),
    lambda R, fn, a: R.call(fn, a.cur, a.t.attr),
    lambda a, v: And(isinstance(v, IC.Block), v._root is a.t.root, cursor_eq(v._anchor, a.cur), v._attr == a.t.attr,
                     v._range.start == 0, v._range.stop == a.t.n))


# ---------------------------------------------------------------------------
# as_block / before / after / anchor / get_index / is_ancestor_of

def g_stmt(g):
    t = g_nav_tree(g, min_n=1)
    i = g_index(g, "i", t.n)
    return {"t": t, "i": i, "cur": node_at(t, i)}


def _drive_as_block_0(R, fn, a):
    b, e = R.call(fn, a.cur)
    if e is not None:
        return None, e
    x, e = R.call(IC.Block.__getitem__, b, 0)
    return (b, x), e


law("Node.as_block", "as_block() is [i, i+1) in the parent, and c.as_block()[0] == c",
    g_stmt, _drive_as_block_0,
    lambda a, v: And(isinstance(v[0], IC.Block), cursor_eq(v[0]._anchor, parent_node(a.t)), v[0]._attr == a.t.attr,
                     v[0]._range.start == a.i, v[0]._range.stop == a.i + 1, cursor_eq(v[1], a.cur)))


def _drive_gap_anchor(side):
    def drive(R, fn, a):
        gp, e = R.call(fn, a.cur)
        if e is not None:
            return None, e
        an, e = R.call(IC.Gap.anchor, gp)
        if e is not None:
            return None, e
        par, e = R.call(IC.Gap.parent, gp)
        return (gp, an, par), e
    return drive


for _side, _ty in (("before", GapType.Before), ("after", GapType.After)):
    law(f"Node.{_side}", f"c.{_side}() is the {_ty.name} gap anchored at c: c.{_side}().anchor() == c, same parent",
        g_stmt, _drive_gap_anchor(_side),
        lambda a, v, _ty=_ty: And(isinstance(v[0], IC.Gap), v[0]._type is _ty, v[0]._root is a.t.root,
                                  cursor_eq(v[1], a.cur), cursor_eq(v[2], parent_node(a.t))))

law("Node.get_index", "get_index() is the position in the block",
    g_stmt, lambda R, fn, a: R.call(fn, a.cur), lambda a, v: v == a.i)


def g_ancestor(g):
    t = g_nav_tree(g, min_n=1, symbolic=False)
    i, j = g_index(g, "i", t.n), g_index(g, "j", t.n)
    kind = g.choose(["self", "sibling", "parent_of", "child_of", "block", "gap"], "relation")
    me = node_at(t, i)
    other = {"self": node_at(t, i), "sibling": node_at(t, j), "parent_of": parent_node(t),
             "child_of": IC.Node(t.root, t.ppath + [(t.attr, j), ("body", g.nat("d"))]),
             "block": IC.Block(t.root, node_at(t, j), "body", range(0, 1)),
             "gap": IC.Gap(t.root, IC.Node(t.root, t.ppath + [(t.attr, j), ("body", g.nat("d"))]), GapType.Before)}[kind]
    if kind == "parent_of":
        me, other = parent_node(t), node_at(t, j)
    return {"t": t, "i": i, "j": j, "kind": kind, "cur": me, "other": other}


def _anc_expected(a):
    if a.kind == "self":
        return True
    if a.kind == "sibling":
        return a.i == a.j
    if a.kind == "parent_of":
        return True
    return a.i == a.j          # child_of / block / gap anchored below statement j


law("Node.is_ancestor_of", "is_ancestor_of(x) iff the node's path is a prefix of x's (anchor) path",
    g_ancestor, lambda R, fn, a: R.call(fn, a.cur, a.other),
    lambda a, v: And(Implies(v, _anc_expected(a)), Implies(_anc_expected(a), v)))


# ---------------------------------------------------------------------------
# Block: indexing, slicing, len, contains, expand, parent, before/after

def g_block(g, nonempty=True, symbolic=True):
    t = g_nav_tree(g, min_n=1 if nonempty else 0, symbolic=symbolic)
    lo, hi = g_subrange(g, "b", t.n, nonempty=nonempty)
    return t, lo, hi, block_of(g, t, lo, hi)


def g_block_idx(g):
    t, lo, hi, b = g_block(g)
    return {"t": t, "lo": lo, "hi": hi, "b": b, "i": g.int("i")}


def _norm_idx(a):
    ln = a.hi - a.lo
    return Ite(a.i < 0, a.i + ln, a.i)


def _drive_getitem_parent(R, fn, a):
    x, e = R.call(fn, a.b, a.i)
    if e is not None:
        return None, e
    p, e = R.call(IC.Node.parent, x)
    if e is not None:
        return None, e
    bp, e = R.call(IC.Block.parent, a.b)
    return (x, p, bp), e


law("Block.__getitem__", "b[i] is the statement at lo+i (from the end for negative i), b[i].parent() == b.parent(); "
    "IndexError exactly outside [-len, len)",
    g_block_idx, _drive_getitem_parent,
    lambda a, v: And(isinstance(v[0], IC.Node), v[0]._root is a.t.root,
                     path_eq(v[0]._path, a.t.ppath + [(a.t.attr, a.lo + _norm_idx(a))]),
                     denotes(v[0], a.t.root, a.t.OL, a.lo + _norm_idx(a)),
                     cursor_eq(v[1], v[2]), cursor_eq(v[2], parent_node(a.t))),
    raises=[(IndexError, lambda a: Not(And(-(a.hi - a.lo) <= a.i, a.i < a.hi - a.lo)),
             "b[i]: IndexError exactly outside the block")])


def g_block_slice(g):
    t, lo, hi, b = g_block(g)
    if g.concrete:
        x, y = g.int("x") % (hi - lo + 1), g.int("y") % (hi - lo + 1)
        x, y = min(x, y), max(x, y)
        if x == y:
            x, y = (x, y + 1) if y < hi - lo else (x - 1, y)
        i = g.int("i") % (y - x)
    else:
        x, y = g.int("x"), g.int("y")
        g.assume(And(0 <= x, x < y, y <= hi - lo))
        i = g.int("i")
        g.assume(And(0 <= i, i < y - x))
    return {"t": t, "lo": lo, "hi": hi, "b": b, "x": x, "y": y, "i": i}


def _drive_slice(R, fn, a):
    s, e = R.call(fn, a.b, slice(a.x, a.y))
    if e is not None:
        return None, e
    si, e = R.call(IC.Block.__getitem__, s, a.i)
    if e is not None:
        return None, e
    bi, e = R.call(IC.Block.__getitem__, a.b, a.x + a.i)
    if e is not None:
        return None, e
    ln, e = R.call(IC.Block.__len__, s)
    return (s, si, bi, ln), e


law("Block.__getitem__", "b[x:y] is the block [lo+x, lo+y) of the same list, len y-x, and b[x:y][i] == b[x+i]",
    g_block_slice, _drive_slice,
    lambda a, v: And(isinstance(v[0], IC.Block), v[0]._root is a.t.root, cursor_eq(v[0]._anchor, a.b._anchor),
                     v[0]._attr == a.b._attr, v[0]._range.start == a.lo + a.x, v[0]._range.stop == a.lo + a.y,
                     cursor_eq(v[1], v[2]), v[3] == a.y - a.x),
    name=f"{F}::Block.__getitem__ [slice]")


def g_block_anyslice(g):
    t, lo, hi, b = g_block(g)
    x = g.choose([None, "int"], "x")
    y = g.choose([None, "int"], "y")
    x = g.int("x") if x else None
    y = g.int("y") if y else None
    return {"t": t, "lo": lo, "hi": hi, "b": b, "x": x, "y": y, "__ghost__": {"k": g.int("k")}}


def _clip(v, n, default):
    if v is None:
        return default
    return Ite(v < 0, S.Max(v + n, 0), S.Min(v, n))


law("Block.__getitem__", "b[x:y] with arbitrary bounds selects exactly the statements Python's slice of the block selects",
    g_block_anyslice, lambda R, fn, a: R.call(fn, a.b, slice(a.x, a.y)),
    lambda a, v: (lambda n, k: And(
        isinstance(v, IC.Block), cursor_eq(v._anchor, a.b._anchor), v._attr == a.b._attr,
        # membership of an arbitrary index k of the list
        Implies(in_rng(v._range, k), And(a.lo + _clip(a.x, n, 0) <= k, k < a.lo + _clip(a.y, n, n))),
        Implies(And(a.lo + _clip(a.x, n, 0) <= k, k < a.lo + _clip(a.y, n, n)), in_rng(v._range, k))))(
        a.hi - a.lo, a.ghost.k),
    name=f"{F}::Block.__getitem__ [slice, any bounds]")

law("Block.__len__", "len(b) is the number of statements of the block",
    lambda g: (lambda r: {"t": r[0], "lo": r[1], "hi": r[2], "b": r[3]})(g_block(g, nonempty=False)),
    lambda R, fn, a: R.call(fn, a.b), lambda a, v: v == a.hi - a.lo)

law("Block.parent", "b.parent() is the node that owns the block",
    lambda g: (lambda r: {"t": r[0], "lo": r[1], "hi": r[2], "b": r[3]})(g_block(g, nonempty=False)),
    lambda R, fn, a: R.call(fn, a.b), lambda a, v: cursor_eq(v, parent_node(a.t)))


def _drive_block_gaps(R, fn, a):
    gb, e = R.call(IC.Block.before, a.b)
    if e is not None:
        return None, e
    ga, e = R.call(IC.Block.after, a.b)
    return (gb, ga), e


law("Block.before", "b.before() / b.after() are the gaps before the first / after the last statement of b",
    lambda g: (lambda r: {"t": r[0], "lo": r[1], "hi": r[2], "b": r[3]})(g_block(g)),
    _drive_block_gaps,
    lambda a, v: And(isinstance(v[0], IC.Gap), v[0]._type is GapType.Before, cursor_eq(v[0]._anchor, node_at(a.t, a.lo)),
                     isinstance(v[1], IC.Gap), v[1]._type is GapType.After, cursor_eq(v[1]._anchor, node_at(a.t, a.hi - 1))))


def g_contains(g):
    t, lo, hi, b = g_block(g, symbolic=False)
    kind = g.choose(["node", "node_other_attr", "node_elsewhere", "block", "block_other_attr", "gap"], "x")
    j = g.int("j")
    other_attr = "orelse" if t.attr == "body" else "body"
    if kind == "node":
        x = node_at(t, j)
    elif kind == "node_other_attr":
        x = IC.Node(t.root, t.ppath + [(other_attr, j)])
    elif kind == "node_elsewhere":
        x = IC.Node(t.root, [("body", j)] + ([("body", 0)] if t.level == "root" else []))
    elif kind in ("block", "block_other_attr"):
        j2 = g_above(g, "j2", j, strict=False)
        x = IC.Block(t.root, parent_node(t), t.attr if kind == "block" else other_attr, mk_range(g, j, j2))
    else:
        x = IC.Gap(t.root, node_at(t, j), g.choose([GapType.Before, GapType.After], "side"))
    return {"t": t, "lo": lo, "hi": hi, "b": b, "x": x, "kind": kind, "j": j, "__ghost__": {"k": g.int("k")}}


def _contains_spec(a, v):
    inb = And(a.lo <= a.j, a.j < a.hi)
    if a.kind in ("node", "gap"):
        exp = inb
    elif a.kind in ("node_other_attr", "block_other_attr"):
        exp = False
    elif a.kind == "node_elsewhere":
        # the same node only if the paths coincide
        exp = And(path_eq(a.x._path, a.t.ppath + [(a.t.attr, a.j)]), inb) if len(a.x._path) == len(a.t.ppath) + 1 \
            and a.x._path[-1][0] == a.t.attr else False
    else:
        r = a.x._range
        # x in b  <=>  every index of x is an index of b (x non-empty); an empty
        # block is contained iff it is "inside" positionally
        k = a.ghost.k
        sub = Implies(in_rng(r, k), And(a.lo <= k, k < a.hi))
        return And(Implies(And(v, r.start < r.stop), sub),
                   Implies(And(r.start < r.stop, a.lo <= r.start, r.stop <= a.hi), v))
    return And(Implies(v, exp), Implies(exp, v))


law("Block.__contains__", "x in b iff x lies in the same list (same anchor, same attribute) with its index / range inside b",
    g_contains, lambda R, fn, a: R.call(fn, a.b, a.x), _contains_spec)


def g_expand(g):
    t, lo, hi, b = g_block(g)
    dl = g.choose([None, "int"], "dlo")
    dh = g.choose([None, "int"], "dhi")
    dl = g.nat("dlo") if dl else None
    dh = g.nat("dhi") if dh else None
    return {"t": t, "lo": lo, "hi": hi, "b": b, "dlo": dl, "dhi": dh}


law("Block.expand", "expand(dlo, dhi) is [max(0, lo-dlo), min(n, hi+dhi)) of the same list; None expands to the edge; "
    "expand(0, 0) == b",
    g_expand, lambda R, fn, a: R.call(fn, a.b, a.dlo, a.dhi),
    lambda a, v: And(isinstance(v, IC.Block), v._root is a.t.root, cursor_eq(v._anchor, a.b._anchor), v._attr == a.b._attr,
                     v._range.start == (0 if a.dlo is None else S.Max(0, a.lo - a.dlo)),
                     v._range.stop == (a.t.n if a.dhi is None else S.Min(a.t.n, a.hi + a.dhi)),
                     0 <= v._range.start, v._range.stop <= a.t.n,
                     Implies(And(a.dlo == 0 if a.dlo is not None else False,
                                 a.dhi == 0 if a.dhi is not None else False), cursor_eq(v, a.b))))


def _drive_iter(R, fn, a):
    it_, e = R.call(fn, a.b)
    if e is not None:
        return None, e
    try:
        return list(it_), None
    except (S.Unsupported, S.PathInfeasible, S.PathEnd):
        raise
    except Exception as ex:
        return None, ex


law("Block.__iter__", "iterating b yields b[0], ..., b[len-1] in order",
    lambda g: (lambda r: {"t": r[0], "lo": r[1], "hi": r[2], "b": r[3]})(g_block(g, nonempty=False, symbolic=False)),
    _drive_iter,
    lambda a, v: And([Implies(a.hi - a.lo == n,
                              len(v) == n and And([cursor_eq(x, node_at(a.t, a.lo + j)) for j, x in enumerate(v)])
                              if len(v) == n else False)
                      for n in range(a.t.n + 1)]))


# ---------------------------------------------------------------------------
# Gap

law("Gap.parent", "a gap's parent is its anchor's parent; anchor() is the statement it was made from",
    lambda g: (lambda t: (lambda i: {"t": t, "i": i, "gap": IC.Gap(t.root, node_at(t, i),
                                                                   g.choose([GapType.Before, GapType.After], "side"))})(
        g_index(g, "i", t.n)))(g_nav_tree(g, min_n=1)),
    lambda R, fn, a: (lambda p, an: ((p[0], an[0]), p[1] or an[1]))(R.call(fn, a.gap), R.call(IC.Gap.anchor, a.gap)),
    lambda a, v: And(cursor_eq(v[0], parent_node(a.t)), cursor_eq(v[1], node_at(a.t, a.i))))


# ---------------------------------------------------------------------------
# API_cursors wrappers: InvalidCursorError -> InvalidCursor, same location otherwise

def g_api_stmt(g):
    t = g_nav_tree(g, min_n=1, symbolic=False)
    i = g_index(g, "i", t.n)
    proc = _API.Procedure(t.root)
    cur = PC.StmtCursor(node_at(t, i), proc)
    return {"t": t, "i": i, "k": g.int("k"), "proc": proc, "cur": cur}


def _api_nav_spec(sign):
    def spec(a, v):
        j = a.i + sign * a.k
        inside = And(0 <= j, j < a.t.n)
        if isinstance(v, PC.InvalidCursor):
            return Not(inside)
        return And(inside, isinstance(v, PC.StmtCursor), v._proc is a.proc, v._impl._root is a.t.root,
                   path_eq(v._impl._path, a.t.ppath + [(a.t.attr, j)]))
    return spec


law("StmtCursor.next", "API next(k): the k-th following statement of the same procedure, InvalidCursor() exactly at the edges",
    g_api_stmt, lambda R, fn, a: R.call(fn, a.cur, a.k), _api_nav_spec(+1), file=F_PC)
law("StmtCursor.prev", "API prev(k): the k-th preceding statement of the same procedure, InvalidCursor() exactly at the edges",
    g_api_stmt, lambda R, fn, a: R.call(fn, a.cur, a.k), _api_nav_spec(-1), file=F_PC)


def _drive_api_gap(name):
    def drive(R, fn, a):
        gp, e = R.call(fn, a.cur)
        if e is not None:
            return None, e
        an, e = R.call(PC.GapCursor.anchor, gp)
        return (gp, an), e
    return drive


for _side, _ty in (("before", GapType.Before), ("after", GapType.After)):
    law(f"StmtCursor.{_side}", f"API c.{_side}().anchor() == c",
        g_api_stmt, _drive_api_gap(_side),
        lambda a, v, _ty=_ty: And(isinstance(v[0], PC.GapCursor), v[0]._proc is a.proc, v[0]._impl._type is _ty,
                                  isinstance(v[1], PC.StmtCursor), v[1]._proc is a.proc,
                                  cursor_eq(v[1]._impl, a.cur._impl)),
        file=F_PC)


def _drive_api_as_block(R, fn, a):
    b, e = R.call(fn, a.cur)
    if e is not None:
        return None, e
    x, e = R.call(PC.ListCursorPrototype.__getitem__, b, 0)
    if e is not None:
        return None, e
    ln, e = R.call(PC.ListCursorPrototype.__len__, b)
    return (b, x, ln), e


law("StmtCursor.as_block", "API c.as_block() is a one-statement BlockCursor with c.as_block()[0] == c",
    g_api_stmt, _drive_api_as_block,
    lambda a, v: And(isinstance(v[0], PC.BlockCursor), v[0]._proc is a.proc, v[2] == 1,
                     v[1]._proc is a.proc, cursor_eq(v[1]._impl, a.cur._impl)),
    file=F_PC)


def g_api_block(g):
    t, lo, hi, b = g_block(g, symbolic=False)
    proc = _API.Procedure(t.root)
    dl = g.choose([None, "int"], "dlo")
    dh = g.choose([None, "int"], "dhi")
    return {"t": t, "lo": lo, "hi": hi, "proc": proc, "cur": PC.BlockCursor(b, proc),
            "dlo": g.int("dlo") if dl else None, "dhi": g.int("dhi") if dh else None}


def _neg(a):
    return Or(a.dlo < 0 if a.dlo is not None else False, a.dhi < 0 if a.dhi is not None else False)


law("BlockCursor.expand", "API expand: clipped expansion of the same block, ValueError exactly for a negative delta",
    g_api_block, lambda R, fn, a: R.call(fn, a.cur, a.dlo, a.dhi),
    lambda a, v: And(isinstance(v, PC.BlockCursor), v._proc is a.proc, cursor_eq(v._impl._anchor, a.cur._impl._anchor),
                     v._impl._attr == a.t.attr,
                     v._impl._range.start == (0 if a.dlo is None else S.Max(0, a.lo - a.dlo)),
                     v._impl._range.stop == (a.t.n if a.dhi is None else S.Min(a.t.n, a.hi + a.dhi))),
    raises=[(ValueError, _neg, "API expand: ValueError exactly for a negative delta")], file=F_PC)


def _drive_api_block_nav(R, fn, a):
    gb, e = R.call(PC.BlockCursor.before, a.cur)
    if e is not None:
        return None, e
    ga, e = R.call(PC.BlockCursor.after, a.cur)
    return (gb, ga), e


law("BlockCursor.before", "API block before()/after(): gaps at the first / last statement of the block",
    g_api_block, _drive_api_block_nav,
    lambda a, v: And(isinstance(v[0], PC.GapCursor), v[0]._proc is a.proc, v[0]._impl._type is GapType.Before,
                     cursor_eq(v[0]._impl._anchor, node_at(a.t, a.lo)),
                     isinstance(v[1], PC.GapCursor), v[1]._proc is a.proc, v[1]._impl._type is GapType.After,
                     cursor_eq(v[1]._impl._anchor, node_at(a.t, a.hi - 1))),
    file=F_PC)

# the statement that owns the block; a top-level block of the procedure is at
# the edge of the tree: like Cursor.parent(), the answer there is InvalidCursor()
law("BlockCursor.anchor", "API block anchor(): the statement owning the block, InvalidCursor() for a top-level block",
    g_api_block, lambda R, fn, a: R.call(fn, a.cur),
    lambda a, v: isinstance(v, PC.InvalidCursor) if a.t.level == "root" else
    And(isinstance(v, PC.StmtCursor), v._proc is a.proc, cursor_eq(v._impl, parent_node(a.t))),
    file=F_PC)


def g_api_parent(g):
    t = g_nav_tree(g, min_n=1, symbolic=False)
    proc = _API.Procedure(t.root)
    i = g_index(g, "i", t.n)
    return {"t": t, "i": i, "proc": proc, "cur": PC.StmtCursor(node_at(t, i), proc)}


law("Cursor.parent", "API parent(): the owning statement, InvalidCursor() for a top-level statement",
    g_api_parent, lambda R, fn, a: R.call(fn, a.cur),
    lambda a, v: isinstance(v, PC.InvalidCursor) if a.t.level == "root" else
    And(isinstance(v, PC.StmtCursor), v._proc is a.proc, cursor_eq(v._impl, parent_node(a.t))),
    file=F_PC)


def g_api_stmt_expand(g):
    d = g_api_stmt(g)
    dl = g.choose([None, "int"], "dlo")
    dh = g.choose([None, "int"], "dhi")
    d["dlo"] = g.nat("dlo") if dl else None
    d["dhi"] = g.nat("dhi") if dh else None
    return d


law("StmtCursor.expand", "API statement expand(dlo, dhi) is the clipped block around the statement",
    g_api_stmt_expand, lambda R, fn, a: R.call(fn, a.cur, a.dlo, a.dhi),
    lambda a, v: And(isinstance(v, PC.BlockCursor), v._proc is a.proc, cursor_eq(v._impl._anchor, parent_node(a.t)),
                     v._impl._attr == a.t.attr,
                     v._impl._range.start == (0 if a.dlo is None else S.Max(0, a.i - a.dlo)),
                     v._impl._range.stop == (a.t.n if a.dhi is None else S.Min(a.t.n, a.i + 1 + a.dhi))),
    file=F_PC)
