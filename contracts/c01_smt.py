"""C01 (c) - ternary (Kleene) logic and div/mod lowering of the analysis' SMT back end.

Target: `SMTSolver._lower_body`, `SMTSolver._lower`, `SMTSolver.verify / assume /
satisfy` in src/exo/rewrite/new_analysis_core.py (sub-engine B, DESIGN 2.6).

The *real* methods run natively on real `A` formulas whose leaves are abstract:
  * a classical leaf is an `A.Var` (lowered to a free z3 constant);
  * an *arbitrary ternary operand* is an `A.Var` whose environment entry is
    `TernVal(v, d)` with v and d free z3 constants (this is what `_newvar(...,
    ternary=True)` creates); under a quantifier v and d are uninterpreted
    functions of the bound variable.
What is checked, with z3, on the z3 terms the lowering returns:

  T  (every connective: not, and, or, ==>, ==, <, <=, >, >=, +, -, *, unary -,
     Select) if each operand pair (v, d) *soundly represents* a classical value
     c, i.e. d ==> v == c, then the result pair soundly represents the classical
     result of the connective on those values;
  Q  ForAll / Exists: the same, for a body pair (V(x), D(x)) that soundly
     represents a classical predicate P(x) at every x;
  U  `Unk` is lowered to a pair that claims nothing (d == False);
  DM Definitely(a) ==> c  and  c ==> Maybe(a)  for a pair that soundly represents c;
     on a classical operand both are the identity;
  DIV the constraint recorded for `l / r` and `l % r` (r a positive literal)
     has exactly one solution z for every l (uniqueness proved for a symbolic
     positive divisor, existence and agreement with floor division for the
     listed literal divisors), the value used for `%` is l - r * z, and the
     quantifier wrapper of `_lower` (ForAll z. eq ==> phi in positive position,
     Exists z. eq /\\ phi in negative position) makes the lowered formula
     equivalent to the formula read with floor division / floor modulo;
  V  verify(e) answers True only when z3 reports the *negation* of the lowered
     formula unsatisfiable, False when satisfiable; assume(e) asserts the lowered
     formula itself; satisfy(e) answers z3's verdict on the lowered formula.

Assumed: z3; `aeNegPos` (polarity map), `simplify`, `_add_free_vars`; that the
pysmt branch (Z3_MODE False) is dead (Z3_MODE is set to True in __init__).
"""
from __future__ import annotations
import os, time, traceback
import z3

FN = "src/exo/rewrite/new_analysis_core.py"
TGT = FN + "::SMTSolver._lower_body"
TGT_L = FN + "::SMTSolver._lower"
TGT_V = FN + "::SMTSolver.verify"
DIVISORS = [1, 2, 3, 4, 5, 7, 8, 16, 64]


class Unsupported(Exception):
    pass


def _mods():
    import exo.rewrite.new_analysis_core as NA
    from exo.core.LoopIR import T
    from exo.core.prelude import Sym, SrcInfo
    return NA, T, Sym, SrcInfo("c01_smt", 0)


def _check(hyps, tmo):
    s = z3.Solver()
    s.set("timeout", tmo)
    for h in hyps:
        s.add(h)
    t0 = time.time()
    r = s.check()
    return r, (s.model() if r == z3.sat else None), time.time() - t0


def sound(pair_or_term, classical):
    """d ==> v == classical (a classical term represents itself)"""
    NA = _mods()[0]
    if isinstance(pair_or_term, NA.TernVal):
        return z3.Implies(pair_or_term.d, pair_or_term.v == classical)
    return pair_or_term == classical


class Bench:
    """a real SMTSolver whose environment holds abstract operands"""

    def __init__(self):
        NA, T, Sym, src = _mods()
        self.NA, self.T, self.Sym, self.src = NA, T, Sym, src
        self.slv = NA.SMTSolver(verbose=False)
        if not self.slv.Z3_MODE:
            raise Unsupported("SMTSolver is not in Z3 mode")
        self.hyps = []          # soundness hypotheses on the operands
        self.n = 0

    def tern(self, name, typ):
        """A.Var lowered to an arbitrary ternary pair; returns (A expr, classical value)"""
        NA, T = self.NA, self.T
        s = self.Sym(name)
        mk = z3.Bool if typ is T.bool else z3.Int
        pair = NA.TernVal(mk(f"{name}_v"), z3.Bool(f"{name}_d"))
        self.slv.env[s] = pair
        c = mk(f"{name}_c")
        self.hyps.append(sound(pair, c))
        return NA.A.Var(s, typ, self.src), c

    def classical(self, name, typ):
        NA, T = self.NA, self.T
        s = self.Sym(name)
        mk = z3.Bool if typ is T.bool else z3.Int
        t = mk(f"{name}_k")
        self.slv.env[s] = t
        return NA.A.Var(s, typ, self.src), t

    def operand(self, name, typ, ternary):
        return self.tern(name, typ) if ternary else self.classical(name, typ)

    def lower(self, e):
        self.slv.negative_pos = self.NA.aeNegPos(e, "+")
        return self.slv._lower(e)


BOOL_OPS = {"and": lambda a, b: z3.And(a, b), "or": lambda a, b: z3.Or(a, b), "==>": lambda a, b: z3.Implies(a, b),
            "==": lambda a, b: a == b}
CMP_OPS = {"<": lambda a, b: a < b, "<=": lambda a, b: a <= b, ">": lambda a, b: a > b, ">=": lambda a, b: a >= b,
           "==": lambda a, b: a == b}
ARITH_OPS = {"+": lambda a, b: a + b, "-": lambda a, b: a - b, "*": lambda a, b: a * b}


def connective_cases():
    """(name, build(bench) -> (A expr, classical result)) for every connective and operand kind"""
    NA, T, Sym, src = _mods()
    A = NA.A
    cases = []
    kinds = [(True, True), (True, False), (False, True)]
    for op, f in BOOL_OPS.items():
        for ka, kb in kinds:
            def build(b, op=op, f=f, ka=ka, kb=kb):
                x, cx = b.operand("a", T.bool, ka)
                y, cy = b.operand("b", T.bool, kb)
                return A.BinOp(op, x, y, T.bool, src), f(cx, cy)
            cases.append((f"bool {op} [{'T' if ka else 'c'},{'T' if kb else 'c'}]", build))
    for op, f in list(CMP_OPS.items()) + list(ARITH_OPS.items()):
        for ka, kb in kinds:
            def build(b, op=op, f=f, ka=ka, kb=kb):
                x, cx = b.operand("a", T.index, ka)
                y, cy = b.operand("b", T.index, kb)
                typ = T.bool if op in CMP_OPS else T.index
                return A.BinOp(op, x, y, typ, src), f(cx, cy)
            cases.append((f"int {op} [{'T' if ka else 'c'},{'T' if kb else 'c'}]", build))

    def b_not(b):
        x, cx = b.tern("a", T.bool)
        return A.Not(x, T.bool, src), z3.Not(cx)
    cases.append(("not [T]", b_not))

    def b_usub(b):
        x, cx = b.tern("a", T.index)
        return A.USub(x, T.index, src), -cx
    cases.append(("unary - [T]", b_usub))
    for kc, kt, kf in [(True, True, True), (True, False, False), (False, True, False), (False, False, True)]:
        for typ in (T.bool, T.index):
            def build(b, kc=kc, kt=kt, kf=kf, typ=typ):
                c, cc = b.operand("c", T.bool, kc)
                t, ct = b.operand("t", typ, kt)
                f, cf = b.operand("f", typ, kf)
                return A.Select(c, t, f, typ, src), z3.If(cc, ct, cf)
            tn = "bool" if typ is T.bool else "int"
            cases.append((f"select {tn} [{'T' if kc else 'c'},{'T' if kt else 'c'},{'T' if kf else 'c'}]", build))
    return cases


REPLAY = '''#!/venv/bin/python
"""Replay for C01 / SMT lowering: {what}
exit 1 = the lowering of the real SMTSolver violates the obligation."""
import sys
sys.path.insert(0, {verif!r})
from pyvc.run import ensure_repo_on_path
ensure_repo_on_path()
from contracts.c01_smt import replay
sys.exit(replay({what!r}))
'''


def replay(what):
    res = run(tier="quick")
    bad = False
    for k, v in res["clauses"].items():
        if v == "refuted":
            print("refuted   :", k)
            bad = True
    for v in res["violations"]:
        print("model     :", v.get("model"))
    print("obligation:", what)
    print("verdict   :", "confirmed" if bad else "not-reproduced")
    return 1 if bad else 0


def run(tier="quick", seed=0):
    tmo = 60000      # queries are tiny; the budget only matters when the machine is starved
    verif = os.path.dirname(os.path.dirname(os.path.abspath(__file__)))
    res = dict(obligations=0, discharged=0, functions=[TGT, TGT_L, TGT_V], samples=[], violations=[], undecided=[],
               bounded=[], clauses={}, solver_time_s=0.0, assumptions=[
        "C01(c): aeNegPos computes the polarity of every boolean sub-formula; A.simplify preserves meaning; "
        "the pysmt branch of SMTSolver (Z3_MODE == False) is dead code",
        "C01(c): agreement of the div/mod constraint with floor division is checked for the literal divisors "
        f"{DIVISORS} (uniqueness of the solution for every positive divisor)",
    ])

    def record(tgt, name, status, dt=0.0, model=None, note=None):
        key = f"{tgt} :: {name}"
        res["obligations"] += 1
        res["solver_time_s"] += dt
        if res["clauses"].get(key) != "refuted":
            res["clauses"][key] = status
        if status == "discharged":
            res["discharged"] += 1
            if dt and len(res["samples"]) < 3:
                res["samples"].append(f"{key}: unsat in {dt:.3f}s")
        elif status == "refuted":
            if not any(v["obligation"] == key for v in res["violations"]):
                res["violations"].append(dict(obligation=key, confirmed=True, model=str(model)[:400],
                                              replay_script=REPLAY.format(verif=verif, what=name)))
        else:
            res["undecided"].append(f"{key}: {note or 'solver returned unknown'}")

    def prove(tgt, name, hyps, goal):
        r, m, dt = _check(list(hyps) + [z3.Not(goal)], tmo)
        record(tgt, name, "discharged" if r == z3.unsat else ("refuted" if r == z3.sat else "unknown"), dt, m)

    def guarded(tgt, name, fn):
        try:
            fn()
        except Unsupported as u:
            res["undecided"].append(f"{tgt} :: {name}: unsupported: {u}")
        except AssertionError as e:
            res["undecided"].append(f"{tgt} :: {name}: assertion in the lowering: {e}")
        except Exception as e:
            res["undecided"].append(f"{tgt} :: {name}: crashed: " + "".join(traceback.format_exception(e))[-500:])

    try:
        NA, T, Sym, src = _mods()
    except Exception as e:
        res["undecided"].append(f"{TGT}: cannot import: {e}")
        return res
    A = NA.A

    # ---- T: connectives
    for name, build in connective_cases():
        def one(name=name, build=build):
            b = Bench()
            e, c = build(b)
            out = b.lower(e)
            prove(TGT, f"T soundness of {name}", b.hyps, sound(out, c))
        guarded(TGT, f"T soundness of {name}", one)

    # ---- U: unknown claims nothing
    for typ, tn in ((T.bool, "bool"), (T.index, "int")):
        def one(typ=typ, tn=tn):
            b = Bench()
            out = b.lower(A.Unk(typ, src))
            if not isinstance(out, NA.TernVal):
                record(TGT, f"U Unk[{tn}] is lowered to a pair", "refuted", model="classical value for Unk")
                return
            prove(TGT, f"U Unk[{tn}] is lowered to a pair that claims nothing", [], z3.Not(out.d))
        guarded(TGT, f"U Unk[{tn}]", one)

    # ---- DM: Definitely / Maybe
    def dm():
        for ctor, nm in ((A.Definitely, "Definitely"), (A.Maybe, "Maybe")):
            b = Bench()
            x, cx = b.tern("a", T.bool)
            out = b.lower(ctor(x, T.bool, src))
            if isinstance(out, NA.TernVal):
                record(TGT, f"DM {nm} yields a classical formula", "refuted", model="ternary result")
                continue
            goal = z3.Implies(out, cx) if nm == "Definitely" else z3.Implies(cx, out)
            prove(TGT, f"DM {'Definitely(a) ==> a' if nm == 'Definitely' else 'a ==> Maybe(a)'} (a ternary)",
                  b.hyps, goal)
            b2 = Bench()
            y, ty = b2.classical("a", T.bool)
            out2 = b2.lower(ctor(y, T.bool, src))
            prove(TGT, f"DM {nm} is the identity on a classical formula", [], out2 == ty)
    guarded(TGT, "DM", dm)

    # ---- Q: quantifiers over a ternary body
    def quant():
        for ctor, nm in ((A.ForAll, "ForAll"), (A.Exists, "Exists")):
            b = Bench()
            x = Sym("qx")
            xz = z3.Int(repr(x))                     # the constant _newvar will bind
            V = z3.Function("V", z3.IntSort(), z3.BoolSort())
            D = z3.Function("D", z3.IntSort(), z3.BoolSort())
            P = z3.Function("P", z3.IntSort(), z3.BoolSort())
            body_sym = Sym("qbody")
            b.slv.env[body_sym] = NA.TernVal(V(xz), D(xz))
            e = ctor(x, A.Var(body_sym, T.bool, src), T.bool, src)
            out = b.lower(e)
            y = z3.Int("y!q")
            hyp = z3.ForAll([y], z3.Implies(D(y), V(y) == P(y)))
            cls = z3.ForAll([y], P(y)) if nm == "ForAll" else z3.Exists([y], P(y))
            prove(TGT, f"Q soundness of {nm} over a ternary body", [hyp], sound(out, cls))
    guarded(TGT, "Q", quant)

    # ---- DIV: constraint, value, wrapper
    def div_constraint():
        for op in ("/", "%"):
            for r in DIVISORS:
                b = Bench()
                l, tl = b.classical("l", T.index)
                b.slv.mod_div_tmp_bins.append([])
                e = A.BinOp(op, l, A.Const(r, T.int, src), T.index, src)
                b.slv.negative_pos = {}
                valt = b.slv._lower_body(e)
                bin_ = b.slv.mod_div_tmp_bins.pop()
                if len(bin_) != 1:
                    record(TGT, f"DIV `{op}` records one defining constraint", "refuted", model=f"{len(bin_)} constraints")
                    continue
                z, eq = bin_[0]
                want = (tl / r) if op == "/" else (tl % r)
                prove(TGT, f"DIV constraint of `l {op} r` holds exactly for z == floor(l / r)  [literal divisors]",
                      [], eq == (z == tl / r))
                prove(TGT, f"DIV value of `l {op} r` under its constraint is the floor "
                           f"{'quotient' if op == '/' else 'remainder'}  [literal divisors]", [eq], valt == want)
                if r == 7:
                    # same constraint with the literal replaced by any positive divisor: at most one solution
                    R, z2 = z3.Int("R"), z3.Int("z2")
                    eqR = z3.substitute(eq, (z3.IntVal(r), R))
                    eqR2 = z3.substitute(eqR, (z, z2))
                    prove(TGT, f"DIV constraint of `l {op} r` has at most one solution for every positive r",
                          [R > 0, eqR, eqR2], z == z2)
    guarded(TGT, "DIV constraint", div_constraint)

    def div_wrapper():
        shapes = []
        for op in ("/", "%"):
            for r in (2, 5):
                def pos(b, op=op, r=r):
                    x, tx = b.classical("x", T.index)
                    y, ty = b.classical("y", T.index)
                    d = A.BinOp(op, x, A.Const(r, T.int, src), T.index, src)
                    return A.BinOp("<=", d, y, T.bool, src), ((tx / r) if op == "/" else (tx % r)) <= ty
                def neg(b, op=op, r=r):
                    e, c = pos(b)
                    return A.Not(e, T.bool, src), z3.Not(c)
                def imp(b, op=op, r=r):
                    e, c = pos(b)
                    q, tq = b.classical("q", T.bool)
                    return A.BinOp("==>", e, q, T.bool, src), z3.Implies(c, tq)
                def both(b, op=op, r=r):
                    x, tx = b.classical("x", T.index)
                    d = A.BinOp(op, x, A.Const(r, T.int, src), T.index, src)
                    d2 = A.BinOp("/", x, A.Const(3, T.int, src), T.index, src)
                    return A.BinOp("==", d, d2, T.bool, src), ((tx / r) if op == "/" else (tx % r)) == tx / 3
                shapes += [(f"`x {op} {r} <= y`", pos), (f"`not (x {op} {r} <= y)`", neg),
                           (f"`(x {op} {r} <= y) ==> q`", imp), (f"`x {op} {r} == x / 3`", both)]
        for nm, build in shapes:
            for pol in ("+", "-"):
                b = Bench()
                e, c = build(b)
                b.slv.negative_pos = NA.aeNegPos(e, pol)
                out = b.slv._lower(e)
                if isinstance(out, NA.TernVal):
                    record(TGT_L, f"DIV wrapper: {nm} lowers to a classical formula", "refuted", model="ternary")
                    continue
                prove(TGT_L, f"DIV wrapper: lowered formula is equivalent to the formula read with floor "
                             f"division / modulo (both polarities)", [], out == c)
    guarded(TGT_L, "DIV wrapper", div_wrapper)

    # ---- V: polarity of verify / assume / satisfy
    def polarity():
        class Rec:
            def __init__(self, answer):
                self.answer, self.asserted, self.depth = answer, [], 0
            def push(self):
                self.depth += 1
            def pop(self):
                self.depth -= 1
            def assert_exprs(self, *es):
                self.asserted += list(es)
            def check(self):
                return self.answer
            def to_smt2(self):
                return ""
        for method in ("verify", "assume", "satisfy"):
            for answer in (z3.unsat, z3.sat):
                b = Bench()
                p, tp = b.classical("p", T.bool)
                q, tq = b.classical("q", T.bool)
                e = A.BinOp("==>", p, q, T.bool, src)
                want = z3.Implies(tp, tq)
                rec = Rec(answer)
                b.slv.z3slv = rec
                out = getattr(b.slv, method)(e)
                if len(rec.asserted) != 1:
                    record(TGT_V, f"V {method} hands exactly one formula to z3", "refuted", model=str(rec.asserted))
                    continue
                given = rec.asserted[0]
                if method == "verify":
                    prove(TGT_V, "V verify asks z3 about the negation of the lowered formula", [],
                          given == z3.Not(want))
                    ok = (out is True) if answer == z3.unsat else (out is False)
                    record(TGT_V, "V verify answers True exactly when z3 reports the negation unsatisfiable",
                           "discharged" if ok else "refuted", model=f"z3 said {answer}, verify returned {out}")
                elif method == "assume":
                    prove(TGT_V, "V assume asserts the lowered formula itself", [], given == want)
                else:
                    prove(TGT_V, "V satisfy asks z3 about the lowered formula itself", [], given == want)
                    ok = (out is True) if answer == z3.sat else (out is False)
                    record(TGT_V, "V satisfy answers z3's verdict", "discharged" if ok else "refuted",
                           model=f"z3 said {answer}, satisfy returned {out}")
                if method != "assume" and rec.depth != 0:
                    record(TGT_V, f"V {method} leaves the solver stack balanced", "refuted", model=f"depth {rec.depth}")
    guarded(TGT_V, "V polarity", polarity)

    res["bounded"].append(dict(target=TGT + " [div/mod constraint vs floor division]", cases=2 * len(DIVISORS),
                               bound=f"literal divisors {DIVISORS}; uniqueness for every positive divisor"))
    res["solver_time_s"] = round(res["solver_time_s"], 3)
    return res


ENGINES = ["contracts.c01_smt:run"]
