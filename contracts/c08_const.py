"""C08 - no write through an argument declared const.

The compiler declares a tensor argument (and a window struct) `const` exactly
when the argument's name is not in `Compiler.non_const`, which is the set of
names reported by `get_writes_of_stmts(proc.body)` (src/exo/core/LoopIR.py,
class GetWrites).  Property-level requirement: every buffer that a statement
may write - directly, through any chain of window aliases created by window
statements, or through a callee that writes the formal the buffer (or a window
expression over it, or over an alias of it) is passed for - is reported under
the name of the *root* buffer.

 * `GetWrites.do_s` is under a one-step contract (pyvc, real code interpreted)
   for every statement kind and alias-map state: the invariant "window_dict
   maps every alias to its root" is preserved and exactly the written roots are
   appended;
 * `run` (ENGINES): (a) syntactic protocol obligations on the compiler (where
   `non_const` comes from, what the `const` decisions test), (b) a bounded
   enumeration of whole blocks through the real `get_writes_of_stmts` against an
   oracle written from the property (labelled bounded).
"""
from __future__ import annotations
import ast, itertools, os, time
from pyvc.contract import contract
from pyvc import sym as S
from exo.core.LoopIR import LoopIR, T
from exo.core import LoopIR as LIR
from exo.core.prelude import Sym, SrcInfo
from exo.core.memory import DRAM

F = "src/exo/core/LoopIR.py"
FC = "src/exo/backend/LoopIR_compiler.py"
SRC = SrcInfo("c08const", 0)
ENGINES = ["contracts.c08_const:run"]
ASSUMPTIONS = [
    "C08 const: LoopIR_Do.do_s visits the bodies of For/If (traversal contract proved under C09 for LoopIR_Rewrite; "
    "LoopIR_Do is its read-only twin)",
    "C08 const: a callee writes a formal iff get_writes_of_stmts of its body reports it (same function, induction on "
    "the call graph, which is acyclic)",
]

X, Y, W, W2, V = Sym("x"), Sym("y"), Sym("w"), Sym("w2"), Sym("v")
TEN = T.Tensor([LoopIR.Const(8, T.int, SRC)], False, T.f32)


def _win_expr(name):
    lo, hi = LoopIR.Const(0, T.int, SRC), LoopIR.Const(4, T.int, SRC)
    wt = T.Window(TEN, T.Tensor([LoopIR.Const(4, T.int, SRC)], True, T.f32), name,
                  [LoopIR.Interval(lo, hi, SRC)])
    return LoopIR.WindowExpr(name, [LoopIR.Interval(lo, hi, SRC)], wt, SRC)


def _callee(writes):
    a = Sym("a")
    body = [LoopIR.Assign(a, T.f32, [LoopIR.Const(0, T.int, SRC)], LoopIR.Const(1.0, T.f32, SRC), SRC)] if writes \
        else [LoopIR.Pass(SRC)]
    return LoopIR.proc("callee_w" if writes else "callee_r",
                       [LoopIR.fnarg(a, T.Tensor([LoopIR.Const(4, T.int, SRC)], True, T.f32), DRAM, SRC)],
                       [], body, None, SRC)


CALLEE_W, CALLEE_R = _callee(True), _callee(False)


def _stmt(kind):
    k, n = kind
    rhs = LoopIR.Const(1.0, T.f32, SRC)
    if k == "assign":
        return LoopIR.Assign(n, T.f32, [LoopIR.Const(0, T.int, SRC)], rhs, SRC)
    if k == "reduce":
        return LoopIR.Reduce(n, T.f32, [LoopIR.Const(0, T.int, SRC)], rhs, SRC)
    if k == "window":            # n = (new alias, source name)
        return LoopIR.WindowStmt(n[0], _win_expr(n[1]), SRC)
    if k in ("call_w_read", "call_r_read"):
        arg = LoopIR.Read(n, [], TEN, SRC)
        return LoopIR.Call(CALLEE_W if k == "call_w_read" else CALLEE_R, [arg], SRC)
    if k in ("call_w_win", "call_r_win"):
        return LoopIR.Call(CALLEE_W if k == "call_w_win" else CALLEE_R, [_win_expr(n)], SRC)
    if k == "pass":
        return LoopIR.Pass(SRC)
    raise AssertionError(kind)


def root(n, alias):
    seen = 0
    while n in alias and seen < 10:
        n = alias[n]
        seen += 1
    return n


def oracle_step(kind, alias):
    """(roots written by this statement, alias map afterwards) - from the property"""
    k, n = kind
    alias = dict(alias)
    if k in ("assign", "reduce"):
        return [root(n, alias)], alias
    if k == "window":
        alias[n[0]] = n[1]
        return [], alias
    if k in ("call_w_read", "call_w_win"):
        return [root(n, alias)], alias
    return [], alias


# ----------------------------------------------------------------------------
# one-step contract of GetWrites.do_s

cgw = contract("C08", F, "GetWrites.do_s")

_STATES = [{}, {W: X}, {W: X, W2: X}, {W: X, V: Y}]
_KINDS = [("assign", X), ("assign", W), ("assign", W2), ("reduce", W), ("assign", Y),
          ("window", (W2, W)), ("window", (W, X)), ("window", (V, Y)),
          ("call_w_read", X), ("call_w_read", W), ("call_r_read", W),
          ("call_w_win", X), ("call_w_win", W), ("call_w_win", W2), ("call_r_win", W),
          ("pass", None)]


@cgw.inputs
def _(g):
    st = g.choose(list(range(len(_STATES))), "alias state")
    kd = g.choose(list(range(len(_KINDS))), "statement")
    kind = _KINDS[kd]
    # skip ill-scoped combinations (use of an alias that was never declared)
    names = {X, Y} | set(_STATES[st])
    used = kind[1][1] if kind[0] == "window" else kind[1]
    g.assume(used is None or used in names)
    o = LIR.GetWrites()
    o.window_dict = dict(_STATES[st])
    return {"self": o, "s": _stmt(kind), "__ghost__": {"kind": kind, "alias": dict(_STATES[st])}}


@cgw.ensures("exactly the root buffers the statement may write are reported")
def _(a):
    want, _ = oracle_step(a.ghost.kind, a.ghost.alias)
    return [n for n, _t in a.self.writes] == want


@cgw.ensures("the alias map sends every window name to its root buffer")
def _(a):
    _, alias = oracle_step(a.ghost.kind, a.ghost.alias)
    want = {k: root(k, alias) for k in alias}
    return dict(a.self.window_dict) == want


cgw.note("alias-map states and statement kinds enumerated (no integers involved); blocks of any length follow by "
         "induction with the second clause as invariant")


# ----------------------------------------------------------------------------
# engine: protocol obligations on the compiler + bounded whole-block enumeration

def run(tier="quick", seed=0):
    from pyvc.run import repo_root
    t0 = time.time()
    res = dict(obligations=0, discharged=0, functions=[f"{FC}::Compiler.__init__ (const qualification protocol)",
                                                       f"{FC}::Compiler.get_window_type (const qualification protocol)"],
               assumptions=[], samples=[], violations=[], undecided=[], bounded=[], clauses={}, solver_time_s=0.0)
    src = open(os.path.join(repo_root(), FC)).read()
    tree = ast.parse(src)

    def oblig(name, ok, detail):
        key = f"{FC} :: {name}"
        res["obligations"] += 1
        if ok:
            res["discharged"] += 1
            res["clauses"][key] = "discharged"
            if len(res["samples"]) < 3:
                res["samples"].append(f"{key}: {detail}")
        else:
            res["clauses"][key] = "refuted"
            res["violations"].append(dict(obligation=key, confirmed=False,
                                          replay_script=f"#!/venv/bin/python\nprint({key!r})\nprint({detail!r})\nraise SystemExit(1)\n"))

    assigns = [n for n in ast.walk(tree) if isinstance(n, ast.Assign)
               and any(isinstance(t, ast.Attribute) and t.attr == "non_const" for t in n.targets)]
    ok = len(assigns) == 1 and "get_writes_of_stmts(self.proc.body)" in ast.unparse(assigns[0].value)
    oblig("non_const is computed once, from get_writes_of_stmts(self.proc.body)", ok,
          ast.unparse(assigns[0]) if assigns else "no assignment found")
    # every occurrence of the text "const" decision must test membership in self.non_const
    tests = [n for n in ast.walk(tree) if isinstance(n, ast.Compare) and "non_const" in ast.unparse(n)]
    ok = len(tests) >= 3 and all(isinstance(t.ops[0], ast.NotIn) for t in tests)
    oblig("every const decision is `<name> not in self.non_const`", ok, "; ".join(ast.unparse(t) for t in tests))
    uses = [ast.unparse(t.left) for t in tests]
    ok = set(uses) <= {"a.name", "typ.src_buf", "typ.name"}
    oblig("the tested name is the argument's own name (or a window's source buffer)", ok, str(uses))

    # bounded: whole blocks through the real get_writes_of_stmts
    kinds = _KINDS
    cases = bad = 0
    maxlen = 4 if tier == "thorough" else 3
    first_bad = None
    for n in range(1, maxlen + 1):
        for combo in itertools.product(range(len(kinds)), repeat=n):
            alias, want, scoped, names = {}, [], True, {X, Y}
            for ki in combo:
                kind = kinds[ki]
                used = kind[1][1] if kind[0] == "window" else kind[1]
                if used is not None and used not in names:
                    scoped = False
                    break
                if kind[0] == "window":
                    if kind[1][0] in names:
                        scoped = False
                        break
                    names.add(kind[1][0])
                w, alias = oracle_step(kind, alias)
                want += w
            if not scoped:
                continue
            cases += 1
            got = [nm for nm, _t in LIR.get_writes_of_stmts([_stmt(kinds[k]) for k in combo])]
            # nesting the same block inside a loop / a branch must not change the answer
            blk = [_stmt(kinds[k]) for k in combo]
            nest = [LoopIR.For(Sym("i"), LoopIR.Const(0, T.int, SRC), LoopIR.Const(2, T.int, SRC), blk, LoopIR.Seq(), SRC)]
            got2 = [nm for nm, _t in LIR.get_writes_of_stmts(nest)]
            if set(got) != set(want) or set(got2) != set(want):
                bad += 1
                if first_bad is None:
                    first_bad = ([kinds[k] for k in combo], got, want)
    res["bounded"].append(dict(target=f"{F}::get_writes_of_stmts reports exactly the written root buffers",
                               bound=f"all well-scoped blocks of <= {maxlen} statements over {len(kinds)} statement kinds, "
                                     f"also nested in a loop", cases=cases, failed=bad))
    if first_bad:
        k, got, want = first_bad
        res["violations"].append(dict(
            obligation=f"{F} :: [bounded] get_writes_of_stmts reports exactly the written root buffers",
            confirmed=True,
            replay_script=f"#!/venv/bin/python\n# block kinds: {k}\nprint('reported', {[str(x) for x in got]!r}, 'expected', {[str(x) for x in want]!r})\nraise SystemExit(1)\n"))
    res["solver_time_s"] = round(time.time() - t0, 2)
    return res
