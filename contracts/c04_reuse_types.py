"""C04 - reuse_buffer keeps every access inside the buffer it redirects to.

`DoReuseBuffer(buf, rep)` redirects every access of the eliminated allocation
`rep` into `buf`.  Property-level requirement: the call is accepted only if the
two allocations have the same type *as values* - the extents denote the same
number for every valuation - which, for extents mentioning variables, means the
same symbols (identity), not the same printed text.  Otherwise it must raise.
"""
from __future__ import annotations
from exo import proc
from exo.core.LoopIR import LoopIR, T
from exo.core.prelude import Sym
from exo.rewrite.new_eff import SchedulingError
from pyvc.contract import contract
from pyvc import sym as S
from pyvc.sym import And, Or, Not, Implies
from contracts.ghost import ev, rho, SRC
from contracts.frame_ghost import cursor_to, find_alloc
from contracts.c04_wellformed import scope_contract, plain_call, _reset

crt = scope_contract("DoReuseBuffer", checks=("Check_IsDeadAfter",), name="src/exo/rewrite/LoopIR_scheduling.py::DoReuseBuffer[types agree]")


def _mk(g):
    from exo.core.memory import DRAM
    kind = g.choose(["same symbol", "other symbol, same printed name", "other symbol, other name", "literals only"], "extents")
    n, m, a = Sym("n"), Sym("m"), Sym("a")
    n2 = {"same symbol": n, "other symbol, same printed name": Sym("n"), "other symbol, other name": Sym("k"),
          "literals only": None}[kind]
    # literals symbolic, or concrete (so that code comparing printed types is followed, not undecided)
    lit = g.choose(["symbolic", (1, 1), (1, 2)], "literals")
    c1, c2 = (g.int("c1"), g.int("c2")) if lit == "symbolic" else lit
    def ext(sym, c):
        k = LoopIR.Const(c, T.int, SRC)
        return k if sym is None else LoopIR.BinOp("+", LoopIR.Read(sym, [], T.index, SRC), k, T.index, SRC)
    e1 = ext(None if kind == "literals only" else n, c1)
    e2 = ext(n2, c2)
    one = LoopIR.Const(1.0, T.f32, SRC)
    zero = LoopIR.Const(0, T.int, SRC)
    bb = Sym("bb")
    cc = Sym("c")
    alloc1 = LoopIR.Alloc(bb, T.Tensor([e1], False, T.f32), DRAM, SRC)
    use1 = LoopIR.Assign(bb, T.f32, [zero], one, SRC)
    alloc2 = LoopIR.Alloc(cc, T.Tensor([e2], False, T.f32), DRAM, SRC)
    use2 = LoopIR.Assign(cc, T.f32, [zero], one, SRC)
    if kind in ("same symbol", "literals only"):
        body = [alloc1, use1, alloc2, use2]
    else:
        # the second extent mentions a loop iterator
        body = [alloc1, use1, LoopIR.For(n2, zero, LoopIR.Read(m, [], T.size, SRC), [alloc2, use2], LoopIR.Seq(), SRC)]
    args = [LoopIR.fnarg(n, T.size, None, SRC), LoopIR.fnarg(m, T.size, None, SRC)]
    ir = LoopIR.proc("p", args, [], body, None, SRC)
    return ir, e1, e2, kind


@crt.inputs
def _(g):
    _reset(g)
    ir, e1, e2, kind = _mk(g)
    return {"buf_cursor": cursor_to(ir, find_alloc(ir, "bb")), "rep_cursor": cursor_to(ir, find_alloc(ir, "c")),
            "__ghost__": {"e1": e1, "e2": e2, "kind": kind}}


plain_call(crt, ["buf_cursor", "rep_cursor"])


@crt.ensures("accepted only if the two extents denote the same value for every valuation")
def _(a):
    return ev(a.ghost.e1) == ev(a.ghost.e2)


crt.raises(SchedulingError, label="SchedulingError allowed")
crt.raises(AssertionError, when=lambda a: True, label="a type mismatch may be reported by the internal assertion")
