"""Data-flow scan used by contracts/c04_alpha.py (engine `scan_sites`): where do
statements of the INPUT tree (or of a callee) flow into the OUTPUT tree of a
scheduling rewrite, and did they pass through `Alpha_Rename(..).result()`?

The scan is purely syntactic and flow-insensitive inside one top-level function
or class (nested closures share the variables of their enclosing function).

Sources (statements that already exist in some procedure)
    X._node                       node under a cursor
    X.body / X.orelse             blocks of such a node          (kind "old")
    X.f.body                      body of the callee of a Call   (kind "callee")
    X.resolve_all()               nodes of a block cursor
    s / stmts parameters of methods   statements handed to a class-based rewriter
Transfer
    Alpha_Rename(A).result()      origins of A, marked RENAMED
    SubstArgs(A, _).result()      origins of A
    V.update(..)                  origins of V and of the body= / orelse= values
    LoopIR.For(..body..), LoopIR.If(.., body, orelse)   origins of the blocks
    other LoopIR.<Ctor>(..)       nothing (a new leaf statement)
    lists, +, +=, slices, subscripts, comprehensions, conditional expressions,
    tuple unpacking, for-targets  union
    any other attribute           nothing (expressions, types, names carry no binder)
    any other call                union over receiver and arguments (conservative)
Sinks (where statements enter the result)
    C._insert(A)      C._replace(A)
    C._wrap(f, attr)              the statement BUILT by f around the moved block
    return of map_s / map_stmts of the class-based rewriters
"""
from __future__ import annotations
import ast


class Origin:
    __slots__ = ("kind", "text", "line", "renamed")

    def __init__(self, kind, text, line, renamed=False):
        self.kind, self.text, self.line, self.renamed = kind, text, line, renamed

    def key(self):
        return (self.kind, self.text, self.renamed)

    def as_renamed(self):
        return Origin(self.kind, self.text, self.line, True)

    def __repr__(self):
        return f"{self.kind}:{self.text}{' [renamed]' if self.renamed else ''}"


def _txt(n):
    return ast.unparse(n)


class Unit:
    """one top-level function, or one class (all its methods together)"""
    def __init__(self, name, node):
        self.name, self.node = name, node
        self.defs = {}            # variable -> [value expression | ("param", fn, name) | ("iter", expr) | ("elt", expr)]
        self.funcs = {}           # nested / method name -> FunctionDef | Lambda
        self._over = {}
        self._collect(node, top=True)

    def _bind(self, target, value):
        if isinstance(target, ast.Name):
            self.defs.setdefault(target.id, []).append(value)
        elif isinstance(target, (ast.Tuple, ast.List)):
            for t in target.elts:
                self._bind(t, value)             # every component may carry what the whole carries
        elif isinstance(target, ast.Starred):
            self._bind(target.value, value)

    def _collect(self, node, top=False):
        for n in ast.walk(node):
            if isinstance(n, (ast.FunctionDef, ast.Lambda)):
                if isinstance(n, ast.FunctionDef):
                    self.funcs.setdefault(n.name, n)
                a = n.args
                for p in list(a.posonlyargs) + list(a.args) + list(a.kwonlyargs):
                    if p.arg != "self":
                        self.defs.setdefault(p.arg, []).append(("param", n, p.arg))
            elif isinstance(n, ast.Assign):
                for t in n.targets:
                    self._bind(t, n.value)
                    if isinstance(n.value, ast.Lambda) and isinstance(t, ast.Name):
                        self.funcs.setdefault(t.id, n.value)
            elif isinstance(n, ast.AugAssign):
                self._bind(n.target, n.value)
            elif isinstance(n, ast.AnnAssign) and n.value is not None:
                self._bind(n.target, n.value)
            elif isinstance(n, ast.NamedExpr):
                self._bind(n.target, n.value)
            elif isinstance(n, (ast.For, ast.comprehension)):
                self._bind(n.target, ("iter", n.iter))
            elif isinstance(n, ast.withitem) and n.optional_vars is not None:
                self._bind(n.optional_vars, n.context_expr)

    # ------------------------------------------------------------------
    def origins(self, e, seen=frozenset(), skip_params=()):
        out = {}
        for o in self._orig(e, seen, skip_params):
            out.setdefault(o.key(), o)
        return sorted(out.values(), key=lambda o: (o.line, o.text, o.renamed))

    def _orig(self, e, seen, skip):
        if isinstance(e, tuple):
            if e[0] == "param":
                # parameters are expressions, names, cursors ... except the statement parameters of the
                # class-based rewriters that walk the tree themselves (DoFissionLoops.map_s(self, s))
                fn = e[1]
                is_method = isinstance(fn, ast.FunctionDef) and fn.args.args and fn.args.args[0].arg == "self"
                if is_method and e[2] in ("s", "stmts") and (fn, e[2]) not in skip:
                    return [Origin("old", e[2], fn.lineno)]
                return []
            return self._orig(e[1], seen, skip)           # ("iter", expr): an element of what is iterated
        if isinstance(e, ast.Name):
            if e.id in seen:
                return list(self._over.get(e.id, []))
            out = []
            for v in self.defs.get(e.id, []):
                out += self._orig(v, seen | {e.id}, skip)
            # second pass: a self-referential definition (x = f(x), x += ..) sees what the others produce
            if e.id not in self._over:
                self._over[e.id] = out
                try:
                    out2 = []
                    for v in self.defs.get(e.id, []):
                        out2 += self._orig(v, seen | {e.id}, skip)
                finally:
                    del self._over[e.id]
                out = out + out2
            return out
        if isinstance(e, ast.Attribute):
            if e.attr == "_node":
                return [Origin("old", _txt(e), e.lineno)]
            if e.attr in ("body", "orelse"):
                if isinstance(e.value, ast.Attribute) and e.value.attr == "f":
                    return [Origin("callee", _txt(e), e.lineno)]
                base = self._orig(e.value, seen, skip)
                return [Origin(o.kind, _txt(e), e.lineno, o.renamed) for o in base[:1]] if base else []
            return []
        if isinstance(e, ast.Call):
            f = e.func
            if isinstance(f, ast.Attribute):
                if f.attr == "result" and isinstance(f.value, ast.Call) and isinstance(f.value.func, ast.Name):
                    inner = f.value
                    if inner.func.id == "Alpha_Rename" and inner.args:
                        return [o.as_renamed() for o in self._orig(inner.args[0], seen, skip)]
                    if inner.func.id == "SubstArgs" and inner.args:
                        return self._orig(inner.args[0], seen, skip)
                if f.attr == "resolve_all":
                    return [Origin("old", _txt(e), e.lineno)]
                if f.attr == "update":
                    out = self._orig(f.value, seen, skip)
                    for k in e.keywords:
                        if k.arg in ("body", "orelse"):
                            out += self._orig(k.value, seen, skip)
                    return out
                if isinstance(f.value, ast.Name) and f.value.id == "LoopIR":
                    if f.attr == "For":
                        return self._ctor_blocks(e, {3: "body"}, seen, skip)
                    if f.attr == "If":
                        return self._ctor_blocks(e, {1: "body", 2: "orelse"}, seen, skip)
                    return []
                if f.attr in ("copy",):
                    return self._orig(f.value, seen, skip)
                out = self._orig(f.value, seen, skip) if f.attr in ("map_stmts", "map_s") else []
                for a in e.args:
                    out += self._orig(a, seen, skip)
                return out
            if isinstance(f, ast.Name) and f.id in self.funcs:
                # a local helper: what it returns
                fn = self.funcs[f.id]
                out = []
                for r in _returns(fn):
                    out += self._orig(r, seen, skip)
                return out
            out = []
            for a in e.args:
                out += self._orig(a, seen, skip)
            return out
        if isinstance(e, (ast.List, ast.Tuple, ast.Set)):
            out = []
            for x in e.elts:
                out += self._orig(x, seen, skip)
            return out
        if isinstance(e, ast.Starred):
            return self._orig(e.value, seen, skip)
        if isinstance(e, ast.BinOp):
            return self._orig(e.left, seen, skip) + self._orig(e.right, seen, skip)
        if isinstance(e, ast.Subscript):
            return self._orig(e.value, seen, skip)
        if isinstance(e, ast.IfExp):
            return self._orig(e.body, seen, skip) + self._orig(e.orelse, seen, skip)
        if isinstance(e, ast.BoolOp):
            out = []
            for x in e.values:
                out += self._orig(x, seen, skip)
            return out
        if isinstance(e, (ast.ListComp, ast.GeneratorExp, ast.SetComp)):
            return self._orig(e.elt, seen, skip)
        if isinstance(e, ast.NamedExpr):
            return self._orig(e.value, seen, skip)
        return []

    def _ctor_blocks(self, call, pos, seen, skip):
        out = []
        for i, a in enumerate(call.args):
            if i in pos:
                out += self._orig(a, seen, skip)
        for k in call.keywords:
            if k.arg in pos.values():
                out += self._orig(k.value, seen, skip)
        return out


def _returns(fn):
    if isinstance(fn, ast.Lambda):
        return [fn.body]
    out = []
    stack = list(fn.body)
    while stack:
        n = stack.pop()
        if isinstance(n, (ast.FunctionDef, ast.Lambda, ast.ClassDef)):
            continue
        if isinstance(n, ast.Return) and n.value is not None:
            out.append(n.value)
        stack.extend(ast.iter_child_nodes(n))
    return out


def _params(fn):
    a = fn.args
    return [(fn, p.arg) for p in list(a.posonlyargs) + list(a.args) + list(a.kwonlyargs)]


class Site:
    def __init__(self, unit, kind, sink, line, origins):
        self.unit, self.kind, self.sink, self.line, self.origins = unit, kind, sink, line, origins
        self.id = None

    def signature(self):
        return sorted({f"{o.kind}:{o.text}{'|renamed' if o.renamed else ''}" for o in self.origins})


def scan(source):
    """-> [Site] in source order; id = '<function or class.method>#<ordinal in that function>'"""
    tree = ast.parse(source)
    sites = []
    for top in tree.body:
        if isinstance(top, ast.FunctionDef):
            u = Unit(top.name, top)
            sites += _scan_unit(u, top, top.name)
        elif isinstance(top, ast.ClassDef):
            u = Unit(top.name, top)
            for m in top.body:
                if isinstance(m, ast.FunctionDef):
                    sites += _scan_unit(u, m, f"{top.name}.{m.name}", is_method=True)
    sites.sort(key=lambda s: s.line)
    count = {}
    for s in sites:
        count[s.unit] = count.get(s.unit, 0) + 1
        s.id = f"{s.unit}#{count[s.unit]}"
    return sites


def _scan_unit(u, fn, qual, is_method=False):
    out = []
    for n in ast.walk(fn):
        if isinstance(n, ast.Call) and isinstance(n.func, ast.Attribute):
            a = n.func.attr
            if a in ("_insert", "_replace") and n.args:
                og = u.origins(n.args[0])
                if og:
                    out.append(Site(qual, a, _txt(n.args[0]), n.lineno, og))
            elif a == "_wrap" and n.args:
                w = n.args[0]
                f = u.funcs.get(w.id) if isinstance(w, ast.Name) else (w if isinstance(w, ast.Lambda) else None)
                if f is not None:
                    og = []
                    for r in _returns(f):
                        og += u.origins(r, skip_params=tuple(_params(f)))
                    og = [o for o in og]
                    if og:
                        out.append(Site(qual, "_wrap", _txt(w) + ": " + " | ".join(_txt(r) for r in _returns(f)), n.lineno, og))
    if is_method and fn.name in ("map_s", "map_stmts"):
        for r in _returns(fn):
            og = u.origins(r)
            if og:
                out.append(Site(qual, "return", _txt(r), r.lineno, og))
    return out


if __name__ == "__main__":
    import sys
    src = open(sys.argv[1]).read()
    for s in scan(src):
        print(f"{s.id:38s} L{s.line:<5d} {s.kind:8s} {s.sink[:70]!r}")
        for o in s.origins:
            print(f"        <- {o!r} (L{o.line})")
