"""C10 - the environment "on entry to the rewritten statements".

`Check_DeleteConfigWrite` / `Check_ExtendEqv` decide "is the field changed /
read afterwards" relative to `ContextExtraction.get_pre_globenv()`.  c10_config
stubs that environment by atoms; this module puts the extraction itself under
contract, so that the atoms stand for what the property needs:

    the pre-environment of the focused statements accounts for everything that
    executes before them: the statements that precede them in *every*
    enclosing block and, for every enclosing loop, the iterations before the
    current one.

Specification (ghost, written from that sentence): along the path from the
procedure body to the focus, outermost first,
    spec(block, focus inside block[i])  = [glob(block[:i])] ++ spec(block[i])
    spec(if c: b else: o)               = spec(the branch holding the focus)
    spec(for i in (lo,hi): b)           = [earlier-iterations(loop)] ++ spec(b)
    spec(focus)                         = []
`globenv` and `loop_preenv` are modular callees that return tagged tokens
(their own meaning - effect of a block on the global state - is the data-flow
assumption shared with C01/C11); composition `G + preG` is token concatenation.
`preenv_stmts` / `preenv_s` are mutually recursive: each is proved one step
with the other under its contract (induction on the depth of the focus).
`loop_preenv` is proved to hand `globenv` the loop `for i' in (lo, i): body[i -> i']`.
"""
from __future__ import annotations
from pyvc.contract import contract
from exo.core.LoopIR import LoopIR, T
from exo.core.prelude import Sym, SrcInfo
from exo.rewrite import new_eff as NE

F = "src/exo/rewrite/new_eff.py"
SRC = SrcInfo("c10ctx", 0)


class Tok:
    """a composed environment: the ordered list of its parts"""
    def __init__(self, parts):
        self.parts = list(parts)

    def __add__(self, other):
        if isinstance(other, Tok):
            return Tok(self.parts + other.parts)
        if isinstance(other, NE.AEnv):
            assert not other.bindings if hasattr(other, "bindings") else True
            return Tok(self.parts)
        return NotImplemented

    def __radd__(self, other):
        if isinstance(other, NE.AEnv):
            return Tok(self.parts)
        return NotImplemented

    def __eq__(self, other):
        return isinstance(other, Tok) and self.parts == other.parts

    def __repr__(self):
        return f"Tok({self.parts})"


def parts(v):
    if v is None:
        return None
    if isinstance(v, Tok):
        return v.parts
    if isinstance(v, NE.AEnv):
        return []
    return ("?", v)


def glob(stmts):
    return ("glob", tuple(id(s) for s in stmts))


def loop(s):
    return ("earlier-iterations", id(s))


def spec_stmts(stmts, focus):
    for i, s in enumerate(stmts):
        r = [] if s is focus else spec_s(s, focus)
        if r is not None:
            return [glob(stmts[:i])] + r
    return None


def spec_s(s, focus):
    if isinstance(s, LoopIR.If):
        r = spec_stmts(s.body, focus)
        return r if r is not None else spec_stmts(s.orelse, focus)
    if isinstance(s, LoopIR.For):
        r = spec_stmts(s.body, focus)
        return None if r is None else [loop(s)] + r
    return None


# ----------------------------------------------------------------------------
# statement shapes

def _pass():
    return LoopIR.Pass(SRC)


def _cfgcall():
    # a call: the body of a loop may change configuration state through it
    callee = LoopIR.proc("setter", [], [], [LoopIR.Pass(SRC)], None, SRC)
    return LoopIR.Call(callee, [], SRC)


def _if(body, orelse):
    return LoopIR.If(LoopIR.Const(True, T.bool, SRC), body, orelse, SRC)


def _for(body):
    return LoopIR.For(Sym("i"), LoopIR.Const(0, T.int, SRC), LoopIR.Const(4, T.int, SRC), body, LoopIR.Seq(), SRC)


def _stmt_shapes(focus):
    """one statement: without the focus, the focus itself, or holding it"""
    other = [_pass, _cfgcall]
    out = []
    out.append(("other", lambda: _pass()))
    out.append(("call", lambda: _cfgcall()))
    out.append(("if-none", lambda: _if([_pass()], [_cfgcall()])))
    out.append(("for-none", lambda: _for([_cfgcall()])))
    out.append(("if-body", lambda: _if([_cfgcall(), focus], [_pass()])))
    out.append(("if-orelse", lambda: _if([_pass()], [_cfgcall(), focus, _pass()])))
    out.append(("for-first", lambda: _for([focus, _cfgcall()])))
    out.append(("for-later", lambda: _for([_cfgcall(), focus])))
    out.append(("for-pass", lambda: _for([_pass(), focus])))
    out.append(("for-nested", lambda: _for([_pass(), _for([_cfgcall(), focus])])))
    out.append(("if-for", lambda: _if([_for([focus])], [])))
    return out


def _ctx(focus):
    o = object.__new__(NE.ContextExtraction)
    o.proc = None
    o.stmts = [focus]
    return o


def _tok_or_none(v):
    return None if v is None else Tok(v)


def _callees(c, which):
    c.callee("globenv", result=lambda g, a: Tok([glob(a.stmts)]), assumed=True,
             note="effect of a block on the global state (data-flow assumption shared with C01/C11)")
    if "loop" in which:
        c.callee("ContextExtraction.loop_preenv", result=lambda g, a: Tok([loop(a.s)]), assumed=False,
                 note="contract below: globenv of the loop restricted to the earlier iterations")
    if "stmts" in which:
        c.callee("ContextExtraction.preenv_stmts",
                 result=lambda g, a: _tok_or_none(spec_stmts(a.stmts, a.self.stmts[0])), assumed=False,
                 note="induction hypothesis (focus one level deeper)")
    if "s" in which:
        c.callee("ContextExtraction.preenv_s",
                 result=lambda g, a: _tok_or_none(spec_s(a.s, a.self.stmts[0])), assumed=False,
                 note="induction hypothesis (focus one level deeper)")


# preenv_s ---------------------------------------------------------------------
cs = contract("C10", F, "ContextExtraction.preenv_s")


@cs.inputs
def _(g):
    focus = _pass()
    shapes = _stmt_shapes(focus)
    k = g.choose(list(range(len(shapes))), "statement")
    s = shapes[k][1]()
    return {"self": _ctx(focus), "s": s, "__ghost__": {"focus": focus}}


@cs.ensures("the environment accounts for the earlier iterations of an enclosing loop and for the enclosing blocks")
def _(a):
    return parts(a.result) == spec_s(a.s, a.ghost.focus)


_callees(cs, {"loop", "stmts"})


# preenv_stmts -----------------------------------------------------------------
cb = contract("C10", F, "ContextExtraction.preenv_stmts")


@cb.inputs
def _(g):
    focus = _pass()
    shapes = _stmt_shapes(focus) + [("focus", lambda: focus)]
    n = g.choose([1, 2, 3], "block length")
    ks = [g.choose(list(range(len(shapes))), f"statement {i}") for i in range(n)]
    holders = [i for i, k in enumerate(ks) if shapes[k][0] not in ("other", "call", "if-none", "for-none")]
    g.assume(len(holders) <= 1)          # the focus occurs once in the tree
    stmts = [shapes[k][1]() for k in ks]
    return {"self": _ctx(focus), "stmts": stmts, "__ghost__": {"focus": focus}}


@cb.ensures("the environment accounts for the statements that precede the focus in the block")
def _(a):
    return parts(a.result) == spec_stmts(a.stmts, a.ghost.focus)


_callees(cb, {"s"})
cb.note("blocks of 1..3 statements enumerated (the loop over the block is executed, not cut); the depth of the "
        "focus is unbounded (mutual induction with preenv_s)")


# loop_preenv ------------------------------------------------------------------
cl = contract("C10", F, "ContextExtraction.loop_preenv")


@cl.inputs
def _(g):
    i = Sym("i")
    rd = LoopIR.Read(i, [], T.index, SRC)
    x = Sym("x")
    body_shapes = [
        lambda: [LoopIR.Assign(x, T.f32, [rd], LoopIR.Const(1.0, T.f32, SRC), SRC)],
        lambda: [_cfgcall(), LoopIR.Assign(x, T.f32, [LoopIR.BinOp("+", rd, LoopIR.Const(1, T.int, SRC), T.index, SRC)],
                                           LoopIR.Const(1.0, T.f32, SRC), SRC)],
        lambda: [_if([LoopIR.Assign(x, T.f32, [rd], LoopIR.Const(1.0, T.f32, SRC), SRC)], [])],
    ]
    k = g.choose([0, 1, 2], "body")
    lo = g.choose([0, 1], "lo")
    s = LoopIR.For(i, LoopIR.Const(lo, T.int, SRC), LoopIR.Const(8, T.int, SRC), body_shapes[k](), LoopIR.Seq(), SRC)
    g.ghost["captured"] = []
    return {"self": _ctx(_pass()), "s": s}


def _capture(g, a):
    g.ghost["captured"].append(a.stmts)
    return Tok([("captured",)])


cl.callee("globenv", result=_capture, assumed=True,
          note="effect of a block on the global state (data-flow assumption shared with C01/C11)")


@cl.ensures("the environment of the earlier iterations is that of `for i' in (lo, i): body[i -> i']`")
def _(a):
    cap = a.g.ghost["captured"]
    if len(cap) != 1 or len(cap[0]) != 1 or parts(a.result) != [("captured",)]:
        return False
    pre = cap[0][0]
    s = a.s
    if not isinstance(pre, LoopIR.For) or pre.iter is s.iter or pre.iter in _syms(s):
        return False
    if pre.lo is not s.lo and str(pre.lo) != str(s.lo):
        return False
    if not (isinstance(pre.hi, LoopIR.Read) and pre.hi.name is s.iter and not pre.hi.idx):
        return False
    # the body is the loop body with the iterator renamed, nothing else
    from exo.core.LoopIR import SubstArgs
    back = SubstArgs(pre.body, {pre.iter: LoopIR.Read(s.iter, [], T.index, SRC)}).result()
    return [str(x) for x in back] == [str(x) for x in s.body] and s.iter not in _syms_stmts(pre.body)


def _syms_stmts(stmts):
    out = set()
    for st in stmts:
        out |= _syms(st)
    return out


def _syms(node):
    out = set()

    def walk(v):
        if isinstance(v, Sym):
            out.add(v)
        elif isinstance(v, (list, tuple)):
            for x in v:
                walk(x)
        elif isinstance(v, (LoopIR.stmt, LoopIR.expr, LoopIR.w_access)):
            for f in getattr(type(v), "__match_args__", ()):
                walk(getattr(v, f, None))
    if isinstance(node, LoopIR.For):
        walk(node.lo), walk(node.hi), walk(node.body)
    else:
        walk(node)
    return out
