"""Native scenarios for the duplication sites of LoopIR_scheduling.py (used by the
replay scripts of contracts/c04_alpha.py, engine `scan_sites`): a small front-end
built procedure, the public scheduling operation that reaches the site, and the
scoping oracle of contracts/frame_ghost.py on the result.

Each scenario returns (procedure text, ScopeReport).  A scenario FAILS when the
result declares a symbol twice or uses a symbol outside the scope of its (single)
declaration.
"""
from __future__ import annotations
from exo import proc, DRAM
from exo.stdlib.scheduling import (cut_loop, divide_loop, unroll_loop, inline, specialize, sink_alloc, autofission,
                                   add_unsafe_guard, simplify)
from contracts.frame_ghost import scope_report


@proc
def _loop_with_binders(n: size, x: f32[n]):
    assert n > 8
    for i in seq(0, n):
        t: f32[2]
        for j in seq(0, 2):
            t[j] = x[i]
        w = t[0:2]
        x[i] = w[0] + w[1]


@proc
def _const_loop(x: f32[4]):
    for i in seq(0, 2):
        t: f32[2]
        for j in seq(0, 2):
            t[j] = x[2 * i + j]
        w = t[0:2]
        x[i] = w[0] + w[1]


@proc
def _callee(n: size, y: f32[n]):
    assert n > 1
    t: f32[n]
    for k in seq(0, n):
        t[k] = y[k]
    w = t[0:n]
    y[0] = w[0]


@proc
def _caller(a: f32[8], b: f32[8]):
    _callee(8, a)
    _callee(8, b[0:8])


@proc
def _block(n: size, x: f32[8]):
    t: f32
    t = x[0]
    for j in seq(0, 4):
        x[j] = t
    x[7] = 0.0


@proc
def _sink(n: size, y: f32[4]):
    t: f32
    if n > 2:
        t = 1.0
        y[0] = t
    else:
        y[1] = 2.0


@proc
def _nest(n: size, x: f32[n], y: f32[n]):
    for i in seq(0, n):
        for j in seq(0, 2):
            x[i] = 1.0
            y[i] = 2.0


def _loop(p, name):
    return p.find_loop(name)


def sc_cut_loop():
    return cut_loop(_loop_with_binders, _loop(_loop_with_binders, "i"), 3)


def sc_divide_loop_cut():
    return divide_loop(_loop_with_binders, _loop(_loop_with_binders, "i"), 4, ["io", "ii"], tail="cut")


def sc_divide_loop_cut_and_guard():
    return divide_loop(_loop_with_binders, _loop(_loop_with_binders, "i"), 4, ["io", "ii"], tail="cut_and_guard")


def sc_unroll():
    return unroll_loop(_const_loop, _loop(_const_loop, "i"))


def sc_inline():
    p = inline(_caller, _caller.find("_callee(_)"))
    return inline(p, p.find("_callee(_)"))


def sc_specialize():
    blk = _block.find("t = _").expand(0, 1)
    return specialize(_block, blk, ["n > 4", "n > 2"])


def sc_sink_alloc():
    return sink_alloc(_sink, _sink.find("t : _"))


def sc_autofission():
    return autofission(_nest, _nest.find("x[_] = _").after(), n_lifts=2)


def sc_add_unsafe_guard():
    return add_unsafe_guard(_loop_with_binders, _loop_with_binders.find("t : _"), "i < 2")


SCENARIOS = {
    "DoCutLoop": [sc_cut_loop],
    "DoDivideLoop": [sc_divide_loop_cut, sc_divide_loop_cut_and_guard],
    "DoUnroll": [sc_unroll],
    "DoInline": [sc_inline],
    "DoSpecialize": [sc_specialize],
    "DoSinkAlloc": [sc_sink_alloc],
    "DoFissionLoops.map_s": [sc_autofission],
}


def run(unit):
    """-> [(scenario name, ok, text, problems)]"""
    out = []
    for f in SCENARIOS.get(unit, []):
        try:
            p = f()
        except Exception as e:                       # a scenario that cannot run proves nothing
            out.append((f.__name__, None, f"{type(e).__name__}: {e}", []))
            continue
        rep = scope_report(p._loopir_proc)
        out.append((f.__name__, rep.ok(unique_binders=True), str(p), rep.describe()))
    return out


if __name__ == "__main__":
    import sys
    bad = 0
    for u in (sys.argv[1:] or list(SCENARIOS)):
        for name, ok, text, probs in run(u):
            print(f"{u:24s} {name:32s} {'ok' if ok else ('ERROR ' + text if ok is None else 'FAIL ' + '; '.join(probs))}")
            bad += ok is not True
    sys.exit(1 if bad else 0)
