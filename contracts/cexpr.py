"""A tiny parser/evaluator for the C index expressions that Exo emits.

Grammar (C precedence): additive > multiplicative > unary > primary;
primary = integer | identifier(.identifier | [integer])* | call(args) | (expr).
Semantics: mathematical integers with C's truncating `/` and `%` (sign of the
dividend); `exo_floor_div(a, b)` is floor division (its C body is verified
separately against that specification).  Anything else is rejected.
"""
from __future__ import annotations
import re
import z3

TOK = re.compile(r"\s*(?:(\d+)|([A-Za-z_][A-Za-z_0-9]*(?:->[A-Za-z_][A-Za-z_0-9]*)?(?:\.[A-Za-z_][A-Za-z_0-9]*|\[\d+\])*)|(.))")


class CParseError(Exception):
    pass


def tokenize(s):
    out = []
    pos = 0
    s = s.strip()
    while pos < len(s):
        m = TOK.match(s, pos)
        if not m:
            raise CParseError(f"bad input at {s[pos:]!r}")
        pos = m.end()
        if m.group(1) is not None:
            out.append(("int", int(m.group(1))))
        elif m.group(2) is not None:
            out.append(("id", m.group(2)))
        else:
            out.append(("op", m.group(3)))
    return out


class Parser:
    def __init__(self, toks):
        self.t = toks
        self.i = 0

    def peek(self):
        return self.t[self.i] if self.i < len(self.t) else ("eof", None)

    def eat(self, kind=None, val=None):
        k, v = self.peek()
        if (kind and k != kind) or (val is not None and v != val):
            raise CParseError(f"expected {kind} {val}, got {k} {v}")
        self.i += 1
        return v

    def expr(self):
        n = self.term()
        while self.peek() in (("op", "+"), ("op", "-")):
            op = self.eat()
            n = (op, n, self.term())
        return n

    def term(self):
        n = self.unary()
        while self.peek() in (("op", "*"), ("op", "/"), ("op", "%")):
            op = self.eat()
            n = (op, n, self.unary())
        return n

    def unary(self):
        if self.peek() == ("op", "-"):
            self.eat()
            # `--x` would be a decrement in C: reject it
            if self.peek() == ("op", "-"):
                raise CParseError("'--' is the decrement operator in C")
            return ("neg", self.unary())
        return self.primary()

    def primary(self):
        k, v = self.peek()
        if k == "int":
            self.eat()
            return ("int", v)
        if k == "id":
            self.eat()
            if self.peek() == ("op", "("):
                self.eat()
                args = []
                if self.peek() != ("op", ")"):
                    args.append(self.expr())
                    while self.peek() == ("op", ","):
                        self.eat()
                        args.append(self.expr())
                self.eat("op", ")")
                return ("call", v, args)
            return ("var", v)
        if (k, v) == ("op", "("):
            self.eat()
            n = self.expr()
            self.eat("op", ")")
            return n
        raise CParseError(f"unexpected token {k} {v}")


def parse(s):
    p = Parser(tokenize(s))
    n = p.expr()
    if p.peek()[0] != "eof":
        raise CParseError(f"trailing input {p.peek()}")
    return n


def c_div(a, b):
    """C99 truncating division on mathematical ints (b != 0)"""
    return z3.If(z3.And(a >= 0, b > 0), a / b,
           z3.If(z3.And(a < 0, b > 0), -((-a) / b),
           z3.If(z3.And(a >= 0, b < 0), -(a / (-b)), (-a) / (-b))))


def c_mod(a, b):
    return a - b * c_div(a, b)


def floor_div(a, b):
    return z3.If(b > 0, a / b, (-a) / (-b))


def evaluate(n, var, divzero):
    """n: parsed tree; var: name -> z3 Int; divzero: list collecting `divisor == 0` conditions"""
    k = n[0]
    if k == "int":
        return z3.IntVal(n[1])
    if k == "var":
        return var(n[1])
    if k == "neg":
        return -evaluate(n[1], var, divzero)
    if k == "call":
        if n[1] == "exo_floor_div" and len(n[2]) == 2:
            a, b = (evaluate(x, var, divzero) for x in n[2])
            divzero.append(b <= 0)      # helper's precondition: positive divisor
            return floor_div(a, b)
        if n[1] == "exo_floor_mod" and len(n[2]) == 2:
            a, b = (evaluate(x, var, divzero) for x in n[2])
            divzero.append(b <= 0)
            return a - b * floor_div(a, b)
        raise CParseError(f"unknown function {n[1]}")
    a, b = evaluate(n[1], var, divzero), evaluate(n[2], var, divzero)
    if k == "+":
        return a + b
    if k == "-":
        return a - b
    if k == "*":
        return a * b
    if k == "/":
        divzero.append(b == 0)
        return c_div(a, b)
    if k == "%":
        divzero.append(b == 0)
        return c_mod(a, b)
    raise CParseError(k)
