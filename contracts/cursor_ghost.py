"""Ghost vocabulary shared by the C06 (forwarding) and C16 (navigation)
contracts: small real LoopIR procedures with *distinct statement objects*,
an identity-based oracle for "denotes the same statement", and a symbolic
path resolver that never forks (guarded candidates).

Nothing here looks at the index arithmetic of internal_cursors.py: statements
are found in the new tree by object identity (leaf statements and untouched
sub-trees are shared between the trees by the functional update) or, for the
compound statements that are rebuilt on the way from the root to an edit, by
the identity of the unique symbol they carry (`tag`).
"""
from __future__ import annotations
from pyvc import sym as S
from pyvc.sym import SInt, SBool, And, Or, Not, Implies
from pyvc.srange import SRange
from exo.core.LoopIR import LoopIR, T
from exo.core.prelude import Sym, SrcInfo
from exo.core import internal_cursors as IC

SRC = SrcInfo("ghost", 0)
BLOCK_ATTRS = ("body", "orelse")


# ----------------------------------------------------------------------------
# statements with an identity

def leaf(name):
    return LoopIR.Assign(Sym(name), T.f32, [], LoopIR.Const(0.0, T.f32, SRC), SRC)


def mk_for(name, body):
    return LoopIR.For(Sym(name), LoopIR.Const(0, T.int, SRC), LoopIR.Const(8, T.int, SRC),
                      list(body), LoopIR.Seq(), SRC)


def mk_if(name, body, orelse):
    # an If carries no symbol of its own: its identity is a private SrcInfo
    return LoopIR.If(LoopIR.Read(Sym(name), [], T.bool, SRC), list(body), list(orelse),
                     SrcInfo("if_" + name, 0))


def mk_proc(body, name="p"):
    return LoopIR.proc(name, [], [], list(body), None, SRC)


def tag(s):
    """the unique symbol a statement of the generated procedures carries"""
    if isinstance(s, LoopIR.Assign):
        return s.name
    if isinstance(s, LoopIR.For):
        return s.iter
    if isinstance(s, LoopIR.If):
        return s.srcinfo if s.srcinfo is not SRC else None
    return None


def tag_name(s):
    t = tag(s)
    if t is None:
        return type(s).__name__
    if isinstance(t, SrcInfo):
        return t.filename[3:] if str(t.filename).startswith("if_") else str(t.filename)
    return str(t)


def stmt_lists(n):
    """(attr, list) for every statement list of a node"""
    out = []
    for a in BLOCK_ATTRS:
        v = getattr(n, a, None)
        if isinstance(v, list):
            out.append((a, v))
    return out


def all_stmts(root):
    """[(path, stmt)] in pre-order"""
    out = []

    def rec(n, path):
        for a, lst in stmt_lists(n):
            for i, s in enumerate(lst):
                p = path + [(a, i)]
                out.append((p, s))
                rec(s, p)
    rec(root, [])
    return out


def all_blocks(root):
    """[(parent path, attr, list)] for every statement list (including empty ones)"""
    out = [([], a, l) for a, l in stmt_lists(root)]
    for p, s in all_stmts(root):
        for a, l in stmt_lists(s):
            out.append((p, a, l))
    return out


def tags_of(root):
    return {id(tag(s)): s for _, s in all_stmts(root) if tag(s) is not None}


def get_path(root, path):
    n = root
    for a, i in path:
        n = getattr(n, a)
        if i is not None:
            n = n[i]
    return n


# ----------------------------------------------------------------------------
# symbolic ints / ranges that also work in concrete (replay) mode

def is_symbolic(x):
    return isinstance(x, (SInt, SBool))


def mk_range(g, lo, hi):
    if is_symbolic(lo) or is_symbolic(hi):
        return SRange(lo, hi)
    return range(lo, hi)


def g_index(g, name, n):
    """an index into a list of length n (n >= 1), symbolic"""
    i = g.int(name)
    g.assume(And(0 <= i, i < n))
    return i


def g_subrange(g, name, n, nonempty=True):
    lo, hi = g.int(name + "_lo"), g.int(name + "_hi")
    g.assume(And(0 <= lo, (lo < hi) if nonempty else (lo <= hi), hi <= n))
    return lo, hi


def rng_bounds(r):
    return r.start, r.stop


def in_rng(r, k):
    return And(r.start <= k, k < r.stop)


# ----------------------------------------------------------------------------
# resolution with guarded candidates (no forking)

def resolve_g(root, path):
    """-> (ok, [(guard, node)]): `ok` is the condition under which the path
    denotes a node (every index within its list, every attribute present);
    under `ok` exactly one guard holds."""
    cands = [(True, root)]
    ok = True
    for attr, idx in path:
        nxt = []
        for gd, n in cands:
            if isinstance(n, list) or not hasattr(n, attr):
                ok = And(ok, Not(gd))
                continue
            ch = getattr(n, attr)
            if idx is None:
                if isinstance(ch, list):
                    ok = And(ok, Not(gd))
                else:
                    nxt.append((gd, ch))
                continue
            if not isinstance(ch, list):
                ok = And(ok, Not(gd))
                continue
            if is_symbolic(idx):
                ok = And(ok, Implies(gd, And(0 <= idx, idx < len(ch))))
                for k in range(len(ch)):
                    nxt.append((And(gd, idx == k), ch[k]))
            else:
                if 0 <= idx < len(ch):
                    nxt.append((gd, ch[idx]))
                else:
                    ok = And(ok, Not(gd))
        cands = nxt
    return ok, cands


def path_eq(p, q):
    """two cursor paths are equal (term, no fork)"""
    if len(p) != len(q):
        return False
    cs = []
    for (a, i), (b, j) in zip(p, q):
        if a != b:
            return False
        if (i is None) != (j is None):
            return False
        if i is not None:
            cs.append(i == j)
    return And(cs)


def range_eq(r, s):
    """ranges denote the same index set and position (non-empty ranges: same
    bounds; empty ranges are all equal, as in Python)"""
    lr, ls = S.Max(0, r.stop - r.start), S.Max(0, s.stop - s.start)
    return And(lr == ls, Or(lr == 0, r.start == s.start))


def cursor_eq(c, d):
    """structural equality of two internal cursors as a term"""
    if type(c) is not type(d) or c._root is not d._root:
        return False
    if isinstance(c, IC.Node):
        return path_eq(c._path, d._path)
    if isinstance(c, IC.Gap):
        return And(c._type is d._type, cursor_eq(c._anchor, d._anchor))
    return And(c._attr == d._attr, cursor_eq(c._anchor, d._anchor), range_eq(c._range, d._range))


# ----------------------------------------------------------------------------
# running real code either through the interpreter or natively (replay)

class Runner:
    def __init__(self, it=None):
        self.it = it

    def call(self, fn, *args, **kw):
        """-> (result, exception)"""
        if self.it is not None:
            from pyvc.interp import ProgExc
            try:
                return self.it.call(fn, list(args), kw), None
            except ProgExc as pe:
                return None, pe.exc
        try:
            return fn(*args, **kw), None
        except (S.Unsupported, S.PathInfeasible, S.PathEnd):
            raise
        except Exception as e:
            return None, e

    def getattr(self, obj, name):
        if self.it is not None:
            from pyvc.interp import ProgExc
            try:
                return self.it.getattr(obj, name), None
            except ProgExc as pe:
                return None, pe.exc
        try:
            return getattr(obj, name), None
        except (S.Unsupported, S.PathInfeasible, S.PathEnd):
            raise
        except Exception as e:
            return None, e
