"""Ghost vocabulary shared by the C06 (forwarding) and C16 (navigation)
contracts: small real LoopIR procedures with *distinct statement objects*,
an identity-based oracle for "denotes the same statement", and a symbolic
path resolver that never forks (guarded candidates).

Nothing here looks at the index arithmetic of internal_cursors.py: statements
are found in the new tree by object identity (leaf statements and untouched
sub-trees are shared between the trees by the functional update) or, for the
compound statements that are rebuilt on the way from the root to an edit, by
the identity of the unique symbol they carry (`tag`).
"""
from __future__ import annotations
from pyvc import sym as S
from pyvc.sym import SInt, SBool, And, Or, Not, Implies
from pyvc.srange import SRange
from exo.core.LoopIR import LoopIR, T
from exo.core.prelude import Sym, SrcInfo
from exo.core import internal_cursors as IC

SRC = SrcInfo("ghost", 0)
BLOCK_ATTRS = ("body", "orelse")


# ----------------------------------------------------------------------------
# statements with an identity

def leaf(name):
    return LoopIR.Assign(Sym(name), T.f32, [], LoopIR.Const(0.0, T.f32, SRC), SRC)


def mk_for(name, body):
    return LoopIR.For(Sym(name), LoopIR.Const(0, T.int, SRC), LoopIR.Const(8, T.int, SRC),
                      list(body), LoopIR.Seq(), SRC)


def mk_if(name, body, orelse):
    # an If carries no symbol of its own: its identity is a private SrcInfo
    return LoopIR.If(LoopIR.Read(Sym(name), [], T.bool, SRC), list(body), list(orelse),
                     SrcInfo("if_" + name, 0))


def mk_proc(body, name="p"):
    return LoopIR.proc(name, [], [], list(body), None, SRC)


def tag(s):
    """the unique symbol a statement of the generated procedures carries"""
    if isinstance(s, LoopIR.Assign):
        return s.name
    if isinstance(s, LoopIR.For):
        return s.iter
    if isinstance(s, LoopIR.If):
        return s.srcinfo if s.srcinfo is not SRC else None
    return None


def tag_name(s):
    t = tag(s)
    if t is None:
        return type(s).__name__
    if isinstance(t, SrcInfo):
        return t.filename[3:] if str(t.filename).startswith("if_") else str(t.filename)
    return str(t)


def stmt_lists(n):
    """(attr, list) for every statement list of a node"""
    out = []
    for a in BLOCK_ATTRS:
        v = getattr(n, a, None)
        if isinstance(v, list):
            out.append((a, v))
    return out


def all_stmts(root):
    """[(path, stmt)] in pre-order"""
    out = []

    def rec(n, path):
        for a, lst in stmt_lists(n):
            for i, s in enumerate(lst):
                p = path + [(a, i)]
                out.append((p, s))
                rec(s, p)
    rec(root, [])
    return out


def all_blocks(root):
    """[(parent path, attr, list)] for every statement list (including empty ones)"""
    out = [([], a, l) for a, l in stmt_lists(root)]
    for p, s in all_stmts(root):
        for a, l in stmt_lists(s):
            out.append((p, a, l))
    return out


def tags_of(root):
    return {id(tag(s)): s for _, s in all_stmts(root) if tag(s) is not None}


def get_path(root, path):
    n = root
    for a, i in path:
        n = getattr(n, a)
        if i is not None:
            n = n[i]
    return n


# ----------------------------------------------------------------------------
# symbolic ints / ranges that also work in concrete (replay) mode

def is_symbolic(x):
    return isinstance(x, (SInt, SBool))


def mk_range(g, lo, hi):
    if is_symbolic(lo) or is_symbolic(hi):
        return SRange(lo, hi)
    return range(lo, hi)


def g_index(g, name, n):
    """an index into a list of length n (n >= 1), symbolic.  In concrete mode
    (replay, cross-check) an arbitrary leaf value is folded into the valid
    range; valid values (all solver models) are left as they are."""
    i = g.int(name)
    if g.concrete:
        return i % n
    g.assume(And(0 <= i, i < n))
    return i


def g_subrange(g, name, n, nonempty=True):
    lo, hi = g.int(name + "_lo"), g.int(name + "_hi")
    if g.concrete:
        lo, hi = lo % (n + 1), hi % (n + 1)
        if lo > hi:
            lo, hi = hi, lo
        if nonempty and lo == hi:
            if n == 0:
                raise S.PathInfeasible()
            lo, hi = (lo, hi + 1) if hi < n else (lo - 1, hi)
        return lo, hi
    g.assume(And(0 <= lo, (lo < hi) if nonempty else (lo <= hi), hi <= n))
    return lo, hi


def g_above(g, name, lo, strict=True):
    """an integer > lo (>= lo if not strict)"""
    v = g.int(name)
    if g.concrete:
        if (v > lo) if strict else (v >= lo):
            return v
        return lo + (1 if strict else 0) + (lo - v)
    g.assume(v > lo if strict else v >= lo)
    return v


def rng_bounds(r):
    return r.start, r.stop


def in_rng(r, k):
    return And(r.start <= k, k < r.stop)


# ----------------------------------------------------------------------------
# resolution with guarded candidates (no forking)

def resolve_g(root, path):
    """-> (ok, [(guard, node)]): `ok` is the condition under which the path
    denotes a node (every index within its list, every attribute present);
    under `ok` exactly one guard holds."""
    cands = [(True, root)]
    ok = True
    for attr, idx in path:
        nxt = []
        for gd, n in cands:
            if isinstance(n, list) or not hasattr(n, attr):
                ok = And(ok, Not(gd))
                continue
            ch = getattr(n, attr)
            if idx is None:
                if isinstance(ch, list):
                    ok = And(ok, Not(gd))
                else:
                    nxt.append((gd, ch))
                continue
            if not isinstance(ch, list):
                ok = And(ok, Not(gd))
                continue
            if is_symbolic(idx):
                ok = And(ok, Implies(gd, And(0 <= idx, idx < len(ch))))
                for k in range(len(ch)):
                    nxt.append((And(gd, idx == k), ch[k]))
            else:
                if 0 <= idx < len(ch):
                    nxt.append((gd, ch[idx]))
                else:
                    ok = And(ok, Not(gd))
        cands = nxt
    return ok, cands


def path_eq(p, q):
    """two cursor paths are equal (term, no fork)"""
    if len(p) != len(q):
        return False
    cs = []
    for (a, i), (b, j) in zip(p, q):
        if a != b:
            return False
        if (i is None) != (j is None):
            return False
        if i is not None:
            cs.append(i == j)
    return And(cs)


def range_eq(r, s):
    """ranges denote the same index set and position (non-empty ranges: same
    bounds; empty ranges are all equal, as in Python)"""
    lr, ls = S.Max(0, r.stop - r.start), S.Max(0, s.stop - s.start)
    return And(lr == ls, Or(lr == 0, r.start == s.start))


def cursor_eq(c, d):
    """structural equality of two internal cursors as a term"""
    if type(c) is not type(d) or c._root is not d._root:
        return False
    if isinstance(c, IC.Node):
        return path_eq(c._path, d._path)
    if isinstance(c, IC.Gap):
        return And(c._type is d._type, cursor_eq(c._anchor, d._anchor))
    return And(c._attr == d._attr, cursor_eq(c._anchor, d._anchor), range_eq(c._range, d._range))


# ----------------------------------------------------------------------------
# running real code either through the interpreter or natively (replay)

class Runner:
    def __init__(self, it=None):
        self.it = it

    def call(self, fn, *args, **kw):
        """-> (result, exception)"""
        if self.it is not None:
            from pyvc.interp import ProgExc
            try:
                return self.it.call(fn, list(args), kw), None
            except ProgExc as pe:
                return None, pe.exc
        try:
            return fn(*args, **kw), None
        except (S.Unsupported, S.PathInfeasible, S.PathEnd):
            raise
        except Exception as e:
            return None, e

    def getattr(self, obj, name):
        if self.it is not None:
            from pyvc.interp import ProgExc
            try:
                return self.it.getattr(obj, name), None
            except ProgExc as pe:
                return None, pe.exc
        try:
            return getattr(obj, name), None
        except (S.Unsupported, S.PathInfeasible, S.PathEnd):
            raise
        except Exception as e:
            return None, e


# ----------------------------------------------------------------------------
# stable rendering of results (replay text, cross-check comparison): no object
# addresses, no symbol numbers, no procedure text

def show_path(p):
    return "/".join(f"{a}[{i}]" if i is not None else a for a, i in p) or "<root>"


def show_cursor(c):
    if c is None:
        return "None"
    if isinstance(c, IC.Node):
        return f"Node({show_path(c._path)})"
    if isinstance(c, IC.Gap):
        return f"Gap({c._type.name} {show_cursor(c._anchor)})"
    if isinstance(c, IC.Block):
        return f"Block({show_path(c._anchor._path)}.{c._attr}[{c._range.start}:{c._range.stop}])"
    return repr(c)


def stable(v):
    if isinstance(v, IC.Cursor):
        return show_cursor(v)
    if isinstance(v, BaseException):
        return f"{type(v).__name__}"
    if isinstance(v, (list, tuple)):
        inner = ", ".join(stable(x) for x in v)
        return f"[{inner}]" if isinstance(v, list) else f"({inner})"
    if hasattr(v, "_impl") and hasattr(v, "_proc"):            # API cursor
        return f"{type(v).__name__}<{stable(v._impl)}>"
    if v is None or isinstance(v, (bool, int, str)):
        return repr(v)
    if isinstance(v, (SInt, SBool)):
        return str(v)
    return f"<{type(v).__name__}>"


class Outcome:
    """(value, exception) of a driven sequence of calls, with a stable text"""
    def __init__(self, val, exc):
        self.val, self.exc = val, exc

    def __iter__(self):
        return iter((self.val, self.exc))

    def __str__(self):
        return f"raised {stable(self.exc)}" if self.exc is not None else stable(self.val)


# ----------------------------------------------------------------------------
# a statement list of SYMBOLIC length (navigation laws for every block length)

class Elem:
    """the i-th statement of a symbolic-length list: an arbitrary statement,
    identified by its position"""
    def __init__(self, lst, idx):
        self.lst, self.idx = lst, idx

    def __repr__(self):
        return f"<stmt #{self.idx}>"


class SList:
    """model of `list` of statements whose length is a symbolic int n >= 0:
    len, integer indexing with Python's rules (negative from the end,
    IndexError outside).  Nothing else is supported (=> Unsupported)."""
    def __init__(self, n):
        self.n = n

    def _pyvc_len(self):
        return self.n

    def _pyvc_isinstance(self, c):
        return isinstance(c, type) and issubclass(list, c)

    def __len__(self):
        if isinstance(self.n, int):
            return self.n
        raise S.Unsupported("native len() of a symbolic-length list")

    def __getitem__(self, i):
        if isinstance(i, slice):
            raise S.Unsupported("slice of a symbolic-length list")
        if i < 0:
            i = i + self.n
        if 0 <= i and i < self.n:
            return Elem(self, i)
        raise IndexError("list index out of range")

    def __iter__(self):
        raise S.Unsupported("iteration over a symbolic-length list")

    def __repr__(self):
        return f"<list of {self.n} statements>"


class SymRoot:
    """a root whose body is a symbolic-length list"""
    def __init__(self, n):
        self.body = SList(n)

    def __repr__(self):
        return f"<proc with {self.body.n} statements>"
