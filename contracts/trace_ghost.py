"""Ghost *iteration-trace semantics* for the C01 contracts (helper, not a
contract module).

The oracle is the sequential semantics of LoopIR control structure:
  `for i in seq(lo, hi): B`  runs B[i := v] for v = lo, lo+1, ..., hi-1 in this
                              order (zero times when hi <= lo);
  `if c: B1 else: B2`        runs B1 when c holds, else B2;
  a block runs its statements left to right.
An *observable statement* is an assignment / reduction / call / config write;
what is observed of one execution is (tag, values of its index expressions).
The *trace* of a block is the sequence of observations.

Symbolic mode: an `Event` is an observable leaf with the For/If binders around
it; an *instance* gives every enclosing iterator a (universally quantified)
integer; `dom` says when the instance executes, `val` what it observes and
`before` whether one instance executes before another.  All obligations below
are quantifier-free over such instance variables (explicit witnesses are
supplied by the contracts).

Concrete mode (replay): `run_trace` simply executes the control structure.
"""
from __future__ import annotations
from pyvc import sym as S
from pyvc.sym import And, Or, Not, Implies, Ite
from contracts.ghost import rho, SRC
from exo.core.LoopIR import LoopIR, T
from exo.core.prelude import Sym
from exo.core.memory import DRAM


# ----------------------------------------------------------------------------
# little IR builders (real LoopIR nodes, properly typed so that the real
# effect analysis accepts them in the native replay)

def rd(s, t=None):
    return LoopIR.Read(s, [], t or T.index, SRC)

def cst(v):
    return LoopIR.Const(v, T.int, SRC)

def bop(op, a, b, t=None):
    if t is None:
        t = T.bool if op in ("<", "<=", ">", ">=", "==", "and", "or") else T.index
    return LoopIR.BinOp(op, a, b, t, SRC)

def for_(it, lo, hi, body):
    return LoopIR.For(it, lo, hi, body, LoopIR.Seq(), SRC)

def if_(cond, body, orelse=()):
    return LoopIR.If(cond, list(body), list(orelse), SRC)

def assign(buf, idx, val=1.0):
    return LoopIR.Assign(buf, T.f32, list(idx), LoopIR.Const(val, T.f32, SRC), SRC)

def reduce_(buf, idx, val=1.0):
    return LoopIR.Reduce(buf, T.f32, list(idx), LoopIR.Const(val, T.f32, SRC), SRC)

def size_arg(s):
    return LoopIR.fnarg(s, T.size, None, SRC)

def buf_arg(s, dims):
    """f32 tensor argument with literal extents (accesses are not bounds-checked
    by the rewrites under contract; the extents only make the node well formed)"""
    if not dims:
        return LoopIR.fnarg(s, T.f32, DRAM, SRC)
    return LoopIR.fnarg(s, T.Tensor([cst(d) for d in dims], False, T.f32), DRAM, SRC)

def mk_proc(args, preds, body):
    return LoopIR.proc("p", list(args), list(preds), list(body), None, SRC)


_CFG = None

def cfg():
    """one configuration object with an index field `a` (created lazily)"""
    global _CFG
    if _CFG is None:
        from exo.core.configs import Config
        from exo.core.LoopIR import UAST
        _CFG = Config("CfgC01", [("a", UAST.Index())], False)
    return _CFG

def cfg_read():
    return LoopIR.ReadConfig(cfg(), "a", T.index, SRC)

def cfg_write(e):
    return LoopIR.WriteConfig(cfg(), "a", e, SRC)


# ----------------------------------------------------------------------------
# values of index / boolean expressions

def cfg_val(config, field):
    """value of a configuration field in the (arbitrary, fixed) initial state"""
    ctx = S.cur()
    tab = ctx.ghost.setdefault("cfgval", {})
    k = (id(config), field)
    if k not in tab:
        tab[k] = ctx.fresh_int(f"cfg_{field}")
    return tab[k]


def evx(e, env=None):
    """value of `e`: iterators from `env` (id(sym) -> term), arguments from rho"""
    env = env or {}
    if isinstance(e, (int, bool, S.SInt, S.SBool)):
        return e
    if isinstance(e, LoopIR.Const):
        return e.val
    if isinstance(e, LoopIR.Read):
        assert len(e.idx) == 0, "evx of a non-scalar read"
        k = id(e.name)
        return env[k] if k in env else rho(e.name)
    if isinstance(e, LoopIR.ReadConfig):
        return cfg_val(e.config, e.field)
    if isinstance(e, LoopIR.USub):
        return -evx(e.arg, env)
    if isinstance(e, LoopIR.BinOp):
        a, b = evx(e.lhs, env), evx(e.rhs, env)
        op = e.op
        if op == "+":
            return a + b
        if op == "-":
            return a - b
        if op == "*":
            return a * b
        if op == "/":
            return S.floordiv(a, b)
        if op == "%":
            return S.mod(a, b)
        if op == "<":
            return a < b
        if op == "<=":
            return a <= b
        if op == ">":
            return a > b
        if op == ">=":
            return a >= b
        if op == "==":
            return a == b
        if op == "and":
            return And(a, b)
        if op == "or":
            return Or(a, b)
    raise AssertionError(f"evx: unsupported expression {type(e).__name__}")


def lex_lt(u, w):
    """strict lexicographic order on equally long tuples"""
    assert len(u) == len(w)
    out, eq = [], True
    for a, b in zip(u, w):
        out.append(And(eq, a < b))
        eq = And(eq, a == b)
    return Or(out) if out else False


def tup_eq(u, w):
    assert len(u) == len(w)
    return And([a == b for a, b in zip(u, w)])


# ----------------------------------------------------------------------------
# events

ORELSE = 1000


class Event:
    def __init__(self, stmt, tag, idx, binders, path):
        self.stmt, self.tag, self.idx, self.binders, self.path = stmt, tag, idx, binders, path

    def iters(self):
        return [b[1].iter for b in self.binders if b[0] == "for"]

    def __repr__(self):
        return f"<event {self.tag} at {self.path}>"


def tag_of(s):
    """what identifies an observable statement (everything but its indices)"""
    if isinstance(s, (LoopIR.Assign, LoopIR.Reduce)):
        rhs = s.rhs.val if isinstance(s.rhs, LoopIR.Const) else id(s.rhs)
        return (type(s).__name__, id(s.name), rhs)
    # configuration writes are not traced: what they can disturb is a guard that reads the field, and that
    # is the subject of the separate `guard is stable` obligation (cfg_reads / cfg_writes below)
    if isinstance(s, LoopIR.Call):
        return ("Call", id(s.f))
    return None


def events(stmts, binders=(), path=()):
    out = []
    for k, s in enumerate(stmts):
        p = path + (k,)
        if isinstance(s, LoopIR.For):
            out += events(s.body, binders + (("for", s),), p)
        elif isinstance(s, LoopIR.If):
            out += events(s.body, binders + (("if", s, True),), p)
            sub = events(s.orelse, binders + (("if", s, False),), p)
            for e in sub:
                e.path = e.path[:len(p)] + (e.path[len(p)] + ORELSE,) + e.path[len(p) + 1:]
            out += sub
        else:
            t = tag_of(s)
            if t is not None:
                idx = list(s.idx) if isinstance(s, (LoopIR.Assign, LoopIR.Reduce)) else \
                    ([s.rhs] if isinstance(s, LoopIR.WriteConfig) else list(s.args))
                out.append(Event(s, t, idx, binders, p))
    return out


def inst(e, prefix):
    """a fresh (universally quantified) instance of event e"""
    ctx = S.cur()
    env = {}
    for b in e.binders:
        if b[0] == "for":
            env[id(b[1].iter)] = ctx.fresh_int(f"{prefix}_{b[1].iter.name()}")
    return env


def dom(e, env):
    """the instance executes: every enclosing loop's iterator is within its bounds and every enclosing guard
    holds - each evaluated in the scope of the binders *outside* it only (a name that is not bound there
    denotes whatever the procedure's arguments give it, i.e. an arbitrary value)"""
    cs = []
    scope = {}
    for b in e.binders:
        if b[0] == "for":
            it = env[id(b[1].iter)]
            cs.append(evx(b[1].lo, scope) <= it)
            cs.append(it < evx(b[1].hi, scope))
            scope = {**scope, id(b[1].iter): it}
        else:
            c = evx(b[1].cond, scope)
            cs.append(c if b[2] else Not(c))
    return And(cs)


def val(e, env):
    return tuple(evx(i, env) for i in e.idx)


def before(a, ea, b, eb):
    """instance (a, ea) executes strictly before instance (b, eb)"""
    n = 0
    while n < len(a.binders) and n < len(b.binders) and a.path[:n + 1] == b.path[:n + 1]:
        n += 1
    out, eq = [], True
    for k in range(n):
        if a.binders[k][0] == "for":
            ia, ib = ea[id(a.binders[k][1].iter)], eb[id(b.binders[k][1].iter)]
            out.append(And(eq, ia < ib))
            eq = And(eq, ia == ib)
    if a.path[n:] < b.path[n:]:
        out.append(eq)
    return Or(out) if out else False


# ----------------------------------------------------------------------------
# obligations (symbolic)

def default_witness(evs):
    """candidates for 'which instance observes the value tuple v': an event whose index expressions are
    exactly its own iterators (x[i], x[i, j]) with those iterators set to v; an event outside any loop"""
    def wit(v):
        out = []
        for e in evs:
            its = e.iters()
            if its and len(e.idx) == len(its) == len(v) and all(
                    isinstance(x, LoopIR.Read) and x.name is it for x, it in zip(e.idx, its)):
                out.append((e, {id(it): x for it, x in zip(its, v)}))
            elif not its:
                out.append((e, {}))
        return out
    return wit


def contained(src, dst, wit, label):
    """for every instance of `src` events there is an instance of a `dst` event
    with the same tag observing the same values; `wit(e, env, v)` or `wit(v)`
    lists the candidate (event, env) pairs"""
    cs = []
    for k, e in enumerate(src):
        env = inst(e, f"{label}{k}")
        v = val(e, env)
        cands = [(d, denv) for d, denv in wit(v) if d.tag == e.tag]
        hit = Or([And(dom(d, denv), tup_eq(val(d, denv), v)) for d, denv in cands])
        cs.append(Implies(dom(e, env), hit))
    return And(cs)


def increasing(evs, label, same_tag_only=False):
    """executing earlier implies observing a lexicographically smaller value"""
    cs = []
    for i, a in enumerate(evs):
        for j, b in enumerate(evs):
            if same_tag_only and a.tag != b.tag:
                continue
            if len(a.idx) != len(b.idx):
                return False
            ea, eb = inst(a, f"{label}{i}a"), inst(b, f"{label}{j}b")
            cs.append(Implies(And(dom(a, ea), dom(b, eb), before(a, ea, b, eb)),
                              lex_lt(val(a, ea), val(b, eb))))
    return And(cs)


# ----------------------------------------------------------------------------
# concrete execution (replay)

def run_trace(stmts, env=None, out=None, budget=None):
    env = dict(env or {})
    out = [] if out is None else out
    budget = budget if budget is not None else [200000]
    for s in stmts:
        if isinstance(s, LoopIR.For):
            lo, hi = evx(s.lo, env), evx(s.hi, env)
            for v in range(lo, hi):
                budget[0] -= 1
                if budget[0] < 0:
                    raise AssertionError("trace too long")
                env[id(s.iter)] = v
                run_trace(s.body, env, out, budget)
            env.pop(id(s.iter), None)
        elif isinstance(s, LoopIR.If):
            run_trace(s.body if evx(s.cond, env) else s.orelse, env, out, budget)
        else:
            t = tag_of(s)
            if t is not None:
                idx = list(s.idx) if isinstance(s, (LoopIR.Assign, LoopIR.Reduce)) else \
                    ([s.rhs] if isinstance(s, LoopIR.WriteConfig) else list(s.args))
                out.append((t, tuple(evx(i, env) for i in idx)))
    return out


def counts(trace):
    c = {}
    for x in trace:
        c[x] = c.get(x, 0) + 1
    return c


def per_tag(trace):
    d = {}
    for t, v in trace:
        d.setdefault(t, []).append(v)
    return d


# ----------------------------------------------------------------------------
# configuration state read / written (for the `guard is stable` obligations)

def cfg_reads(e):
    if isinstance(e, LoopIR.ReadConfig):
        return {(id(e.config), e.field)}
    out = set()
    for f in ("lhs", "rhs", "arg"):
        x = getattr(e, f, None)
        if isinstance(x, LoopIR.expr):
            out |= cfg_reads(x)
    for x in getattr(e, "idx", []) or []:
        if isinstance(x, LoopIR.expr):
            out |= cfg_reads(x)
    return out


def cfg_writes(stmts):
    out = set()
    for s in stmts:
        if isinstance(s, LoopIR.WriteConfig):
            out.add((id(s.config), s.field))
        elif isinstance(s, LoopIR.For):
            out |= cfg_writes(s.body)
        elif isinstance(s, LoopIR.If):
            out |= cfg_writes(s.body) | cfg_writes(s.orelse)
        elif isinstance(s, LoopIR.Call):
            out |= cfg_writes(s.f.body)
    return out


# ----------------------------------------------------------------------------
# modular Check_* callees: success postconditions, recorded calls

def sched_error(msg="check failed"):
    from exo.rewrite.new_eff import SchedulingError
    e = SchedulingError.__new__(SchedulingError)
    Exception.__init__(e, msg)
    return e


def check_callee(name, holds=None, flag=None, note=""):
    """kwargs for Contract.callee: the check either raises SchedulingError (no
    information) or returns, in which case `holds(a)` is assumed (the property
    the SMT query establishes for every input admitted by the procedure's
    assertions, hence for rho) and the call is recorded in the ghost log."""
    from pyvc.interp import ProgExc

    def result(g, a):
        if g.choose(["succeeds", "fails"], name) == "fails":
            raise ProgExc(sched_error(f"{name} failed"))
        g.ghost.setdefault("checks", []).append((name, a))
        return None

    return dict(result=result, ensures=(lambda a: holds(a)) if holds else None, assumed=True,
                note=note or f"{name}: returns only if the condition it is asked about holds for every "
                             f"admitted input (SMT-backed; see c01_conditions / c01_smt)")


def _cmp(op, u, w):
    return {">": u > w, ">=": u >= w, "<": u < w, "<=": u <= w, "==": u == w}[op]


CHECKS = {
    "Check_IsPositiveExpr": check_callee("Check_IsPositiveExpr", lambda a: evx(a.expr) > 0),
    "Check_IsNonNegativeExpr": check_callee("Check_IsNonNegativeExpr", lambda a: evx(a.expr) >= 0),
    "Check_CompareExprs": check_callee("Check_CompareExprs", lambda a: _cmp(a.op, evx(a.lhs), evx(a.rhs))),
    "Check_ExprBound": check_callee("Check_ExprBound", lambda a: _cmp(a.op, evx(a.expr), a.value)),
    "Check_IsDivisible": check_callee("Check_IsDivisible", lambda a: S.mod(evx(a.expr), a.quot) == 0),
    "Check_ExprEqvInContext": check_callee(
        "Check_ExprEqvInContext",
        lambda a: (lambda u, w: S.Iff(u, w) if isinstance(u, (bool, S.SBool)) or isinstance(w, (bool, S.SBool))
                   else u == w)(evx(a.expr0), evx(a.expr1))),
    "Check_IsIdempotent": check_callee("Check_IsIdempotent"),
    "Check_FissionLoop": check_callee("Check_FissionLoop"),
    "Check_ReorderStmts": check_callee("Check_ReorderStmts"),
    "Check_ReorderLoops": check_callee("Check_ReorderLoops"),
    "Check_IsDeadAfter": check_callee("Check_IsDeadAfter"),
}


def use_checks(c, *names):
    for n in names:
        c.callee(n, **CHECKS[n])


def calls(a, name):
    return [x for n, x in a.g.ghost.get("checks", []) if n == name]


def quiet_scheduling_errors():
    """SchedulingError.__init__ walks the whole Python stack with inspect.stack() to find the name of the
    scheduling operation for its *message*.  Under pyvc's deep interpreter recursion (and the 2^18-local
    frame of the pool workers) that costs seconds per raise.  Only the message text depends on it (exception
    messages are dropped by the extraction anyway), so the checker process replaces the stack walk."""
    from exo.rewrite import new_eff
    new_eff.SchedulingError._get_scheduling_ops = staticmethod(lambda: ["<scheduling operation>"])


class _ShallowInspect:
    """stands in for the `inspect` module inside exo.frontend.pattern_match: match_pattern calls
    inspect.stack() only to read the file name / line / locals of its *direct caller* (for error positions and
    `$`-unquoting); materialising the whole stack costs one source lookup (os.stat) per frame, i.e. seconds
    under pyvc's deep interpreter recursion.  The shim returns the innermost frames only."""
    def __init__(self):
        import inspect
        self._inspect = inspect

    def stack(self, context=1):
        import sys
        f = sys._getframe(1)
        out = []
        while f is not None and len(out) < 6:
            out.append(self._inspect.FrameInfo(f, f.f_code.co_filename, f.f_lineno, f.f_code.co_name, None, None))
            f = f.f_back
        return out

    def __getattr__(self, name):
        return getattr(self._inspect, name)


def checker_shims():
    """performance shims of the checker process (no effect on what the verified functions compute)"""
    quiet_scheduling_errors()
    import exo.frontend.pattern_match as PM
    if not isinstance(PM.inspect, _ShallowInspect):
        PM.inspect = _ShallowInspect()
