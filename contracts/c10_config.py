"""C10 - configuration rewrites report every field they may change.

Property sentences used (properties.jsonl, C10): "... report a set of
configuration fields such that every field whose final value can differ from
the original procedure's is in that set; a configuration value that is read
later in the procedure is never changed.  call_eqv only substitutes a callee
derived from the same origin by equivalence-preserving steps."

Part A (sub-engine B, DESIGN 2.6): `Check_DeleteConfigWrite`, `Check_ExtendEqv`
  The real functions of src/exo/rewrite/new_eff.py run natively.  Stubbed is
  what is assumed anyway (data-flow / effect extraction):
    * `ContextExtraction(proc, stmts)`: control predicate = a ternary atom P,
      `get_pre_globenv()` = a real `AEnv` binding every field f to a classical
      atom pre_f ("value of f on entry to the statements"), `get_posteffs()` = an
      effect token;
    * `globenv(stmts)` = a real `AEnv` binding f to a *ternary* atom post_f
      ("value of f after the statements", possibly unknown to the analysis);
    * `stmts_effs` = an effect token, `getsets(codes, effs)` = one abstract
      location set per (effect token, code);
    * `get_point_exprs(WrG)` = the configuration fields that may be written;
    * `is_elem(pt, ls)` / `is_empty(ls)` = ternary atoms;
    * `SMTSolver.verify(phi)`: phi is simplified and lowered by the *real*
      `A.expr.simplify` / `SMTSolver._lower` (Kleene lowering of Maybe /
      Definitely / ==> / == / or / Let with (value, defined) pairs); the z3
      term that would be negated and handed to z3 is captured and the answer
      is scripted.  All answer sequences are enumerated (decision tree).
  A ternary atom (v, d) *soundly represents* a classical fact b iff d ==> v = b
  (DESIGN 2.5).  For every path that returns normally with set R, z3 proves
  from  { captured term | answer was True }  and the representation axioms:
    (i)   Mod subset of WrG: the statements modify configuration state only
          [Check_DeleteConfigWrite only];
    (ii)  for every field f that may be written (resp. every key of cfg_mod):
          f is read afterwards ==> its value is unchanged (pre_f = post_f,
          resp. reached ==> post0_f = post1_f);
    (iii) for every such f not in R:  f unchanged  or  f overwritten afterwards;
    (iv)  R contains only such fields.
  Bounded part (stated): the number of fields is 1..3 (the loops over fields
  are executed, not cut); the atoms' values are unconstrained.
  A handful of real procedures goes through the real, unstubbed checks as
  witnesses (sampled, not proof): they give the failing input for the replay.

Part B (pyvc contracts on the real AST): `DoConfigWrite`, `DoBindConfig`,
  `DoDeleteConfig`, `DoCallSwap` (LoopIR_scheduling.py), `write_config`,
  `bind_config`, `delete_config`, `call_eqv` (API_scheduling.py) and
  `Procedure.__init__` (API.py): the set returned by the check is the set given
  to `derive_proc`, the check is asked about the statement actually
  inserted / deleted in the procedure that contains it, `call_eqv` proceeds only
  if `get_strictest_eqv_proc` relates the two callees and passes exactly the
  keys it returned to `Check_ExtendEqv` (C11 proves that these are the fields
  on which the two callees may differ).
"""
from __future__ import annotations
import os, time, traceback, itertools
import z3

from pyvc.contract import contract
from pyvc import sym as S
from pyvc.sym import And, Or, Not, Implies
from pyvc.interp import ProgExc
from contracts.ghost import SRC
from exo.core.LoopIR import LoopIR, T
from exo.core.prelude import Sym, SrcInfo
from exo.core.memory import DRAM

FN = "src/exo/rewrite/new_eff.py"
FS = "src/exo/rewrite/LoopIR_scheduling.py"
FA = "src/exo/API_scheduling.py"
FP = "src/exo/API.py"
TGT_D = FN + "::Check_DeleteConfigWrite [formulas]"
TGT_E = FN + "::Check_ExtendEqv [formulas]"

ASSUMPTIONS = [
    "C10: ContextExtraction (control predicate, pre-environment, post-effects), globenv, stmts_effs, getsets, "
    "get_point_exprs, is_elem and is_empty are sound: the ternary formulas they build represent (d ==> v = b) the "
    "classical facts 'control may reach the statements', 'value of field f after the statements', 'f is read / "
    "overwritten afterwards', 'the location set is empty'; get_point_exprs(WrG) lists every field the statements "
    "may write",
    "C10: SMTSolver.verify(phi) returns True only if z3 finds the negation of the lowered phi unsatisfiable; "
    "simplification and the Kleene lowering themselves are *executed* (real A.expr.simplify and SMTSolver._lower) "
    "on the captured formulas, only the final z3 answer is scripted",
    "C10: 'buffer results identical' for write_config/bind_config/delete_config rests on obligation (i) (only "
    "configuration state is modified) and, for bind_config, on the substituted read having the value just written "
    "(not covered here: C01's rewrite obligations)",
    "C10: Check_DeleteConfigWrite / Check_ExtendEqv are examined for 1, 2 and 3 candidate fields (the loops over the "
    "fields are executed, not cut) and for every sequence of solver answers; per field the atoms are unconstrained",
    "C10: the argument processors of the API wrappers (cursor forwarding, ConfigA, NewExprA) are not covered here "
    "(C06/C16)",
]


class Unsupported(Exception):
    pass


# ============================================================================
# Part A: capture
# ============================================================================

_CFG = None


def _config():
    """one real Config with an index, a bool and an f32 field (types decide how
    Check_ExtendEqv builds the variable and how the solver declares it)"""
    global _CFG
    if _CFG is None:
        from exo.core.configs import Config
        from exo.core.LoopIR import UAST
        _CFG = Config("CfgC10", [("a", UAST.Index()), ("b", UAST.Bool()), ("c", UAST.F32())], False)
    return _CFG


def _fields(n):
    cfg = _config()
    return [(cfg._INTERNAL_sym(nm), cfg.lookup_type(nm)) for nm in ("a", "b", "c")[:n]]


class Oracle:
    """scripted answers of verify(); unexplored alternatives are queued"""
    def __init__(self, prefix):
        self.prefix = list(prefix)
        self.trace = []
        self.alts = []

    def answer(self):
        i = len(self.trace)
        if i < len(self.prefix):
            d = self.prefix[i]
        else:
            d = True
            self.alts.append(self.trace + [False])
        self.trace.append(d)
        return d


def capture(which, nfields, prefix):
    """Runs the real check with the stubs installed and the scripted solver
    answers; returns the record of the run."""
    import exo.rewrite.new_eff as NE
    from exo.rewrite.new_analysis_core import A, TernVal, aeNegPos, SMTSolver
    import exo.rewrite.analysis_simplify  # noqa: F401  (defines A.expr.simplify)
    ES, E, LS, AEnv, APoint = NE.ES, NE.E, NE.LS, NE.AEnv, NE.APoint
    src = SrcInfo("c10", 0)
    fields = _fields(nfields)
    orc = Oracle(prefix)
    rec = dict(which=which, fields=fields, asked=[], tern={}, elem={}, empty={}, sets={}, ctxt=[], orc=orc,
               protocol=[], pushes=0, pops=0, z3={})
    P = Sym("P")
    rec["P"] = P
    rec["tern"][P] = ("bool", "P")

    def atom_type(typ):
        return T.bool if typ == T.bool else typ

    pre = {f: Sym("pre_" + f.name()) for f, _ in fields}
    rec["pre"] = pre

    def mk_post(tag):
        d = {}
        for f, typ in fields:
            s = Sym(f"post{tag}_" + f.name())
            rec["tern"][s] = ("bool" if typ == T.bool else "int", f"post{tag}", f)
            d[f] = s
        return d

    s_ins = LoopIR.Pass(src)
    s_new = LoopIR.Pass(src)
    stmts0, stmts1 = [s_ins], [s_new]
    proc = LoopIR.proc("p", [], [], [s_ins], None, src)
    post = {id(stmts0): mk_post("0")}
    if which == "extend":
        post[id(stmts1)] = mk_post("1")
    rec["post"] = {0: post[id(stmts0)], 1: post.get(id(stmts1))}

    def env_of(binding):
        env = AEnv()
        for f, typ in fields:
            env = env + AEnv(f, A.Var(binding[f], atom_type(typ), src))
        return env

    G = env_of(pre)
    tok_stmts = E.Alloc(Sym("effects_of_stmts"), 0)
    tok_post = E.Alloc(Sym("effects_after_stmts"), 0)

    class FakeCtxt:
        def __init__(self, p, stmts):
            rec["ctxt"].append((p, stmts))

        def get_control_predicate(self):
            return A.Var(P, T.bool, src)

        def get_pre_globenv(self):
            return G

        def get_posteffs(self):
            return [tok_post]

    def stmts_effs(stmts):
        if stmts is not stmts0:
            raise Unsupported("effects of something that is not the focused statement block")
        return [tok_stmts]

    def globenv(stmts):
        if id(stmts) not in post:
            raise Unsupported("globenv of an unexpected statement block")
        return env_of(post[id(stmts)])

    def locset(tag, code):
        key = (tag, code.name)
        if key not in rec["sets"]:
            s = Sym(f"{code.name}_{tag}")
            rec["sets"][key] = s
            rec["sets"][s] = key
        return LS.WholeBuf(rec["sets"][key], 0)

    def getsets(codes, effs):
        effs = list(effs)
        if effs == [tok_post]:
            tag = "after"
        else:
            # the effects of the statements must be taken in the entry state (G)
            # and under "control may reach them"
            ok = (len(effs) == 1 and isinstance(effs[0], E.Guard)
                  and isinstance(effs[0].cond, A.Maybe) and isinstance(effs[0].cond.arg, A.Var)
                  and effs[0].cond.arg.name is P and len(effs[0].body) == 2
                  and isinstance(effs[0].body[0], E.BindEnv) and effs[0].body[0].env is G
                  and effs[0].body[1] is tok_stmts)
            if not ok:
                rec["protocol"].append("effects of the statements are not taken as Guard(Maybe(P), G(stmts_effs(stmts)))")
            tag = "stmts"
        return [locset(tag, c) for c in codes]

    def get_point_exprs(ls):
        if not (isinstance(ls, LS.WholeBuf) and rec["sets"].get(ls.name) == ("stmts", "WRITE_G")):
            rec["protocol"].append("candidate fields are not taken from the globals written by the statements")
        return [APoint(f, [], typ) for f, typ in fields]

    def is_elem(pt, ls, win_map=None, alloc_masks=None):
        if not (isinstance(ls, LS.WholeBuf) and ls.name in rec["sets"]):
            raise Unsupported("membership in a derived location set")
        key = (pt.name, rec["sets"][ls.name])
        if key not in rec["elem"]:
            s = Sym(f"elem_{pt.name.name()}_{ls.name.name()}")
            rec["elem"][key] = s
            rec["tern"][s] = ("bool", "elem", key)
        return A.Var(rec["elem"][key], T.bool, src)

    def is_empty(ls):
        s = Sym("empty")
        rec["empty"][s] = ls
        rec["tern"][s] = ("bool", "empty", ls)
        return A.Var(s, T.bool, src)

    class CapturingSolver(SMTSolver):
        def __init__(self, verbose=False):
            super().__init__(verbose=False)
            for s, info in rec["tern"].items():
                self._bind_atom(s, info)

        def _bind_atom(self, s, info):
            if s not in rec["z3"]:
                nm = f"{s.name()}#{len(rec['z3'])}"
                v = z3.Bool(nm + "!v") if info[0] == "bool" else z3.Int(nm + "!v")
                rec["z3"][s] = (v, z3.Bool(nm + "!d"))
            self.env[s] = TernVal(*rec["z3"][s])

        def push(self):
            rec["pushes"] += 1
            self.internal_push()

        def pop(self):
            rec["pops"] += 1
            self.internal_pop()

        def assume(self, e):
            raise Unsupported("assumption added to the solver")

        def verify(self, e):
            for s, info in rec["tern"].items():
                if s not in self.env:
                    self._bind_atom(s, info)
            e2 = e.simplify()
            self.internal_push()
            self._add_free_vars(e2)
            self.negative_pos = aeNegPos(e2, "+")
            smt_e = self._lower(e2)
            self.internal_pop()
            if isinstance(smt_e, TernVal):
                raise Unsupported("a ternary formula is handed to the solver")
            ans = orc.answer()
            rec["asked"].append((e, smt_e, ans))
            return ans

    patch = dict(ContextExtraction=FakeCtxt, SMTSolver=CapturingSolver, stmts_effs=stmts_effs, globenv=globenv,
                 getsets=getsets, get_point_exprs=get_point_exprs, is_elem=is_elem, is_empty=is_empty)
    old = {k: getattr(NE, k) for k in patch}
    for k, v in patch.items():
        setattr(NE, k, v)
    import exo.rewrite.new_analysis_core as NAC
    old_factory = NAC._get_smt_solver
    NAC._get_smt_solver = lambda: None       # the pysmt back end is never used by the capturing solver
    try:
        try:
            if which == "delete":
                rec["result"] = NE.Check_DeleteConfigWrite(proc, stmts0)
            else:
                rec["result"] = NE.Check_ExtendEqv(proc, stmts0, stmts1, {f for f, _ in fields})
            rec["raised"] = None
        except NE.SchedulingError as e:
            rec["result"], rec["raised"] = None, e
    finally:
        NAC._get_smt_solver = old_factory
        for k, v in old.items():
            setattr(NE, k, v)
    rec.update(proc=proc, stmts0=stmts0, stmts1=stmts1, LS=LS, A=A)
    return rec


# ============================================================================
# Part A: classical reading and the obligations
# ============================================================================

Loc = z3.DeclareSort("LocC10")


class Sem:
    """z3 side of one captured run: representation axioms of the atoms"""
    def __init__(self, rec):
        self.rec = rec
        self.axioms = []
        self.cl = {}
        self.setfn = {}
        for s, info in rec["tern"].items():
            if s not in rec["z3"]:
                continue                      # never reached the solver
            v, d = rec["z3"][s]
            if info[1] == "empty":
                x = z3.Const("x!e", Loc)
                b = z3.ForAll([x], z3.Not(self.member(info[2], x)))
            else:
                b = z3.Const(str(v)[:-2] + "!c", v.sort())
            self.cl[s] = b
            self.axioms.append(z3.Implies(d, v == b))

    def setpred(self, key):
        if key not in self.setfn:
            self.setfn[key] = z3.Function(f"{key[1]}_{key[0]}", Loc, z3.BoolSort())
        return self.setfn[key]

    def member(self, ls, x):
        LS = self.rec["LS"]
        if isinstance(ls, LS.Empty):
            return z3.BoolVal(False)
        if isinstance(ls, LS.WholeBuf) and ls.name in self.rec["sets"]:
            return self.setpred(self.rec["sets"][ls.name])(x)
        if isinstance(ls, LS.Union):
            return z3.Or(self.member(ls.lhs, x), self.member(ls.rhs, x))
        if isinstance(ls, LS.Isct):
            return z3.And(self.member(ls.lhs, x), self.member(ls.rhs, x))
        if isinstance(ls, LS.Diff):
            return z3.And(self.member(ls.lhs, x), z3.Not(self.member(ls.rhs, x)))
        raise Unsupported(f"location set {type(ls).__name__}")

    def pre(self, f, typ):
        s = self.rec["pre"][f]
        return z3.Bool(repr(s)) if typ == T.bool else z3.Int(repr(s))

    def post(self, k, f):
        return self.cl[self.rec["post"][k][f]]

    def elem(self, f, tag, code):
        """classical 'f is in the set'; an atom the code never asked about is
        an unconstrained fact"""
        s = self.rec["elem"].get((f, (tag, code)))
        if s is None:
            return z3.Bool(f"unasked_{f.name()}_{code}_{tag}")
        return self.cl[s]

    def P(self):
        return self.cl[self.rec["P"]]


def _check(hyps, goal, tmo):
    s = z3.Solver()
    s.set("timeout", tmo)
    for h in hyps:
        s.add(h)
    s.add(z3.Not(goal))
    t0 = time.time()
    r = s.check()
    return r, time.time() - t0


def explore(which, nfields, max_runs=5000):
    """all answer sequences of the scripted solver"""
    work, out = [[]], []
    while work:
        prefix = work.pop()
        rec = capture(which, nfields, prefix)
        out.append(rec)
        work.extend(rec["orc"].alts)
        if len(out) > max_runs:
            raise Unsupported("too many solver-answer sequences")
    return out


# ----------------------------------------------------------------------------
# witnesses: real procedures through the real, unstubbed operations

WITNESS_SRC = '''
from __future__ import annotations
from exo import proc, config
from exo.stdlib.scheduling import *

@config
class CFG:
    a: index
    b: index

@config
class CFGR:
    s: f32

@proc
def read_later(N: size, x: R[N]):
    CFG.a = 3
    for i in seq(0, N):
        if i < CFG.a:
            x[i] = x[i] + 1.0

@proc
def not_read(N: size, x: R[N]):
    CFG.a = 3
    for i in seq(0, N):
        x[i] = x[i] + 1.0

@proc
def shadowed(N: size, x: R[N]):
    CFG.a = 34
    CFG.a = 3
    for i in seq(0, N):
        if i < CFG.a:
            x[i] = x[i] + 1.0

@proc
def overwritten_later(N: size, x: R[N]):
    CFG.a = 34
    for i in seq(0, N):
        x[i] = x[i] + 1.0
    CFG.a = 3

@proc
def scaled(N: size, x: f32[N], s: f32):
    for i in seq(0, N):
        x[i] = x[i] * s

@proc
def set_ab():
    CFG.a = 3
    CFG.b = 5

@proc
def set_ab_twin():
    CFG.a = 3
    CFG.b = 5

@proc
def caller_reads(N: size, x: R[N]):
    set_ab()
    for i in seq(0, N):
        if i < CFG.a:
            x[i] = x[i] + 1.0

@proc
def caller_ignores(N: size, x: R[N]):
    set_ab()
    for i in seq(0, N):
        x[i] = x[i] + 1.0

@proc
def caller_overwrites(N: size, x: R[N]):
    set_ab()
    CFG.a = 7
    for i in seq(0, N):
        if i < CFG.a:
            x[i] = x[i] + 1.0

def cases():
    set_b = delete_config(set_ab, "CFG.a = _")          # equivalent to set_ab modulo {CFG_a}
    return [
        ("delete_config of a write that is read later",
         read_later, lambda: delete_config(read_later, "CFG.a = _"), None),
        ("delete_config of a write that nobody reads",
         not_read, lambda: delete_config(not_read, "CFG.a = _"), ["CFG_a"]),
        ("delete_config of a write that is overwritten before the read",
         shadowed, lambda: delete_config(shadowed, "CFG.a = _ #0"), []),
        ("delete_config of the write whose value is read",
         shadowed, lambda: delete_config(shadowed, "CFG.a = _ #1"), None),
        ("delete_config of a write that is overwritten at the end",
         overwritten_later, lambda: delete_config(overwritten_later, "CFG.a = _ #0"), []),
        ("write_config of a field nobody reads",
         not_read, lambda: write_config(not_read, not_read.find_loop("i").after(), CFG, "b", "4"), ["CFG_b"]),
        ("write_config of a different value to a field that is read later",
         read_later, lambda: write_config(read_later, read_later.find_loop("i").before(), CFG, "a", "5"), None),
        ("write_config of the same value to a field that is read later",
         read_later, lambda: write_config(read_later, read_later.find_loop("i").before(), CFG, "a", "3"), []),
        ("bind_config of a scalar argument",
         scaled, lambda: bind_config(scaled, "s", CFGR, "s"), ["CFGR_s"]),
        ("call_eqv (callees differ on CFG_a) where CFG_a is read afterwards",
         caller_reads, lambda: call_eqv(caller_reads, "set_ab()", set_b), None),
        ("call_eqv (callees differ on CFG_a) where nobody reads CFG_a",
         caller_ignores, lambda: call_eqv(caller_ignores, "set_ab()", set_b), ["CFG_a"]),
        ("call_eqv (callees differ on CFG_a) where CFG_a is overwritten before the read",
         caller_overwrites, lambda: call_eqv(caller_overwrites, "set_ab()", set_b), []),
        ("call_eqv with a callee that was not derived from the original one",
         caller_ignores, lambda: call_eqv(caller_ignores, "set_ab()", set_ab_twin), None),
    ]
'''


def run_witnesses():
    """[(name, expected, observed)]; expected/observed: None = rejected with a
    SchedulingError, list = accepted and get_strictest_eqv_proc(original,
    result) reports exactly these fields"""
    import importlib.util, tempfile, shutil
    from exo.rewrite.new_eff import SchedulingError
    from exo.core.proc_eqv import get_strictest_eqv_proc
    d = tempfile.mkdtemp(prefix="pyvc_c10_", dir="/var/tmp")
    try:
        p = os.path.join(d, "c10_witness_procs.py")
        with open(p, "w") as f:
            f.write(WITNESS_SRC)
        spec = importlib.util.spec_from_file_location("c10_witness_procs", p)
        mod = importlib.util.module_from_spec(spec)
        import sys as _sys
        _sys.modules["c10_witness_procs"] = mod       # inspect.getsource of the @config classes needs it
        try:
            spec.loader.exec_module(mod)
            cases = mod.cases()
        finally:
            _sys.modules.pop("c10_witness_procs", None)
        out = []
        for name, orig, op, expected in cases:
            try:
                q = op()
                ok, ks = get_strictest_eqv_proc(orig._loopir_proc, q._loopir_proc)
                got = sorted(str(k) for k in ks) if ok else "not related to the original procedure"
            except SchedulingError:
                got = None
            except Exception as e:              # anything else is neither 'rejected' nor 'accepted'
                got = f"crashed: {type(e).__name__}: {str(e)[:120]}"
            out.append((name, expected, got))
        return out
    finally:
        shutil.rmtree(d, ignore_errors=True)


REPLAY = '''#!/venv/bin/python
"""Replay for C10 / {tgt}: {what}
exit 1 = the real code violates the obligation."""
import sys
sys.path.insert(0, {verif!r})
from pyvc.run import ensure_repo_on_path
ensure_repo_on_path()
from contracts.c10_config import replay
sys.exit(replay({what!r}))
'''


def replay(what):
    print("obligation :", what)
    res = run(tier="quick")
    for k, v in res["clauses"].items():
        print(f"  {v:12s} {k.split(' :: ')[-1]}")
    bad_w = [k for k, v in res["clauses"].items() if "[witness]" in k and v == "refuted"]
    bad = [k for k, v in res["clauses"].items() if v == "refuted"]
    print("verdict    :", "confirmed" if bad_w else ("formula obligation refuted" if bad else "not-reproduced"))
    return 1 if bad else 0


def _fmt_keys(x):
    if isinstance(x, str):
        return x
    return "rejected" if x is None else ("accepted, reported fields " + str(x))


def run(tier="quick", seed=0):
    tmo = 60000 if tier == "thorough" else 10000
    verif = os.path.dirname(os.path.dirname(os.path.abspath(__file__)))
    res = dict(obligations=0, discharged=0, functions=[TGT_D, TGT_E], samples=[], violations=[], undecided=[],
               bounded=[], clauses={}, solver_time_s=0.0, assumptions=[])

    try:
        wit = run_witnesses()
    except Exception as e:
        wit = None
        res["undecided"].append("C10 witnesses could not be run: " + "".join(traceback.format_exception(e))[-800:])
    wit_bad = wit is not None and any(exp != got for _, exp, got in wit)

    def record(tgt, name, status, dt=0.0, what=None):
        key = f"{tgt} :: {name}"
        res["obligations"] += 1
        res["solver_time_s"] += dt
        if res["clauses"].get(key) != "refuted":
            res["clauses"][key] = status
        if status == "discharged":
            res["discharged"] += 1
            if dt and len(res["samples"]) < 3:
                res["samples"].append(f"{key}: unsat in {dt:.3f}s")
        elif status == "refuted":
            if not any(v["obligation"] == key for v in res["violations"]):
                res["violations"].append(dict(obligation=key, confirmed=wit_bad,
                                              replay_script=REPLAY.format(verif=verif, tgt=tgt, what=what or name)))
        else:
            res["undecided"].append(f"{key}: {what or 'solver returned unknown'}")

    def prove(tgt, name, hyps, goal, ctx):
        r, dt = _check(hyps, goal, tmo)
        record(tgt, name, "discharged" if r == z3.unsat else ("refuted" if r == z3.sat else "unknown"), dt,
               what=f"{name} [{ctx}]")

    for which, tgt in (("delete", TGT_D), ("extend", TGT_E)):
        for n in (1, 2, 3):
            try:
                runs = explore(which, n)
            except Unsupported as u:
                res["undecided"].append(f"{tgt}: unsupported: {u}")
                continue
            except Exception as e:
                res["undecided"].append(f"{tgt}: the stubbed run crashed: " + "".join(traceback.format_exception(e))[-800:])
                continue
            normal = [r for r in runs if r["raised"] is None]
            seen_in, seen_out, feasible = False, False, 0
            for rec in normal:
                ctx = f"{n} field(s), solver answers {rec['orc'].trace}"
                try:
                    sem = Sem(rec)
                    hyps = list(sem.axioms) + [smt for _, smt, ans in rec["asked"] if ans]
                    s0 = z3.Solver()
                    s0.set("timeout", tmo)
                    s0.add(*hyps)
                    if s0.check() == z3.unsat:
                        continue                      # these answers cannot all be given: nothing to prove
                    feasible += 1
                    R = rec["result"]
                    fields = rec["fields"]
                    record(tgt, "P0 the check takes the effects of the focused statements in their entry state, under "
                                "'control may reach them', and pops what it pushed",
                           "discharged" if (not rec["protocol"] and rec["pushes"] == rec["pops"] == 1
                                            and len(rec["ctxt"]) == 1 and rec["ctxt"][0][0] is rec["proc"]
                                            and rec["ctxt"][0][1] is rec["stmts0"]) else "refuted",
                           what="; ".join(rec["protocol"]) or "push/pop or ContextExtraction arguments")
                    if which == "delete":
                        x = z3.Const("x", Loc)
                        prove(tgt, "(i) returns normally ==> the statements modify configuration state only "
                                   "(Mod is a subset of WrG)", hyps,
                              z3.Implies(sem.setpred(("stmts", "MODIFY"))(x), sem.setpred(("stmts", "WRITE_G"))(x)), ctx)
                    ok_names = isinstance(R, set) and all(any(k is f for f, _ in fields) for k in R)
                    record(tgt, "(iv) the returned set contains only fields that may be written / keys it was given",
                           "discharged" if ok_names else "refuted", what=f"(iv) [{ctx}]")
                    if not ok_names:
                        continue
                    for f, typ in fields:
                        if which == "delete":
                            unchanged = sem.pre(f, typ) == sem.post(0, f)
                        else:
                            unchanged = z3.Implies(sem.P(), sem.post(0, f) == sem.post(1, f))
                        prove(tgt, "(ii) a field that may be read afterwards is unchanged", hyps,
                              z3.Implies(sem.elem(f, "after", "READ_G"), unchanged), ctx + f", field {f.name()}")
                        if f in R:
                            seen_in = True
                        else:
                            seen_out = True
                            prove(tgt, "(iii) a field that is not reported is unchanged or overwritten afterwards", hyps,
                                  z3.Or(unchanged, sem.elem(f, "after", "WRITE_G")), ctx + f", field {f.name()}")
                except Unsupported as u:
                    res["undecided"].append(f"{tgt}: unsupported: {u}")
            if not (feasible and seen_in and seen_out):
                res["undecided"].append(f"{tgt}: canary failed with {n} field(s): {feasible} feasible normal returns, "
                                        f"reported field seen: {seen_in}, unreported field seen: {seen_out}")

    if wit is not None:
        tgt = "src/exo/API_scheduling.py::write_config/bind_config/delete_config/call_eqv [witnesses]"
        for name, exp, got in wit:
            key = f"{tgt} :: [witness] {name}: {_fmt_keys(exp)}"
            res["clauses"][key] = "bounded-pass" if exp == got else "refuted"
            if exp != got:
                res["violations"].append(dict(obligation=key, confirmed=True,
                                              replay_script=REPLAY.format(verif=verif, tgt=tgt,
                                                                          what=f"{name}: expected {_fmt_keys(exp)}, "
                                                                               f"observed {_fmt_keys(got)}")))
        res["bounded"].append(dict(target=tgt + " real effect extraction, real solver, real proc_eqv", cases=len(wit),
                                   bound="hand-written procedures; sampled, not proof"))
    res["solver_time_s"] = round(res["solver_time_s"], 3)
    return res


ENGINES = ["contracts.c10_config:run"]


# ============================================================================
# Part B: the set returned by the check is the set recorded with the derivation
# ============================================================================
#
# The real functions are interpreted on real little procedures with real
# cursors; cursor plumbing (exo.core.internal_cursors, exo.API_cursors) runs
# natively - it is the subject of C06/C16.  The checks and the equivalence
# tracker are modular callees that return *token sets* (sets of fresh symbols
# that occur nowhere else: the code can only pass them on, copy them or drop
# them) and record their arguments in a ghost event list.

from exo.core import internal_cursors as _ic

_X, _Y, _SC = Sym("x"), Sym("y"), Sym("s")
KA, KB, KC = Sym("KA"), Sym("KB"), Sym("KC")


def _sched_error():
    from exo.rewrite.new_eff import SchedulingError
    return SchedulingError


def events(g):
    return g.ghost.setdefault("events", [])


def _assign(sym, v):
    return LoopIR.Assign(sym, T.f32, [], LoopIR.Const(v, T.f32, SRC), SRC)


def _proc_args():
    return [LoopIR.fnarg(_X, T.f32, DRAM, SRC), LoopIR.fnarg(_Y, T.f32, DRAM, SRC),
            LoopIR.fnarg(_SC, T.f32, DRAM, SRC)]


def _mk_proc(body, name="p"):
    return LoopIR.proc(name, _proc_args(), [], body, None, SRC)


def _same_list(xs, ys):
    return len(xs) == len(ys) and all(x is y for x, y in zip(xs, ys))


def _is_write(s, config, field, rhs):
    return isinstance(s, LoopIR.WriteConfig) and s.config is config and s.field == field and s.rhs is rhs


# --- modular callees (one implementation for the symbolic and the native run) ---

def _check_delete_impl(g, proc, stmts):
    events(g).append(("check_delete", proc, list(stmts)))
    if g.choose(["returns", "raises"], "Check_DeleteConfigWrite") == "raises":
        raise _sched_error()("abstract failure of Check_DeleteConfigWrite")
    return {KA}


def _check_extend_impl(g, proc, stmts0, stmts1, cfg_mod):
    events(g).append(("check_extend", proc, list(stmts0), list(stmts1), cfg_mod))
    if g.choose(["returns", "raises"], "Check_ExtendEqv") == "raises":
        raise _sched_error()("abstract failure of Check_ExtendEqv")
    return {KB}


def _strictest_impl(g, p1, p2):
    events(g).append(("strictest", p1, p2))
    is_eqv = g.bool("is_eqv")
    g.ghost["is_eqv"] = is_eqv
    return is_eqv, {KB, KC}


def _aliasing_impl(g, proc):
    events(g).append(("aliasing", proc))


def _wrap_exc(f):
    def result(g, a):
        try:
            return f(g, a)
        except Exception as e:
            if isinstance(e, _sched_error()):
                raise ProgExc(e)
            raise
    return result


NOTE_CHECK = ("returns normally only under the conditions (i)-(iii) examined by contracts.c10_config:run on its "
              "formulas; the returned set is arbitrary here")


def with_checks(c):
    c.callee("Check_DeleteConfigWrite", result=_wrap_exc(lambda g, a: _check_delete_impl(g, a.proc, a.stmts)),
             assumed=False, note=NOTE_CHECK)
    c.callee("Check_ExtendEqv",
             result=_wrap_exc(lambda g, a: _check_extend_impl(g, a.proc, a.stmts0, a.stmts1, a.cfg_mod)),
             assumed=False, note=NOTE_CHECK)
    c.callee("get_strictest_eqv_proc", result=lambda g, a: _strictest_impl(g, a.proc1, a.proc2), assumed=False,
             note="C11: returns (related at all, exactly the keys whose relation does not relate the two procs)")
    c.callee("Check_Aliasing", result=lambda g, a: _aliasing_impl(g, a.proc), assumed=True,
             note="Check_Aliasing(proc) is outside C10")
    c.native_modules.add("exo.core.internal_cursors")
    return c


def _native_sched(call):
    """Replay entry: the real function runs natively with the same recorders
    patched into exo.rewrite.LoopIR_scheduling."""
    def entry(g, fn, a):
        import exo.rewrite.LoopIR_scheduling as LS_
        patch = dict(
            Check_DeleteConfigWrite=lambda proc, stmts: _check_delete_impl(g, proc, stmts),
            Check_ExtendEqv=lambda proc, s0, s1, cfg: _check_extend_impl(g, proc, s0, s1, cfg),
            get_strictest_eqv_proc=lambda p1, p2: _strictest_impl(g, p1, p2),
            Check_Aliasing=lambda proc: _aliasing_impl(g, proc))
        old = {k: getattr(LS_, k) for k in patch}
        for k, v in patch.items():
            setattr(LS_, k, v)
        try:
            return call(fn, a)
        finally:
            for k, v in old.items():
                setattr(LS_, k, v)
    return entry


def _ev(a, kind):
    return [e for e in events(a.g) if e[0] == kind]


# ----------------------------------------------------------------------------
# DoConfigWrite

cdw = with_checks(contract("C10", FS, "DoConfigWrite"))


@cdw.inputs
def _(g):
    g.ghost["events"] = []
    s1, s2 = _assign(_X, 1.0), _assign(_Y, 2.0)
    proc = _mk_proc([s1, s2])
    k = g.choose([0, 1], "anchor")
    before = g.choose([False, True], "before")
    kind = g.choose(["const", "read"], "rhs")
    cfg = _config()
    if kind == "const":
        field, expr = "a", LoopIR.Const(g.int("v"), T.int, SRC)
    else:
        field, expr = "c", LoopIR.Read(_SC, [], T.f32, SRC)
    cur = _ic.Cursor.create(proc).body()[k]
    return {"stmt_cursor": cur, "config": cfg, "field": field, "expr": expr, "before": before,
            "__ghost__": {"proc": proc, "s1": s1, "s2": s2, "k": k}}


cdw.raises(_sched_error(), label="SchedulingError only from the check")


@cdw.ensures("the new write is inserted at the requested gap, nothing else changes")
def _(a):
    ir, gh = a.result[0], a.ghost
    pos = gh.k if a.before else gh.k + 1
    body = list(ir.body)
    if len(body) != 3 or not _is_write(body[pos], a.config, a.field, a.expr):
        return False
    return _same_list(body[:pos] + body[pos + 1:], [gh.s1, gh.s2])


@cdw.ensures("the check is asked once, about exactly the inserted statement in the procedure that contains it")
def _(a):
    ev = _ev(a, "check_delete")
    if len(ev) != 1:
        return False
    _, proc, stmts = ev[0]
    return proc is a.result[0] and len(stmts) == 1 and any(s is stmts[0] for s in proc.body) \
        and _is_write(stmts[0], a.config, a.field, a.expr)


@cdw.ensures("the reported set is the set returned by the check")
def _(a):
    return a.result[2] == {KA}


cdw.native_entry = _native_sched(lambda fn, a: fn(a.stmt_cursor, a.config, a.field, a.expr, before=a.before))


# ----------------------------------------------------------------------------
# DoBindConfig

cbc = with_checks(contract("C10", FS, "DoBindConfig"))
_CALLEE = LoopIR.proc("callee", [LoopIR.fnarg(Sym("v"), T.f32, DRAM, SRC)], [], [LoopIR.Pass(SRC)], None, SRC)


@cbc.inputs
def _(g):
    g.ghost["events"] = []
    rd = LoopIR.Read(_SC, [], T.f32, SRC)
    shape = g.choose(["assign", "call", "nested"], "use")
    s0 = _assign(_Y, 2.0)
    if shape == "assign":
        st = LoopIR.Assign(_X, T.f32, [], rd, SRC)
        proc = _mk_proc([s0, st])
        cur = _ic.Cursor.create(proc).body()[1]._child_node("rhs")
    elif shape == "call":
        st = LoopIR.Call(_CALLEE, [rd], SRC)
        proc = _mk_proc([s0, st])
        cur = _ic.Cursor.create(proc).body()[1]._child_node("args", 0)
    else:
        st = LoopIR.Assign(_X, T.f32, [], LoopIR.BinOp("*", LoopIR.Read(_X, [], T.f32, SRC), rd, T.f32, SRC), SRC)
        proc = _mk_proc([s0, st])
        cur = _ic.Cursor.create(proc).body()[1]._child_node("rhs")._child_node("rhs")
    assert cur._node is rd
    return {"config": _config(), "field": "c", "expr_cursor": cur,
            "__ghost__": {"proc": proc, "s0": s0, "st": st, "rd": rd, "shape": shape}}


cbc.raises(_sched_error(), label="SchedulingError only from the check")


def _bound_read(a, ir):
    st = ir.body[2]
    if a.ghost.shape == "assign":
        return st.rhs
    if a.ghost.shape == "call":
        return st.args[0] if len(st.args) == 1 else None
    return st.rhs.rhs


@cbc.ensures("config.field = e is inserted before the statement and e is replaced by a read of config.field")
def _(a):
    ir, gh = a.result[0], a.ghost
    body = list(ir.body)
    if len(body) != 3 or body[0] is not gh.s0 or not _is_write(body[1], a.config, a.field, gh.rd):
        return False
    r = _bound_read(a, ir)
    return isinstance(r, LoopIR.ReadConfig) and r.config is a.config and r.field == a.field


@cbc.ensures("the check is asked once, about exactly the inserted write, in the procedure that contains it")
def _(a):
    ev = _ev(a, "check_delete")
    if len(ev) != 1:
        return False
    _, proc, stmts = ev[0]
    return len(stmts) == 1 and _is_write(stmts[0], a.config, a.field, a.ghost.rd) \
        and any(s is stmts[0] for s in proc.body) and any(s is stmts[0] for s in a.result[0].body) \
        and proc.body[0] is a.ghost.s0 and len(proc.body) == 3


@cbc.ensures("the reported set is the set returned by the check")
def _(a):
    return a.result[2] == {KA}


cbc.native_entry = _native_sched(lambda fn, a: fn(a.config, a.field, a.expr_cursor))


# ----------------------------------------------------------------------------
# DoDeleteConfig

cdc = with_checks(contract("C10", FS, "DoDeleteConfig"))


@cdc.inputs
def _(g):
    g.ghost["events"] = []
    cfg = _config()
    s1, s2 = _assign(_X, 1.0), _assign(_Y, 2.0)
    w = LoopIR.WriteConfig(cfg, "a", LoopIR.Const(g.int("v"), T.int, SRC), SRC)
    k = g.choose([0, 1, 2], "position")
    body = [s1, s2]
    body.insert(k, w)
    proc = _mk_proc(body)
    root = _ic.Cursor.create(proc)
    # call site (delete_config): proc._root() and a statement cursor of the same procedure
    return {"proc_cursor": root, "config_cursor": root.body()[k],
            "__ghost__": {"proc": proc, "w": w, "rest": [s1, s2]}}


cdc.raises(_sched_error(), label="SchedulingError only from the check")


@cdc.ensures("exactly the checked statement is deleted")
def _(a):
    return _same_list(list(a.result[0].body), a.ghost.rest)


@cdc.ensures("the check is asked once, about exactly the deleted statement in the procedure that contains it")
def _(a):
    ev = _ev(a, "check_delete")
    if len(ev) != 1:
        return False
    _, proc, stmts = ev[0]
    return proc is a.ghost.proc and len(stmts) == 1 and stmts[0] is a.ghost.w


@cdc.ensures("the reported set is the set returned by the check")
def _(a):
    return a.result[2] == {KA}


cdc.native_entry = _native_sched(lambda fn, a: fn(a.proc_cursor, a.config_cursor))


# ----------------------------------------------------------------------------
# DoCallSwap

ccs = with_checks(contract("C10", FS, "DoCallSwap"))
_CALLEE2 = LoopIR.proc("callee2", [LoopIR.fnarg(Sym("v"), T.f32, DRAM, SRC)], [], [LoopIR.Pass(SRC)], None, SRC)


@ccs.inputs
def _(g):
    g.ghost["events"] = []
    s0 = _assign(_Y, 2.0)
    call = LoopIR.Call(_CALLEE, [LoopIR.Read(_SC, [], T.f32, SRC)], SRC)
    k = g.choose([0, 1], "position")
    body = [s0]
    body.insert(k, call)
    proc = _mk_proc(body)
    return {"call_cursor": _ic.Cursor.create(proc).body()[k], "new_subproc": _CALLEE2,
            "__ghost__": {"proc": proc, "call": call, "s0": s0, "k": k}}


ccs.raises(_sched_error(), label="SchedulingError only from the equivalence test or the check")


@ccs.ensures("the swap proceeds only if get_strictest_eqv_proc relates the old and the new callee")
def _(a):
    ev = _ev(a, "strictest")
    return And(len(ev) == 1 and ev[0][1] is _CALLEE and ev[0][2] is _CALLEE2, a.g.ghost["is_eqv"])


@ccs.ensures("Check_ExtendEqv is asked about the old call, the new call and exactly the keys get_strictest_eqv_proc returned")
def _(a):
    ev = _ev(a, "check_extend")
    if len(ev) != 1:
        return False
    _, proc, st0, st1, keys = ev[0]
    return proc is a.ghost.proc and len(st0) == 1 and st0[0] is a.ghost.call and len(st1) == 1 \
        and isinstance(st1[0], LoopIR.Call) and st1[0].f is _CALLEE2 and _same_list(st1[0].args, a.ghost.call.args) \
        and keys == {KB, KC}


@ccs.ensures("the reported set is the set returned by Check_ExtendEqv")
def _(a):
    return a.result[2] == {KB}


@ccs.ensures("only the callee of the call changes")
def _(a):
    body = list(a.result[0].body)
    k = a.ghost.k
    return len(body) == 2 and body[1 - k] is a.ghost.s0 and isinstance(body[k], LoopIR.Call) \
        and body[k].f is _CALLEE2 and _same_list(body[k].args, a.ghost.call.args)


ccs.native_entry = _native_sched(lambda fn, a: fn(a.call_cursor, a.new_subproc))


# ----------------------------------------------------------------------------
# API wrappers (the functions under @sched_op; argument processing not covered)

class Tok:
    def __init__(self, name):
        self.name = name

    def __repr__(self):
        return f"<{self.name}>"


IR_TOK, FWD_TOK = Tok("ir returned by Do*"), Tok("fwd returned by Do*")


def _do_impl(kind):
    def impl(g, *args, **kw):
        events(g).append((kind, args, kw))
        return IR_TOK, FWD_TOK, {KA, KB}
    return impl


def _procedure_impl(g, obj, proc, prov=None, fwd=None, mod=None):
    events(g).append(("Procedure", obj, proc, prov, fwd, mod))


def with_wrappers(c):
    c.callee("DoConfigWrite", assumed=False, note="contract above",
             result=lambda g, a: _do_impl("DoConfigWrite")(g, a.stmt_cursor, a.config, a.field, a.expr, before=a.before))
    c.callee("DoBindConfig", assumed=False, note="contract above",
             result=lambda g, a: _do_impl("DoBindConfig")(g, a.config, a.field, a.expr_cursor))
    c.callee("DoDeleteConfig", assumed=False, note="contract above",
             result=lambda g, a: _do_impl("DoDeleteConfig")(g, a.proc_cursor, a.config_cursor))
    c.callee("DoCallSwap", assumed=False, note="contract above",
             result=lambda g, a: _do_impl("DoCallSwap")(g, a.call_cursor, a.new_subproc))
    c.callee("Procedure.__init__", assumed=False, note="contract below",
             result=lambda g, a: _procedure_impl(g, a.self, a.proc, a._provenance_eq_Procedure, a._forward,
                                                 a._mod_config))
    c.native_modules.add("exo.core.internal_cursors")
    c.native_modules.add("exo.API_cursors")
    c.entry = lambda g, it, fn, a: it.call(fn.func, [], {k: v for k, v in a.__dict__.items()
                                                          if k not in ("ghost", "g", "exc", "result")})
    c.native_entry = _native_wrapper
    return c


def _native_wrapper(g, fn, a):
    import exo.rewrite.LoopIR_scheduling as LS_
    import exo.API_scheduling as AS_

    def fake_procedure(proc, _provenance_eq_Procedure=None, _forward=None, _mod_config=None):
        obj = Tok("new Procedure")
        _procedure_impl(g, obj, proc, _provenance_eq_Procedure, _forward, _mod_config)
        return obj
    patch = {k: (lambda k: lambda *args, **kw: _do_impl(k)(g, *args, **kw))(k)
             for k in ("DoConfigWrite", "DoBindConfig", "DoDeleteConfig", "DoCallSwap")}
    old = {k: getattr(LS_, k) for k in patch}
    oldp = AS_.Procedure
    for k, v in patch.items():
        setattr(LS_, k, v)
    AS_.Procedure = fake_procedure
    try:
        return fn.func(**{k: v for k, v in a.__dict__.items() if k not in ("ghost", "g", "exc", "result")})
    finally:
        AS_.Procedure = oldp
        for k, v in old.items():
            setattr(LS_, k, v)


def _real_procedure(body):
    from exo.API import Procedure
    return Procedure(_mk_proc(body))


def _recorded(a, do_kind):
    """(Do* event, Procedure event) if the wrapper made exactly one call of each"""
    d = [e for e in events(a.g) if e[0] == do_kind]
    p = [e for e in events(a.g) if e[0] == "Procedure"]
    others = [e for e in events(a.g) if e[0] not in (do_kind, "Procedure")]
    if len(d) != 1 or len(p) != 1 or others:
        return None
    return d[0], p[0]


def _records_set(a, do_kind):
    r = _recorded(a, do_kind)
    if r is None:
        return False
    _, (_, obj, proc, prov, fwd, mod) = r
    return a.result is obj and proc is IR_TOK and prov is a.proc and fwd is FWD_TOK and mod == {KA, KB}


LBL_SET = "the new Procedure is derived from the given one with exactly the set returned by the rewrite"

cwc = with_wrappers(contract("C10", FA, "write_config"))


@cwc.inputs
def _(g):
    g.ghost["events"] = []
    p = _real_procedure([_assign(_X, 1.0), _assign(_Y, 2.0)])
    k = g.choose([0, 1], "anchor")
    before = g.choose([True, False], "gap")
    gap = p.body()[k].before() if before else p.body()[k].after()
    kind = g.choose(["const", "read", "stride", "binop"], "rhs")
    rhs = {"const": LoopIR.Const(g.int("v"), T.int, SRC), "read": LoopIR.Read(_SC, [], T.f32, SRC),
           "stride": LoopIR.StrideExpr(_X, 0, T.stride, SRC),
           "binop": LoopIR.BinOp("+", LoopIR.Const(1, T.int, SRC), LoopIR.Const(2, T.int, SRC), T.int, SRC)}[kind]
    return {"proc": p, "gap_cursor": gap, "config": _config(), "field": "c" if kind == "read" else "a", "rhs": rhs,
            "__ghost__": {"k": k, "before": before, "kind": kind}}


cwc.raises(TypeError, when=lambda a: a.ghost.kind == "binop", label="TypeError only for an inadmissible right-hand side")
cwc.ensures(LBL_SET)(lambda a: _records_set(a, "DoConfigWrite"))


@cwc.ensures("the rewrite is asked for the anchor statement of the gap, the given config, field and value, on the right side")
def _(a):
    r = _recorded(a, "DoConfigWrite")
    if r is None:
        return False
    (_, args, kw), _ = r
    return len(args) == 4 and args[0]._node is a.proc._loopir_proc.body[a.ghost.k] \
        and args[0].get_root() is a.proc._loopir_proc and args[1] is a.config and args[2] == a.field \
        and args[3] is a.rhs and kw == {"before": a.ghost.before}


cbw = with_wrappers(contract("C10", FA, "bind_config"))


@cbw.inputs
def _(g):
    g.ghost["events"] = []
    kind = g.choose(["scalar", "indexed", "index-typed"], "expr")
    if kind == "scalar":
        rd = LoopIR.Read(_SC, [], T.f32, SRC)
    elif kind == "indexed":
        rd = LoopIR.Read(_SC, [LoopIR.Const(0, T.int, SRC)], T.f32, SRC)
    else:
        rd = LoopIR.Read(Sym("i"), [], T.index, SRC)
    st = LoopIR.Assign(_X, T.f32, [], rd if kind != "index-typed" else LoopIR.Read(_SC, [rd], T.f32, SRC), SRC)
    p = _real_procedure([_assign(_Y, 2.0), st])
    cur = p.body()[1].rhs()
    if kind == "index-typed":
        cur = cur.idx()[0]
    field = g.choose(["c", "a"], "field")
    return {"proc": p, "var_cursor": cur, "config": _config(), "field": field,
            "__ghost__": {"kind": kind, "rd": rd}}


cbw.raises(TypeError, when=lambda a: not (a.ghost.kind == "scalar" and a.field == "c"),
           label="TypeError only for a non-scalar read or a type mismatch with the field")
cbw.ensures(LBL_SET)(lambda a: _records_set(a, "DoBindConfig"))


@cbw.ensures("the rewrite is asked for the given config, field and expression")
def _(a):
    r = _recorded(a, "DoBindConfig")
    if r is None:
        return False
    (_, args, kw), _ = r
    return len(args) == 3 and args[0] is a.config and args[1] == a.field and args[2]._node is a.ghost.rd \
        and args[2].get_root() is a.proc._loopir_proc and not kw


cdl = with_wrappers(contract("C10", FA, "delete_config"))


@cdl.inputs
def _(g):
    g.ghost["events"] = []
    w = LoopIR.WriteConfig(_config(), "a", LoopIR.Const(g.int("v"), T.int, SRC), SRC)
    k = g.choose([0, 1], "position")
    body = [_assign(_X, 1.0)]
    body.insert(k, w)
    p = _real_procedure(body)
    return {"proc": p, "stmt_cursor": p.body()[k], "__ghost__": {"w": w}}


cdl.ensures(LBL_SET)(lambda a: _records_set(a, "DoDeleteConfig"))


@cdl.ensures("the rewrite is asked for the root of this procedure and the given statement")
def _(a):
    r = _recorded(a, "DoDeleteConfig")
    if r is None:
        return False
    (_, args, kw), _ = r
    return len(args) == 2 and args[0]._node is a.proc._loopir_proc and args[1]._node is a.ghost.w \
        and args[1].get_root() is a.proc._loopir_proc and not kw


cce = with_wrappers(contract("C10", FA, "call_eqv"))


@cce.inputs
def _(g):
    from exo.API import Procedure
    g.ghost["events"] = []
    call = LoopIR.Call(_CALLEE, [LoopIR.Read(_SC, [], T.f32, SRC)], SRC)
    k = g.choose([0, 1], "position")
    body = [_assign(_X, 1.0)]
    body.insert(k, call)
    p = _real_procedure(body)
    return {"proc": p, "call_cursor": p.body()[k], "eqv_proc": Procedure(_CALLEE2), "__ghost__": {"call": call}}


cce.ensures(LBL_SET)(lambda a: _records_set(a, "DoCallSwap"))


@cce.ensures("the swap is asked for the given call and the LoopIR of the given procedure")
def _(a):
    r = _recorded(a, "DoCallSwap")
    if r is None:
        return False
    (_, args, kw), _ = r
    return len(args) == 2 and args[0]._node is a.ghost.call and args[0].get_root() is a.proc._loopir_proc \
        and args[1] is _CALLEE2 and not kw


# ----------------------------------------------------------------------------
# Procedure.__init__

cpi = contract("C10", FP, "Procedure.__init__")


def _derive_impl(g, orig, new, config_set=frozenset()):
    events(g).append(("derive", orig, new, config_set))


def _decl_impl(g, proc):
    events(g).append(("decl", proc))


cpi.callee("derive_proc", assumed=False,
           note="C11: records one step (orig, new, config_set) - new is equivalent to orig modulo config_set",
           requires=lambda a: isinstance(a.config_set, frozenset),
           result=lambda g, a: _derive_impl(g, a.orig_proc, a.new_proc, a.config_set))
cpi.callee("decl_new_proc", assumed=False, note="C11: a new origin",
           result=lambda g, a: _decl_impl(g, a.proc))


@cpi.inputs
def _(g):
    from exo.API import Procedure
    g.ghost["events"] = []
    new = _mk_proc([_assign(_X, 1.0)], "q")
    prov = g.choose([None, "procedure"], "provenance")
    if prov is not None:
        prov = Procedure(_mk_proc([_assign(_X, 1.0), _assign(_Y, 2.0)]))
    mod = g.choose(["None", "empty set", "one key", "two keys", "frozenset", "empty frozenset"], "_mod_config")
    mod = {"None": None, "empty set": set(), "one key": {KA}, "two keys": {KA, KB}, "frozenset": frozenset({KC}),
           "empty frozenset": frozenset()}[mod]
    fwd = g.choose([None, FWD_TOK], "_forward")
    return {"self": object.__new__(Procedure), "proc": new, "_provenance_eq_Procedure": prov, "_forward": fwd,
            "_mod_config": mod}


@cpi.ensures("a derived procedure is recorded as equivalent to its provenance modulo exactly the given set; "
             "a procedure without provenance is a new origin")
def _(a):
    ev = events(a.g)
    if len(ev) != 1:
        return False
    if a._provenance_eq_Procedure is None:
        return ev[0][0] == "decl" and ev[0][1] is a.proc
    kind, orig, new, cs = ev[0][0], ev[0][1], ev[0][2], ev[0][3] if len(ev[0]) > 3 else None
    return kind == "derive" and orig is a._provenance_eq_Procedure._loopir_proc and new is a.proc \
        and isinstance(cs, frozenset) and cs == frozenset(a._mod_config or ())


@cpi.ensures("the object holds the given LoopIR, provenance and forwarding function")
def _(a):
    return a.self._loopir_proc is a.proc and a.self._provenance_eq_Procedure is a._provenance_eq_Procedure \
        and (a.self._forward is a._forward if a._forward is not None else callable(a.self._forward))


def _native_init(g, fn, a):
    import exo.API as API_
    old = API_.derive_proc, API_.decl_new_proc
    API_.derive_proc = lambda *args, **kw: _derive_impl(g, *args, **kw)
    API_.decl_new_proc = lambda proc: _decl_impl(g, proc)
    try:
        return fn(a.self, a.proc, a._provenance_eq_Procedure, a._forward, a._mod_config)
    finally:
        API_.derive_proc, API_.decl_new_proc = old


cpi.native_entry = _native_init
