"""C10 - configuration rewrites report every field they may change.

Property sentences used (properties.jsonl, C10): "... report a set of
configuration fields such that every field whose final value can differ from
the original procedure's is in that set; a configuration value that is read
later in the procedure is never changed.  call_eqv only substitutes a callee
derived from the same origin by equivalence-preserving steps."

Part A (sub-engine B, DESIGN 2.6): `Check_DeleteConfigWrite`, `Check_ExtendEqv`
  The real functions of src/exo/rewrite/new_eff.py run natively.  Stubbed is
  what is assumed anyway (data-flow / effect extraction):
    * `ContextExtraction(proc, stmts)`: control predicate = a ternary atom P,
      `get_pre_globenv()` = a real `AEnv` binding every field f to a classical
      atom pre_f ("value of f on entry to the statements"), `get_posteffs()` = an
      effect token;
    * `globenv(stmts)` = a real `AEnv` binding f to a *ternary* atom post_f
      ("value of f after the statements", possibly unknown to the analysis);
    * `stmts_effs` = an effect token, `getsets(codes, effs)` = one abstract
      location set per (effect token, code);
    * `get_point_exprs(WrG)` = the configuration fields that may be written;
    * `is_elem(pt, ls)` / `is_empty(ls)` = ternary atoms;
    * `SMTSolver.verify(phi)`: phi is simplified and lowered by the *real*
      `A.expr.simplify` / `SMTSolver._lower` (Kleene lowering of Maybe /
      Definitely / ==> / == / or / Let with (value, defined) pairs); the z3
      term that would be negated and handed to z3 is captured and the answer
      is scripted.  All answer sequences are enumerated (decision tree).
  A ternary atom (v, d) *soundly represents* a classical fact b iff d ==> v = b
  (DESIGN 2.5).  For every path that returns normally with set R, z3 proves
  from  { captured term | answer was True }  and the representation axioms:
    (i)   Mod subset of WrG: the statements modify configuration state only
          [Check_DeleteConfigWrite only];
    (ii)  for every field f that may be written (resp. every key of cfg_mod):
          f is read afterwards ==> its value is unchanged (pre_f = post_f,
          resp. reached ==> post0_f = post1_f);
    (iii) for every such f not in R:  f unchanged  or  f overwritten afterwards;
    (iv)  R contains only such fields.
  Bounded part (stated): the number of fields is 1..3 (the loops over fields
  are executed, not cut); the atoms' values are unconstrained.
  A handful of real procedures goes through the real, unstubbed checks as
  witnesses (sampled, not proof): they give the failing input for the replay.

Part B (pyvc contracts on the real AST): `DoConfigWrite`, `DoBindConfig`,
  `DoDeleteConfig`, `DoCallSwap` (LoopIR_scheduling.py), `write_config`,
  `bind_config`, `delete_config`, `call_eqv` (API_scheduling.py) and
  `Procedure.__init__` (API.py): the set returned by the check is the set given
  to `derive_proc`, the check is asked about the statement actually
  inserted / deleted in the procedure that contains it, `call_eqv` proceeds only
  if `get_strictest_eqv_proc` relates the two callees and passes exactly the
  keys it returned to `Check_ExtendEqv` (C11 proves that these are the fields
  on which the two callees may differ).
"""
from __future__ import annotations
import os, time, traceback, itertools
import z3

from pyvc.contract import contract
from pyvc import sym as S
from pyvc.sym import And, Or, Not, Implies
from pyvc.interp import ProgExc
from contracts.ghost import SRC
from exo.core.LoopIR import LoopIR, T
from exo.core.prelude import Sym, SrcInfo
from exo.core.memory import DRAM

FN = "src/exo/rewrite/new_eff.py"
FS = "src/exo/rewrite/LoopIR_scheduling.py"
FA = "src/exo/API_scheduling.py"
FP = "src/exo/API.py"
TGT_D = FN + "::Check_DeleteConfigWrite [formulas]"
TGT_E = FN + "::Check_ExtendEqv [formulas]"

ASSUMPTIONS = [
    "C10: ContextExtraction (control predicate, pre-environment, post-effects), globenv, stmts_effs, getsets, "
    "get_point_exprs, is_elem and is_empty are sound: the ternary formulas they build represent (d ==> v = b) the "
    "classical facts 'control may reach the statements', 'value of field f after the statements', 'f is read / "
    "overwritten afterwards', 'the location set is empty'; get_point_exprs(WrG) lists every field the statements "
    "may write",
    "C10: SMTSolver.verify(phi) returns True only if z3 finds the negation of the lowered phi unsatisfiable; "
    "simplification and the Kleene lowering themselves are *executed* (real A.expr.simplify and SMTSolver._lower) "
    "on the captured formulas, only the final z3 answer is scripted",
    "C10: 'buffer results identical' for write_config/bind_config/delete_config rests on obligation (i) (only "
    "configuration state is modified) and, for bind_config, on the substituted read having the value just written "
    "(not covered here: C01's rewrite obligations)",
    "C10: the argument processors of the API wrappers (cursor forwarding, ConfigA, NewExprA) are not covered here "
    "(C06/C16)",
]


class Unsupported(Exception):
    pass


# ============================================================================
# Part A: capture
# ============================================================================

_CFG = None


def _config():
    """one real Config with an index, a bool and an f32 field (types decide how
    Check_ExtendEqv builds the variable and how the solver declares it)"""
    global _CFG
    if _CFG is None:
        from exo.core.configs import Config
        from exo.core.LoopIR import UAST
        _CFG = Config("CfgC10", [("a", UAST.Index()), ("b", UAST.Bool()), ("c", UAST.F32())], False)
    return _CFG


def _fields(n):
    cfg = _config()
    return [(cfg._INTERNAL_sym(nm), cfg.lookup_type(nm)) for nm in ("a", "b", "c")[:n]]


class Oracle:
    """scripted answers of verify(); unexplored alternatives are queued"""
    def __init__(self, prefix):
        self.prefix = list(prefix)
        self.trace = []
        self.alts = []

    def answer(self):
        i = len(self.trace)
        if i < len(self.prefix):
            d = self.prefix[i]
        else:
            d = True
            self.alts.append(self.trace + [False])
        self.trace.append(d)
        return d


def capture(which, nfields, prefix):
    """Runs the real check with the stubs installed and the scripted solver
    answers; returns the record of the run."""
    import exo.rewrite.new_eff as NE
    from exo.rewrite.new_analysis_core import A, TernVal, aeNegPos, SMTSolver
    import exo.rewrite.analysis_simplify  # noqa: F401  (defines A.expr.simplify)
    ES, E, LS, AEnv, APoint = NE.ES, NE.E, NE.LS, NE.AEnv, NE.APoint
    src = SrcInfo("c10", 0)
    fields = _fields(nfields)
    orc = Oracle(prefix)
    rec = dict(which=which, fields=fields, asked=[], tern={}, elem={}, empty={}, sets={}, ctxt=[], orc=orc,
               protocol=[], pushes=0, pops=0)
    P = Sym("P")
    rec["P"] = P
    rec["tern"][P] = ("bool", "P")

    def atom_type(typ):
        return T.bool if typ == T.bool else typ

    pre = {f: Sym("pre_" + f.name()) for f, _ in fields}
    rec["pre"] = pre

    def mk_post(tag):
        d = {}
        for f, typ in fields:
            s = Sym(f"post{tag}_" + f.name())
            rec["tern"][s] = ("bool" if typ == T.bool else "int", f"post{tag}", f)
            d[f] = s
        return d

    s_ins = LoopIR.Pass(src)
    s_new = LoopIR.Pass(src)
    stmts0, stmts1 = [s_ins], [s_new]
    proc = LoopIR.proc("p", [], [], [s_ins], None, src)
    post = {id(stmts0): mk_post("0")}
    if which == "extend":
        post[id(stmts1)] = mk_post("1")
    rec["post"] = {0: post[id(stmts0)], 1: post.get(id(stmts1))}

    def env_of(binding):
        env = AEnv()
        for f, typ in fields:
            env = env + AEnv(f, A.Var(binding[f], atom_type(typ), src))
        return env

    G = env_of(pre)
    tok_stmts = E.Alloc(Sym("effects_of_stmts"), 0)
    tok_post = E.Alloc(Sym("effects_after_stmts"), 0)

    class FakeCtxt:
        def __init__(self, p, stmts):
            rec["ctxt"].append((p, stmts))

        def get_control_predicate(self):
            return A.Var(P, T.bool, src)

        def get_pre_globenv(self):
            return G

        def get_posteffs(self):
            return [tok_post]

    def stmts_effs(stmts):
        if stmts is not stmts0:
            raise Unsupported("effects of something that is not the focused statement block")
        return [tok_stmts]

    def globenv(stmts):
        if id(stmts) not in post:
            raise Unsupported("globenv of an unexpected statement block")
        return env_of(post[id(stmts)])

    def locset(tag, code):
        key = (tag, code.name)
        if key not in rec["sets"]:
            s = Sym(f"{code.name}_{tag}")
            rec["sets"][key] = s
            rec["sets"][s] = key
        return LS.WholeBuf(rec["sets"][key], 0)

    def getsets(codes, effs):
        effs = list(effs)
        if effs == [tok_post]:
            tag = "after"
        else:
            # the effects of the statements must be taken in the entry state (G)
            # and under "control may reach them"
            ok = (len(effs) == 1 and isinstance(effs[0], E.Guard)
                  and isinstance(effs[0].cond, A.Maybe) and isinstance(effs[0].cond.arg, A.Var)
                  and effs[0].cond.arg.name is P and len(effs[0].body) == 2
                  and isinstance(effs[0].body[0], E.BindEnv) and effs[0].body[0].env is G
                  and effs[0].body[1] is tok_stmts)
            if not ok:
                rec["protocol"].append("effects of the statements are not taken as Guard(Maybe(P), G(stmts_effs(stmts)))")
            tag = "stmts"
        return [locset(tag, c) for c in codes]

    def get_point_exprs(ls):
        if not (isinstance(ls, LS.WholeBuf) and rec["sets"].get(ls.name) == ("stmts", "WRITE_G")):
            rec["protocol"].append("candidate fields are not taken from the globals written by the statements")
        return [APoint(f, [], typ) for f, typ in fields]

    def is_elem(pt, ls, win_map=None, alloc_masks=None):
        if not (isinstance(ls, LS.WholeBuf) and ls.name in rec["sets"]):
            raise Unsupported("membership in a derived location set")
        key = (pt.name, rec["sets"][ls.name])
        if key not in rec["elem"]:
            s = Sym(f"elem_{pt.name.name()}_{ls.name.name()}")
            rec["elem"][key] = s
            rec["tern"][s] = ("bool", "elem", key)
        return A.Var(rec["elem"][key], T.bool, src)

    def is_empty(ls):
        s = Sym("empty")
        rec["empty"][s] = ls
        rec["tern"][s] = ("bool", "empty", ls)
        return A.Var(s, T.bool, src)

    class CapturingSolver(SMTSolver):
        def __init__(self, verbose=False):
            super().__init__(verbose=False)
            for s, info in rec["tern"].items():
                self._bind_atom(s, info)

        def _bind_atom(self, s, info):
            nm = f"{s.name()}_{id(s) % 100000}"
            v = z3.Bool(nm + "!v") if info[0] == "bool" else z3.Int(nm + "!v")
            self.env[s] = TernVal(v, z3.Bool(nm + "!d"))

        def push(self):
            rec["pushes"] += 1
            self.internal_push()

        def pop(self):
            rec["pops"] += 1
            self.internal_pop()

        def assume(self, e):
            raise Unsupported("assumption added to the solver")

        def verify(self, e):
            for s, info in rec["tern"].items():
                if s not in self.env:
                    self._bind_atom(s, info)
            e2 = e.simplify()
            self.internal_push()
            self._add_free_vars(e2)
            self.negative_pos = aeNegPos(e2, "+")
            smt_e = self._lower(e2)
            self.internal_pop()
            if isinstance(smt_e, TernVal):
                raise Unsupported("a ternary formula is handed to the solver")
            ans = orc.answer()
            rec["asked"].append((e, smt_e, ans))
            rec["solver"] = self
            return ans

    patch = dict(ContextExtraction=FakeCtxt, SMTSolver=CapturingSolver, stmts_effs=stmts_effs, globenv=globenv,
                 getsets=getsets, get_point_exprs=get_point_exprs, is_elem=is_elem, is_empty=is_empty)
    old = {k: getattr(NE, k) for k in patch}
    for k, v in patch.items():
        setattr(NE, k, v)
    try:
        try:
            if which == "delete":
                rec["result"] = NE.Check_DeleteConfigWrite(proc, stmts0)
            else:
                rec["result"] = NE.Check_ExtendEqv(proc, stmts0, stmts1, {f for f, _ in fields})
            rec["raised"] = None
        except NE.SchedulingError as e:
            rec["result"], rec["raised"] = None, e
    finally:
        for k, v in old.items():
            setattr(NE, k, v)
    rec.update(proc=proc, stmts0=stmts0, stmts1=stmts1, LS=LS, A=A)
    return rec
