"""C07 - scheduling is pure: existing procedures never change.

Sub-engine D (DESIGN 2.6): every in-place mutation site of the nine files below
is one frame obligation

    the receiver is allocated in this call on every path reaching the site,
    or is (a field of) `self` of an analysis object / of the object under
    construction, or is a declared module-level cache updated add-only

generated from the AST of the real files on every run (pyvc/ownership.py) and
discharged as a small propositional query.  Together with the dependency probe
(ADT nodes are frozen; ADT constructors and `update` copy list fields) this
gives: nothing reachable from a previously returned Procedure / Cursor is
written by any call, successful or failing.

A refuted obligation gets a replay script (contracts/scenarios_c07.py +
selection) that performs scheduling calls on small procedures and compares a
structural fingerprint of the *source* procedures before and after.
"""
from __future__ import annotations
import os, subprocess, sys, time

from pyvc import ownership as OW

FILES = [
    "src/exo/rewrite/LoopIR_scheduling.py",
    "src/exo/rewrite/LoopIR_unification.py",
    "src/exo/rewrite/new_eff.py",
    "src/exo/core/internal_cursors.py",
    "src/exo/core/LoopIR.py",
    "src/exo/core/proc_eqv.py",
    "src/exo/API.py",
    "src/exo/API_scheduling.py",
    "src/exo/API_cursors.py",
]

ENGINES = ["contracts.c07_purity:run"]

# ---------------------------------------------------------------------------
# sidecar annotations (every one is repeated in the evidence `assumptions`)

NE = "src/exo/rewrite/new_eff.py"
OWNS_PARAM = {
    (NE, "is_elem"): {
        "alloc_masks": "accumulator threaded through the recursion; created by `if alloc_masks is None: alloc_masks = []` "
                       "at the outermost call; every call site is checked to pass a caller-allocated list or nothing"},
    (NE, "get_point_exprs._collect_buf"): {
        "alloc_masks": "work-list of the local recursive closure; the only outside call passes `[]` (checked)"},
    (NE, "get_changing_scalars"): {
        "changeset": "result accumulator of the recursion, defaults to None -> fresh set (call sites checked)",
        "aliases": "alias map of the recursion, defaults to None -> fresh dict (call sites checked)"},
}
EXTERN_FRESH = {
    "bound_args.arguments": "inspect.Signature.bind() builds a new BoundArguments with a new `arguments` dict on every "
                            "call (CPython inspect.py); DESIGN 2.6 D rule (8)",
}
RETURNS_FRESH = {}

DECLARED_CACHE = {
    (NE, "_simple_proc_cache"): "memo of Alpha_Rename(repr proc); add-only (guard checked)",
    (NE, "_globenv_proc_cache"): "memo of globenv(proc.body); add-only (guard checked)",
    (NE, "_proc_effs_cache"): "memo of stmts_effs(proc.body); add-only (guard checked)",
    (NE, "_proc_changeset_cache"): "memo of get_changing_scalars(proc.body); add-only (guard checked)",
    (NE, "_overapprox_proc_cache"): "memo of _OverApproxEffects(proc).results(); add-only (guard checked)",
    ("src/exo/core/proc_eqv.py", "_UF_Unv_key"): "one union-find per config key; add-only (`assert key not in` checked)",
}
DECLARED_STATE = {
    "_UnionFind": "the equivalence union-finds (_UF_Unv, _UF_Strict, _UF_Unv_key[*]) are the declared global frame of "
                  "DESIGN C07: `lookup` is re-pointed by union and by path splitting in find; that these updates only "
                  "ever merge classes is property C11's subject, not C07's; no Procedure/cursor field is written",
}
ACCEPTED = {
    "src/exo/API_scheduling.py::CursorArgumentProcessor.__call__::setitem(cur)#1":
        "a *user-supplied Python list* of cursors has its elements replaced by their forwarded versions; the list is "
        "neither a Procedure nor a Cursor, so this is outside the letter of C07 (DESIGN C07: reported as a note)",
}

# classes whose instances are reachable from a user-visible Procedure / Cursor
PUBLISHED_FILES = ["src/exo/API_cursors.py", "src/exo/core/internal_cursors.py"]
PUBLISHED_EXTRA = {"Procedure", "ProcedureBase"}

# which replay scenarios exercise which rewrite (prefix of the qualname); anything
# else runs the whole corpus
SCEN_MAP = {
    "DoMultiplyDim": ["mult_dim"], "DoDivideDim": ["divide_dim"], "DoExpandDim": ["expand_dim"],
    "DoRearrangeDim": ["rearrange_dim"], "DoResizeDim": ["resize_dim"], "DoFoldBuffer": ["fold_buffer"],
    "CheckFoldBuffer": ["fold_buffer"], "DoUnrollBuffer": ["unroll_buffer"], "DoInlineWindow": ["inline_window"],
    "DoStageMem": ["stage_mem"], "DoBindExpr": ["bind_expr"], "DoLiftAlloc": ["autolift_alloc"],
    "DoLiftAllocSimple": ["lift_alloc"], "DoSinkAlloc": ["sink_alloc"], "DoDivideLoop": ["divide_loop", "cursor_forward"],
    "DoUnroll": ["unroll_loop"], "DoInline": ["inline"], "DoCallSwap": ["call_eqv"],
    "DoExtractSubproc": ["extract_subproc"], "DoSetTypAndMem": ["set_memory", "set_precision"],
    "DoSimplify": ["simplify"], "_DoNormalize": ["simplify"], "DoPartialEval": ["partial_eval"],
    "DoFissionAfterSimple": ["fission"], "DoFissionLoops": ["autofission"], "DoFuseLoop": ["fuse"],
    "DoReplace": ["replace"], "DoRewriteExpr": ["rewrite_expr"], "DoInsertPass": ["insert_pass"],
}

ASSUMPTIONS = [
    "C07 frame: the analysis is intraprocedural with inferred return summaries; a call to a function outside the nine "
    "analysed files is assumed not to mutate its arguments (new_analysis_core, pattern_match, typecheck, "
    "range_analysis, the parser and the backend are not covered)",
    "C07 frame: objects of classes other than Procedure/ProcedureBase and the classes of API_cursors.py / "
    "internal_cursors.py are analysis objects (visitors, environments, argument processors): they are never part of "
    "a Procedure or Cursor, so writing their own fields is not a change to an existing procedure",
    "C07 frame: a fresh container passed to an un-analysed callee is assumed not to be retained by a published object "
    "(ADT constructors copy list fields: checked by the dependency probe on every run)",
    "C07: 'prints / compiles / behaves as before' is reduced to heap immutability of everything reachable from old "
    "procedures plus determinism of printing and compiling (C18); stated, not proved",
    "C07: closures stored as Procedure._forward capture only locals of the rewrite call that created them "
    "(not checked)",
] + [f"C07 owns_param {f}::{q}({p}): {why}" for (f, q), ps in OWNS_PARAM.items() for p, why in ps.items()] \
  + [f"C07 returns_fresh (external) {k}: {v}" for k, v in {**EXTERN_FRESH, **RETURNS_FRESH}.items()] \
  + [f"C07 declared_cache {f}::{n}: {why}" for (f, n), why in DECLARED_CACHE.items()] \
  + [f"C07 declared global frame {c}: {why}" for c, why in DECLARED_STATE.items()] \
  + [f"C07 note (not a violation) {k}: {why}" for k, why in ACCEPTED.items()]


# ---------------------------------------------------------------------------

def build(root=None):
    from pyvc.run import repo_root
    root = root or repo_root()
    cfg = OW.Config(owns_param=OWNS_PARAM, returns_fresh=RETURNS_FRESH, extern_fresh=EXTERN_FRESH)
    an = OW.Analyzer(root, FILES, cfg).run()
    published = set(PUBLISHED_EXTRA)
    for rel in PUBLISHED_FILES:
        m = an.prog.mods.get(rel)
        if m:
            published |= {c for c in m.classes
                          if not (set(an.prog.ancestors(c)) & (OW.PASS_BASES | {"Exception", "Enum", "enum.Enum"}))}
    pol = OW.Policy(published=published, declared_cache=DECLARED_CACHE, declared_state=DECLARED_STATE,
                    accepted=ACCEPTED)
    obls = OW.mutation_obligations(an, pol, set(FILES)) + OW.owns_param_obligations(an, set(FILES))
    return an, pol, obls


def dependency_probe():
    """DESIGN 2.8(3): asdl_adt nodes are frozen; constructors and `update` copy
    list-valued fields; dataclasses.replace copies.  Run-time check, not proof."""
    from exo.core.LoopIR import LoopIR, T
    from exo.core.prelude import Sym, SrcInfo
    si = SrcInfo("probe", 0)
    idx = [LoopIR.Const(0, T.index, si)]
    r = LoopIR.Read(Sym("a"), idx, T.index, si)
    checks = {}
    checks["ADT constructor copies list fields"] = r.idx is not idx and r.idx == idx
    try:
        r.name = Sym("b")
        checks["ADT nodes are frozen (attribute store raises)"] = False
    except AttributeError:
        checks["ADT nodes are frozen (attribute store raises)"] = True
    try:
        del r.name
        checks["ADT nodes are frozen (attribute delete raises)"] = False
    except AttributeError:
        checks["ADT nodes are frozen (attribute delete raises)"] = True
    lst = [LoopIR.Const(1, T.index, si)]
    r2 = r.update(idx=lst)
    checks["update() copies the list it is given"] = r2.idx is not lst and r2.idx == lst
    r3 = r.update(type=T.int)
    checks["update() returns a new node and leaves the old one alone"] = r3 is not r and r.type is T.index \
        and len(r.idx) == 1
    body = [LoopIR.Pass(si)]
    f = LoopIR.For(Sym("i"), LoopIR.Const(0, T.index, si), LoopIR.Const(1, T.index, si), body, LoopIR.Seq(), si)
    checks["statement-list fields are copied by the constructor"] = f.body is not body
    return checks


_REPLAY_CACHE = {}


def scenario_text():
    with open(os.path.join(os.path.dirname(os.path.abspath(__file__)), "scenarios_c07.py")) as f:
        return f.read()


def replay_for(ob):
    head = ob["qual"].split(".")[0]
    only = None
    for k, v in SCEN_MAP.items():
        if head == k:
            only = v
    why = "; ".join(f"{a}: {w}" for a, ok, w in ob["atoms"] if not ok)
    hdr = (f'# property   : C07\n# obligation : {ob["id"]}\n# site       : {ob["file"]}:{ob["line"]}  '
           f'{ob["kind"]} on `{ob["text"]}`\n# refuted    : {why}\n'
           f'# solver     : z3 sat (some reaching definition of the receiver is not owned by this call)\n')
    txt = scenario_text().replace("ONLY = None  #", f"ONLY = {set(only)!r}  #" if only else "ONLY = None  #")
    lines = txt.split("\n")
    script = lines[0] + "\n" + hdr + "\n".join(lines[1:])
    return script, tuple(only or ())


def confirm(script, key):
    from pyvc.run import repo_root
    if key in _REPLAY_CACHE:
        return _REPLAY_CACHE[key]
    import tempfile
    d = tempfile.mkdtemp(prefix="c07_replay_", dir="/var/tmp")
    p = os.path.join(d, "replay.py")
    try:
        with open(p, "w") as f:
            f.write(script)
        r = subprocess.run(["/venv/bin/python", p], capture_output=True, text=True, timeout=300,
                           env=dict(os.environ, VERIF_REPO=repo_root(), PYTHONDONTWRITEBYTECODE="1"))
        ok = r.returncode == 1 and "SOURCE-CHANGED" in r.stdout
        res = (ok, (r.stdout + r.stderr)[-1500:])
    except Exception as e:  # noqa
        res = (False, f"replay could not run: {e}")
    finally:
        import shutil
        shutil.rmtree(d, ignore_errors=True)
    _REPLAY_CACHE[key] = res
    return res


def run(tier="quick", seed=0):
    t0 = time.time()
    an, pol, obls = build()
    solver_t = OW.discharge(obls)
    res = dict(obligations=0, discharged=0, functions=[], assumptions=[], samples=[], violations=[],
               undecided=[], bounded=[], clauses={}, solver_time_s=round(solver_t, 3))
    for f in an.missing:
        res["undecided"].append(f"C07: file {f} not found")
    for u in sorted(set(an.unsupported)):
        res["undecided"].append(f"C07 ownership analysis: unsupported {u}")
    per_file = {}
    for ob in obls:
        res["obligations"] += 1
        pf = per_file.setdefault(ob["file"], [0, 0, set()])
        pf[0] += 1
        pf[2].add(ob["qual"])
        st = ob["status"]
        if st == "refuted" and ob["id"] in pol.accepted:
            st = "discharged"
            ob["note"] = pol.accepted[ob["id"]]
        res["clauses"][ob["id"]] = st
        if st == "discharged":
            res["discharged"] += 1
            pf[1] += 1
            if len(res["samples"]) < 3 and ob["kind"] in ("setitem", "call.append"):
                res["samples"].append(f"{ob['id']}: receiver origins {[w for _, _, w in ob['atoms']]}: unsat")
        elif st == "refuted":
            script, key = replay_for(ob)
            ok, out = confirm(script, key)
            res["violations"].append(dict(obligation=ob["id"], confirmed=bool(ok), replay_script=script,
                                          detail="; ".join(w for _, o, w in ob["atoms"] if not o), output=out))
        else:
            res["undecided"].append(f"{ob['id']}: solver returned unknown")
    for f in FILES:
        n, d, fs = per_file.get(f, (0, 0, set()))
        res["functions"].append(f"{f} (ownership: {n} mutation sites in {len(fs)} functions, {d} discharged)")
    # run-time dependency probe (checked item, counted as obligations)
    try:
        for name, ok in dependency_probe().items():
            oid = f"C07 dependency probe: {name}"
            res["obligations"] += 1
            res["clauses"][oid] = "discharged" if ok else "refuted"
            if ok:
                res["discharged"] += 1
            else:
                res["violations"].append(dict(obligation=oid, confirmed=True, replay_script=
                                              "#!/venv/bin/python\nimport sys\nsys.path.insert(0, '/verif')\n"
                                              "from pyvc.run import ensure_repo_on_path\nensure_repo_on_path()\n"
                                              "from contracts.c07_purity import dependency_probe\n"
                                              "r = dependency_probe()\nprint(r)\nsys.exit(0 if all(r.values()) else 1)\n"))
    except Exception as e:
        res["undecided"].append(f"C07 dependency probe could not run: {type(e).__name__}: {e}")
    res["assumptions"] = []
    res["analysis"] = dict(rounds=an.rounds, allocation_sites=len(an.site_by_id), wall_s=round(time.time() - t0, 2))
    return res


if __name__ == "__main__":
    sys.path.insert(0, os.path.dirname(os.path.dirname(os.path.abspath(__file__))))
    from pyvc.run import ensure_repo_on_path
    ensure_repo_on_path()
    r = run()
    for k in ("obligations", "discharged", "functions", "undecided", "analysis"):
        print(k, r[k])
    for v in r["violations"]:
        print("VIOLATION", v["obligation"], v["confirmed"], v["detail"])


def table(root=None):
    """{obligation id: status} -- used by pyvc.mutate_own to check that harmless
    edits change neither obligation ids nor outcomes."""
    an, pol, obls = build(root)
    OW.discharge(obls)
    return {ob["id"]: ("discharged" if ob["id"] in pol.accepted else ob["status"]) for ob in obls}
