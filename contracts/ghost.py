"""Ghost denotations shared by the contracts (DESIGN 2.5).

All functions work on symbolic proxies *and* on plain Python values, so the
same contract text is used for proving (pyvc) and for concrete replay.
"""
from __future__ import annotations
import z3
from pyvc import sym as S
from pyvc.sym import SInt, SBool, And, Or, Not, Implies, Ite, Min, Max
from pyvc.interp import Opaque
from exo.core.LoopIR import LoopIR, T
from exo.core.prelude import Sym, SrcInfo

SRC = SrcInfo("ghost", 0)

# ----------------------------------------------------------------------------
# valuation rho : Sym -> int   (one arbitrary, fixed valuation per path)

def rho(sym):
    ctx = S.cur()
    tab = ctx.ghost.setdefault("rho", {})
    k = id(sym)
    if k not in tab:
        tab[k] = (sym, ctx.fresh_int(f"rho_{sym.name()}"))
    return tab[k][1]


_opaque_classes = {}

def _opaque_class(sort):
    if sort not in _opaque_classes:
        def __init__(self, name, ev, type, not_ctors):
            object.__setattr__(self, "_pyvc_name", name)
            object.__setattr__(self, "_pyvc_ev", ev)
            object.__setattr__(self, "_pyvc_not", tuple(not_ctors))
            object.__setattr__(self, "type", type)
            object.__setattr__(self, "srcinfo", SRC)
        def __repr__(self):
            return f"<opaque {sort.__name__} {self._pyvc_name}>"
        cls = type(sort)("Opaque" + sort.__name__, (sort, Opaque),
                         {"__init__": __init__, "__repr__": __repr__,
                          "__str__": __repr__, "_pyvc_sort": sort,
                          "__eq__": lambda a, b: a is b,
                          "__hash__": lambda a: id(a)})
        _opaque_classes[sort] = cls
    return _opaque_classes[sort]


def opaque_expr(g, name, typ=None, not_ctors=(LoopIR.Const,)):
    """An arbitrary index expression that is *not* one of `not_ctors`.
    Symbolic mode: a schematic leaf with an integer denotation `ev`.
    Concrete mode (replay / cross-check): a Read of a fresh variable."""
    typ = typ or T.index
    v = g.int("ev_" + name)
    if g.concrete:
        if not any(issubclass(LoopIR.Const, n) for n in not_ctors) and g.ctx.rng.random() < 0.5:
            return LoopIR.Const(v, typ, SRC)
        s = Sym(name)
        g.ghost.setdefault("rho", {})[id(s)] = (s, v)
        return LoopIR.Read(s, [], typ, SRC)
    return _opaque_class(LoopIR.expr)(name, v, typ, not_ctors)


def py_isinstance_opaque(v, c):
    return None


def ev(e):
    """Mathematical value of an index expression under rho; `/` and `%` are
    floor division and floor modulo (the semantics C12/C13/C02 are stated in)."""
    if isinstance(e, Opaque):
        return e._pyvc_ev
    if isinstance(e, (int, SInt, SBool)):
        return e
    if isinstance(e, LoopIR.Const):
        return e.val
    if isinstance(e, LoopIR.Read):
        assert len(e.idx) == 0, "ev of a non-scalar read"
        return rho(e.name)
    if isinstance(e, LoopIR.USub):
        return -ev(e.arg)
    if isinstance(e, LoopIR.BinOp):
        a, b = ev(e.lhs), ev(e.rhs)
        return ev_binop(e.op, a, b)
    raise AssertionError(f"ev: unsupported expression {type(e).__name__}")


def ev_binop(op, a, b):
    if op == "+":
        return a + b
    if op == "-":
        return a - b
    if op == "*":
        return a * b
    if op == "/":
        return S.floordiv(a, b)
    if op == "%":
        return S.mod(a, b)
    if op == "<":
        return a < b
    if op == "<=":
        return a <= b
    if op == ">":
        return a > b
    if op == ">=":
        return a >= b
    if op == "==":
        return a == b
    if op == "and":
        return And(a, b)
    if op == "or":
        return Or(a, b)
    raise AssertionError(f"ev: unsupported operator {op}")


def concrete_rho(ctx):
    return {s: v for s, v in ctx.ghost.get("rho", {}).values()}
