"""Shared machinery of the C03 engines (not a contract module: the name does not
match contracts/c03_*.py on purpose).

* `FakeSolver`      - stands in for the PySMT solver of `CheckBounds`: keeps the
                      assertion stack, records every `is_valid` / `is_sat`
                      question together with the assumptions in force, answers
                      from a script.  Assumed contract of the real solver:
                      `is_valid(phi)` is True only if phi follows from the
                      assertions on the stack (for all values of all symbols).
* `smt2z3`          - classical reading of a recorded PySMT formula as a z3 term.
* `Spec`            - the *reference* reading of a LoopIR procedure, written from
                      the property text and independent of boundscheck.py: walks
                      the statements and lists, for every access / loop / alloc /
                      window / call, the condition the property demands
                      (`guard ==> cond`, both z3 terms over the procedure's
                      symbols).
* `Program`         - a small Exo source template whose size/index parameters are
                      either symbolic (`n: size`) or literals (witness programs).
"""
from __future__ import annotations
import importlib.util, os, re, shutil, sys, tempfile, itertools
import z3


class Unsupported(Exception):
    pass


# ----------------------------------------------------------------------------
# stub solver

class Query:
    def __init__(self, k, kind, formula, stack, answer):
        self.k, self.kind, self.formula, self.stack, self.answer = k, kind, formula, stack, answer


class FakeSolver:
    """answers(k, query) -> bool decides the k-th is_valid question (default True)."""

    def __init__(self, answers=None):
        self.frames = [[]]
        self.queries = []
        self.asserted = []
        self.answers = answers or (lambda k, q: True)
        self.protocol_errors = []
        self.events = []

    def push(self):
        self.frames.append([])
        self.events.append(("push",))

    def pop(self):
        if len(self.frames) <= 1:
            self.protocol_errors.append("pop on an empty stack")
            return
        self.frames.pop()
        self.events.append(("pop",))

    def add_assertion(self, f):
        self.frames[-1].append(f)
        self.asserted.append(f)
        self.events.append(("assert", f))

    def _stack(self):
        return [f for fr in self.frames for f in fr]

    def is_valid(self, f):
        q = Query(len([x for x in self.queries if x.kind == "valid"]), "valid", f, self._stack(), None)
        q.answer = bool(self.answers(q.k, q))
        self.queries.append(q)
        self.events.append(("valid", q))
        return q.answer

    def is_sat(self, f):
        q = Query(-1, "sat", f, self._stack(), True)
        self.queries.append(q)
        return True

    def get_py_values(self, syms):
        return {s: 0 for s in syms}

    def valid_queries(self):
        return [q for q in self.queries if q.kind == "valid"]


# ----------------------------------------------------------------------------
# PySMT -> z3

AUX_PREFIXES = ("div_tmp", "mod_tmp")


def is_aux_name(name):
    return name.startswith(AUX_PREFIXES) or "_stride_" in name


def smt2z3(f, const_map=None, memo=None):
    """Classical reading.  `const_map` {int: z3 term} reads a sentinel literal as
    a symbolic value (used for the divisor of / and %)."""
    memo = {} if memo is None else memo
    const_map = const_map or {}

    def go(n):
        k = n.node_id()
        if k in memo:
            return memo[k]
        r = go1(n)
        memo[k] = r
        return r

    def go1(n):
        if n.is_symbol():
            from pysmt.typing import INT, BOOL, REAL
            t = n.symbol_type()
            if t == INT:
                return z3.Int(n.symbol_name())
            if t == BOOL:
                return z3.Bool(n.symbol_name())
            if t == REAL:
                return z3.Real(n.symbol_name())
            raise Unsupported(f"symbol type {t}")
        if n.is_int_constant():
            v = int(n.constant_value())
            return const_map[v] if v in const_map else z3.IntVal(v)
        if n.is_bool_constant():
            return z3.BoolVal(bool(n.constant_value()))
        a = [go(x) for x in n.args()]
        if n.is_and():
            return z3.And(*a) if a else z3.BoolVal(True)
        if n.is_or():
            return z3.Or(*a) if a else z3.BoolVal(False)
        if n.is_not():
            return z3.Not(a[0])
        if n.is_implies():
            return z3.Implies(a[0], a[1])
        if n.is_iff():
            return a[0] == a[1]
        if n.is_ite():
            return z3.If(a[0], a[1], a[2])
        if n.is_le():
            return a[0] <= a[1]
        if n.is_lt():
            return a[0] < a[1]
        if n.is_equals():
            return a[0] == a[1]
        if n.is_plus():
            r = a[0]
            for x in a[1:]:
                r = r + x
            return r
        if n.is_minus():
            return a[0] - a[1]
        if n.is_times():
            r = a[0]
            for x in a[1:]:
                r = r * x
            return r
        raise Unsupported(f"PySMT node type {n.node_type()}")

    return go(f)


def free_names(f):
    return {v.symbol_name() for v in f.get_free_variables()}


def z3_names(t, acc=None):
    """names of the uninterpreted constants of a z3 term"""
    acc = set() if acc is None else acc
    seen = set()
    stack = [t]
    while stack:
        x = stack.pop()
        if x.get_id() in seen:
            continue
        seen.add(x.get_id())
        if z3.is_quantifier(x):
            stack.append(x.body())
            continue
        if z3.is_const(x) and x.decl().kind() == z3.Z3_OP_UNINTERPRETED:
            acc.add(x.decl().name())
        stack.extend(x.children())
    return acc


def _consts_of(t, names):
    out, seen, stack = {}, set(), [t]
    while stack:
        x = stack.pop()
        if x.get_id() in seen:
            continue
        seen.add(x.get_id())
        if z3.is_const(x) and x.decl().kind() == z3.Z3_OP_UNINTERPRETED and x.decl().name() in names:
            out[x.decl().name()] = x
        stack.extend(x.children())
    return out


def hypotheses(slv, const_map=None):
    """What the accepting run has established, read classically: one formula
    (assumptions in force ==> phi) per is_valid question answered True.  In the
    real solver each is valid, i.e. closed under forall over EVERY symbol."""
    memo = {}
    out = []
    for q in slv.valid_queries():
        if not q.answer:
            continue
        st = [smt2z3(s, const_map, memo) for s in q.stack]
        out.append(z3.Implies(z3.And(*st) if st else z3.BoolVal(True), smt2z3(q.formula, const_map, memo)))
    return out


_QE = None


def close_over(bodies, vocabulary, cache=None):
    """forall <symbols outside `vocabulary`>. body, for each hypothesis.  The
    symbols of `vocabulary` (those one conclusion talks about) are shared with
    that conclusion - an instantiation of the universal closure; every other
    symbol (division temporaries, stride variables, formal parameters of
    callees, bound iterators the conclusion does not mention) stays universally
    quantified and is eliminated with z3's `qe` (Presburger) where possible."""
    global _QE
    if _QE is None:
        _QE = z3.Then(z3.Tactic("qe"), z3.Tactic("simplify"))
    cache = {} if cache is None else cache
    out = []
    voc = set(vocabulary)
    for body in bodies:
        foreign = z3_names(body) - voc
        if not foreign:
            out.append(body)
            continue
        key = (body.get_id(), frozenset(foreign))
        if key not in cache:
            cs = _consts_of(body, foreign)
            f = z3.ForAll([cs[n] for n in sorted(cs)], body)
            try:
                f = _QE(f).as_expr()
            except z3.Z3Exception:
                pass
            cache[key] = f
        out.append(cache[key])
    return out


def check_unsat(constraints, timeout_ms=10000):
    import time
    s = z3.Solver()
    s.set("timeout", timeout_ms)
    for c in constraints:
        s.add(c)
    t0 = time.time()
    r = s.check()
    return r, (s.model() if r == z3.sat else None), time.time() - t0


# ----------------------------------------------------------------------------
# reference reading of LoopIR (the property's conditions)

def zsym(sym, boolean=False):
    return z3.Bool(repr(sym)) if boolean else z3.Int(repr(sym))


class Item:
    def __init__(self, label, kind, guard, cond, where=""):
        self.label, self.kind, self.guard, self.cond, self.where = label, kind, guard, cond, where

    def __repr__(self):
        return f"<{self.kind}: {self.label}>"


class _Buf:
    def __init__(self, name, extents, local_to_callee=False):
        self.name, self.extents, self.callee_local = name, extents, local_to_callee
        self.is_alias = False


class _Alias:
    def __init__(self, name, src, idx):
        self.name, self.src, self.idx = name, src, idx     # idx: [("pt", z) | ("iv", lo, hi)]
        self.is_alias = True
        self.extents = [w[2] - w[1] for w in idx if w[0] == "iv"]


class Spec:
    """Reference semantics.  `items` are the conditions the property demands of
    `proc` (a LoopIR.proc): for all values of the arguments with sizes >= 1 that
    satisfy the assertions (= `self.assume`), guard ==> cond."""

    def __init__(self, proc):
        from exo.core.LoopIR import LoopIR, T
        self.L, self.T = LoopIR, T
        self.items = []
        self.assume = []
        self.nwin = 0
        scope = {}
        for a in proc.args:
            if isinstance(a.type, T.Size):
                self.assume.append(zsym(a.name) > 0)
        for a in proc.args:
            if a.type.is_tensor_or_window():
                scope[a.name] = _Buf(a.name, [self.ev(s, {}) for s in a.type.shape()])
            elif a.type.is_numeric():
                scope[a.name] = _Buf(a.name, [])
        for p in proc.preds:
            self.assume.append(self.ev(p, {}))
        self.walk(proc.body, list(self.assume), scope, {}, depth=0)

    # -- expressions ---------------------------------------------------------
    def ev(self, e, sub):
        L, T = self.L, self.T
        if isinstance(e, L.Read):
            if e.idx:
                raise Unsupported("buffer read inside an index expression")
            if e.name in sub:
                return sub[e.name]
            return zsym(e.name, e.type == T.bool)
        if isinstance(e, L.Const):
            if isinstance(e.val, bool):
                return z3.BoolVal(e.val)
            if isinstance(e.val, int):
                return z3.IntVal(e.val)
            raise Unsupported("non-integer literal in an index expression")
        if isinstance(e, L.USub):
            return -self.ev(e.arg, sub)
        if isinstance(e, L.BinOp):
            op = str(e.op)
            if op in ("/", "%"):
                if not (isinstance(e.rhs, L.Const) and isinstance(e.rhs.val, int) and e.rhs.val > 0):
                    raise Unsupported("division by something that is not a positive literal")
                a, c = self.ev(e.lhs, sub), z3.IntVal(e.rhs.val)
                return a / c if op == "/" else a % c      # z3 div/mod: floor for a positive divisor
            a, b = self.ev(e.lhs, sub), self.ev(e.rhs, sub)
            table = {"+": lambda: a + b, "-": lambda: a - b, "*": lambda: a * b, "<": lambda: a < b,
                     "<=": lambda: a <= b, ">": lambda: a > b, ">=": lambda: a >= b, "==": lambda: a == b,
                     "and": lambda: z3.And(a, b), "or": lambda: z3.Or(a, b)}
            if op not in table:
                raise Unsupported(f"operator {op}")
            return table[op]()
        raise Unsupported(f"expression {type(e).__name__} in an index position")

    # -- accesses --------------------------------------------------------------
    def in_extents(self, idx, extents):
        if len(idx) != len(extents):
            raise Unsupported("access rank differs from the declared rank")
        return z3.And(*[z3.And(0 <= i, i < n) for i, n in zip(idx, extents)]) if idx else z3.BoolVal(True)

    def to_root(self, ent, idx):
        """translate an index tuple through the chain of windows down to the buffer"""
        while ent.is_alias:
            new, k = [], 0
            for w in ent.idx:
                if w[0] == "pt":
                    new.append(w[1])
                else:
                    new.append(w[1] + idx[k])
                    k += 1
            if k != len(idx):
                raise Unsupported("window rank mismatch")
            idx, ent = new, ent.src
        return ent, idx

    def root_box(self, ent):
        """the region of the underlying buffer a (chain of) window(s) denotes:
        per dimension of the buffer ("pt", p) or ("iv", lo, hi)"""
        if not ent.is_alias:
            return ent, [("iv", z3.IntVal(0), n) for n in ent.extents]
        root, box = self.root_box(ent.src)
        out, k = [], 0
        for b in box:
            if b[0] == "pt":
                out.append(b)
                continue
            w = ent.idx[k]
            k += 1
            out.append(("pt", b[1] + w[1]) if w[0] == "pt" else ("iv", b[1] + w[1], b[1] + w[2]))
        if k != len(ent.idx):
            raise Unsupported("window rank mismatch")
        return root, out

    def window_used(self, ent, guard, depth, how):
        """a window that is accessed or passed to a call lies inside the buffer it is taken from"""
        if not ent.is_alias or depth > 0:
            return
        root, box = self.root_box(ent)
        if root.callee_local:
            return
        conds = []
        for b, n in zip(box, root.extents):
            conds.append(z3.And(0 <= b[1], b[1] < n) if b[0] == "pt" else z3.And(0 <= b[1], b[1] <= b[2], b[2] <= n))
        g = z3.And(*guard) if guard else z3.BoolVal(True)
        self.items.append(Item(f"window {ent.name} ({how}) lies inside the buffer {root.name} it is taken from",
                               "window-inside-buffer", g, z3.And(*conds)))

    def access(self, how, name, idx, guard, scope, depth, where):
        ent = scope[name]
        if not idx and not ent.is_alias and not ent.extents:
            return                      # a scalar variable
        g = z3.And(*guard) if guard else z3.BoolVal(True)
        nm = str(name)
        if depth == 0:
            what = "window" if ent.is_alias else "buffer"
            self.items.append(Item(f"{how} of {nm}{where} stays inside the declared extent of the {what} {nm}",
                                   f"{how}-declared-extent" + ("-alias" if ent.is_alias else ""), g,
                                   self.in_extents(idx, ent.extents)))
            self.window_used(ent, guard, depth, f"{how} of {nm}")
        root, ridx = self.to_root(ent, idx)
        if root.callee_local:
            return
        if root is not ent:
            via = "a callee through " if depth > 0 else ""
            self.items.append(Item(f"{how} of {nm}{where} by {via}a window lands inside the source buffer {root.name}",
                                   f"{how}-root-extent", g, self.in_extents(ridx, root.extents)))
        elif depth > 0:
            self.items.append(Item(f"{how} of {nm}{where} by a callee lands inside the caller's buffer {root.name}",
                                   f"{how}-root-extent", g, self.in_extents(ridx, root.extents)))

    def reads(self, e, guard, scope, sub, depth):
        L = self.L
        if isinstance(e, L.Read):
            if e.type.is_numeric() and e.name in scope:
                self.access("read", e.name, [self.ev(i, sub) for i in e.idx], guard, scope, depth, "")
        elif isinstance(e, L.BinOp):
            self.reads(e.lhs, guard, scope, sub, depth)
            self.reads(e.rhs, guard, scope, sub, depth)
        elif isinstance(e, L.USub):
            self.reads(e.arg, guard, scope, sub, depth)
        elif isinstance(e, L.Extern):
            for a in e.args:
                self.reads(a, guard, scope, sub, depth)
        elif isinstance(e, (L.Const, L.StrideExpr, L.WindowExpr)):
            pass
        else:
            raise Unsupported(f"right-hand side {type(e).__name__}")

    def window(self, name, wexpr, scope, sub):
        """w = src[idx] (a declaration, or a window expression in a call)"""
        L = self.L
        src = scope[wexpr.name]
        idx = []
        if len(wexpr.idx) != len(src.extents):
            raise Unsupported("window rank")
        for w in wexpr.idx:
            if isinstance(w, L.Point):
                idx.append(("pt", self.ev(w.pt, sub)))
            else:
                idx.append(("iv", self.ev(w.lo, sub), self.ev(w.hi, sub)))
        return _Alias(name, src, idx)

    # -- statements ------------------------------------------------------------
    def walk(self, stmts, guard, scope, sub, depth):
        L, T = self.L, self.T
        scope = dict(scope)
        g = lambda: z3.And(*guard) if guard else z3.BoolVal(True)
        for s in stmts:
            if isinstance(s, (L.Assign, L.Reduce)):
                self.reads(s.rhs, guard, scope, sub, depth)
                how = "write" if isinstance(s, L.Assign) else "reduce"
                self.access(how, s.name, [self.ev(i, sub) for i in s.idx], guard, scope, depth, "")
            elif isinstance(s, L.Pass):
                pass
            elif isinstance(s, L.For):
                lo, hi = self.ev(s.lo, sub), self.ev(s.hi, sub)
                if depth == 0:
                    self.items.append(Item(f"loop {s.iter}: upper bound is not below the lower bound",
                                           "loop-trip-count", g(), hi - lo >= 0))
                i = zsym(s.iter)
                self.walk(s.body, guard + [lo <= i, i < hi], scope, sub, depth)
            elif isinstance(s, L.If):
                c = self.ev(s.cond, sub)
                self.walk(s.body, guard + [c], scope, sub, depth)
                if s.orelse:
                    self.walk(s.orelse, guard + [z3.Not(c)], scope, sub, depth)
            elif isinstance(s, L.Alloc):
                ext = [self.ev(x, sub) for x in s.type.shape()]
                if depth == 0 and ext:
                    self.items.append(Item(f"allocation {s.name}: every extent is positive", "alloc-size", g(),
                                           z3.And(*[x > 0 for x in ext])))
                scope[s.name] = _Buf(s.name, ext, local_to_callee=depth > 0)
            elif isinstance(s, L.WindowStmt):
                scope[s.name] = self.window(s.name, s.rhs, scope, sub)
            elif isinstance(s, L.Call):
                self.call(s, guard, scope, sub, depth)
            else:
                raise Unsupported(f"statement {type(s).__name__}")

    def call(self, s, guard, scope, sub, depth):
        L, T = self.L, self.T
        g = z3.And(*guard) if guard else z3.BoolVal(True)
        f = s.f
        csub, cscope = {}, {}
        for sig, arg in zip(f.args, s.args):
            if isinstance(sig.type, (T.Size, T.Index, T.Bool, T.Stride)):
                v = self.ev(arg, sub)
                csub[sig.name] = v
                if isinstance(sig.type, T.Size) and depth == 0:
                    self.items.append(Item(f"call {f.name}: size argument {sig.name} is positive", "call-size", g, v > 0))
        for sig, arg in zip(f.args, s.args):
            if not sig.type.is_numeric():
                continue
            if isinstance(arg, L.Read) and not arg.idx:
                ent = scope[arg.name]
            elif isinstance(arg, L.WindowExpr):
                self.nwin += 1
                ent = self.window(f"{arg.name}[...] #{self.nwin}", arg, scope, sub)
            else:
                raise Unsupported(f"call argument {type(arg).__name__}")
            cscope[sig.name] = ent
            self.window_used(ent, guard, depth, f"argument {sig.name} of {f.name}")
            want = [self.ev(x, csub) for x in sig.type.shape()]
            if len(want) != len(ent.extents):
                raise Unsupported("call argument rank")
            if depth == 0 and want:
                self.items.append(Item(f"call {f.name}: every extent of the argument for {sig.name} is positive",
                                       "call-arg-extent-positive", g, z3.And(*[x > 0 for x in ent.extents])))
                self.items.append(Item(f"call {f.name}: shape of the argument for {sig.name} equals the declared shape",
                                       "call-shape", g, z3.And(*[a == b for a, b in zip(ent.extents, want)])))
        preds = [self.ev(p, csub) for p in f.preds]
        if depth == 0:
            for k, (p, pz) in enumerate(zip(f.preds, preds)):
                self.items.append(Item(f"call {f.name}: assertion #{k} of the callee holds at the call site",
                                       "call-assertion", g, pz))
        # accesses of the callee to the caller's storage (callee assertions hold: checked just above)
        self.walk(f.body, guard + preds, cscope, csub, depth + 1)


# ----------------------------------------------------------------------------
# program templates

SRC_HEAD = "from __future__ import annotations\nfrom exo import proc\n"


class Program:
    """text: Exo source with one or more @proc; the procedure under test is
    `main`.  `{P}` is where the declarations of the parameters go, `{name}` a use
    of a parameter.  Symbolic mode declares them (`n: size, a: index`), concrete
    mode replaces every use by a literal and declares nothing."""

    def __init__(self, name, params, text, what=""):
        self.name, self.params, self.text, self.what = name, params, text, what

    def source(self, values=None):
        if values is None:
            decl = "".join(f"{p}: {k}, " for p, k in self.params)
            m = {p: p for p, _ in self.params}
        else:
            decl = ""
            m = {p: (str(values[p]) if values[p] >= 0 else f"(0 - {-values[p]})") for p, _ in self.params}
        return SRC_HEAD + self.text.format(P=decl, **m)


_MODN = itertools.count()


def load_procs(src, checks=True):
    """exec the source as a module file (the parser wants real source lines).
    checks=False: CheckBounds / Check_Aliasing are switched off while the module
    is loaded, so that an unsafe procedure can be obtained as LoopIR."""
    import exo.API as API
    d = tempfile.mkdtemp(prefix="pyvc_c03_", dir="/var/tmp")
    old = (API.CheckBounds, API.Check_Aliasing)
    try:
        name = f"c03_prog_{os.getpid()}_{next(_MODN)}"
        p = os.path.join(d, name + ".py")
        with open(p, "w") as f:
            f.write(src)
        if not checks:
            API.CheckBounds = lambda proc: None
            API.Check_Aliasing = lambda proc: None
        spec = importlib.util.spec_from_file_location(name, p)
        mod = importlib.util.module_from_spec(spec)
        spec.loader.exec_module(mod)
        return mod
    finally:
        API.CheckBounds, API.Check_Aliasing = old
        shutil.rmtree(d, ignore_errors=True)


def accepted_by_front_end(src):
    """(accepted?, message) of the real, unstubbed @proc pipeline"""
    try:
        load_procs(src, checks=True)
        return True, ""
    except Exception as e:
        lines = str(e).splitlines()
        return False, f"{type(e).__name__}: {lines[0][:160] if lines else ''}"


def run_checkbounds(ir, answers=None):
    """the real CheckBounds on a LoopIR proc with the stub solver.
    Returns (solver, instance-or-None, exception-or-None)."""
    import exo.frontend.boundscheck as BC
    slv = FakeSolver(answers)
    old = BC._get_smt_solver
    BC._get_smt_solver = lambda: slv
    holder = {}
    try:
        try:
            cb = BC.CheckBounds.__new__(BC.CheckBounds)
            holder["cb"] = cb
            cb.__init__(ir)
            return slv, cb, None
        except TypeError as e:
            return slv, holder.get("cb"), e
    finally:
        BC._get_smt_solver = old
