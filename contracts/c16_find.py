"""C16 part 2 - find returns exactly the matches, in program order; `#n`
selects the n-th; the two `#n` regular expressions agree.

* `_children` / `_children_from_attrs` (src/exo/frontend/pattern_match.py):
  engine `run_children_asdl` parses the ASDL text of the LoopIR module out of
  src/exo/core/LoopIR.py on every run, instantiates EVERY constructor of the
  sorts proc / stmt / expr / w_access generically from the field types, and
  requires `_children` to yield exactly the child fields of sort stmt / expr /
  w_access, in declaration (= program) order, list fields element by element.
  A new constructor without a case, a dropped field or a swapped order fails.
  (For `proc` the traversal scope is the body: `preds` and `args` are not
  statements/expressions of the procedure text that `find` searches.)
* `PatternMatch.find` with a SYMBOLIC match number on real procedures: the
  result is exactly [E[n]] where E is the sequence of all matches in
  pre-order (statement before its body, body before orelse, then the following
  siblings; expression children in field order) computed by an independent
  traversal driven by the ASDL field order, with the real match relation
  (`match_e` / `match_stmts`, the specification) as the test; nothing when
  n is out of range; everything when n is None.
* `API_cursors.find`: first match / all matches / SchedulingError when empty,
  one-statement blocks unwrapped; `match_pattern` is an assumed callee.
* the regex agreement engine is contracts/c16_regex.py.
"""
from __future__ import annotations
import ast, os, re, time, types
from pyvc.contract import contract
from pyvc import sym as S
from pyvc.sym import And, Or, Not, Implies, Ite
from contracts.cursor_ghost import SRC, cursor_eq, path_eq, range_eq, Runner, stable, Outcome
from exo.core.LoopIR import LoopIR, T, PAST
from exo.core.prelude import Sym, SrcInfo
from exo.core import internal_cursors as IC
from exo.frontend import pattern_match as PM
from exo.frontend import pyparser
from exo import API as _API
from exo import API_cursors as PC

F_PM = "src/exo/frontend/pattern_match.py"
F_PC = "src/exo/API_cursors.py"
RLIMIT = 5_000_000

ENGINES = ["contracts.c16_find:run_children_asdl", "contracts.c16_regex:run"]

ASSUMPTIONS = [
    "C16 find: the match relation (PatternMatch.match_e / match_stmts / match_name: holes, zip-truncated index "
    "lists, window special cases) is the specification of 'structurally matches', it is not checked; "
    "pyparser.pattern is trusted to parse the pattern text",
    "C16 find: order and #n selection are checked on the procedures and patterns of FIND_CASES (every statement and "
    "expression constructor occurs; If with orelse, nested For, call arguments, window expressions, repeated names); "
    "the match number is symbolic (any integer or None)",
    "C16 find: for `proc` the traversal scope of `_children` is the body (preds / args are not searched)",
]


def _repo():
    return os.path.realpath(os.environ.get("VERIF_REPO", "/repo"))


# ----------------------------------------------------------------------------
# the ASDL of LoopIR, read from the source text

def read_asdl(module="LoopIR"):
    src = open(os.path.join(_repo(), "src/exo/core/LoopIR.py")).read()
    tree = ast.parse(src)
    for n in ast.walk(tree):
        if isinstance(n, ast.Call) and getattr(n.func, "id", None) == "ADT" and n.args \
                and isinstance(n.args[0], ast.Constant) and isinstance(n.args[0].value, str) \
                and re.search(r"module\s+" + module + r"\s*\{", n.args[0].value):
            return n.args[0].value
    raise NotImplementedError(f"ASDL text of module {module} not found in LoopIR.py")


def parse_asdl(text):
    """-> {sort: [(constructor name | None for a product, [(type, quantifier, field)])]}"""
    text = re.sub(r"--[^\n]*", "", text)
    body = text[text.index("{") + 1:text.rindex("}")]
    sorts = {}
    # definitions:  name = rhs   (rhs runs until the next "name =" at top level)
    defs = re.split(r"\n\s*(?=[A-Za-z_]\w*\s*=)", body)
    for d in defs:
        d = d.strip()
        if not d:
            continue
        name, rhs = d.split("=", 1)
        name = name.strip()
        rhs = re.sub(r"attributes\s*\([^)]*\)", "", rhs)
        ctors = []

        def fields(s):
            out = []
            for f in s.split(","):
                f = f.strip()
                if not f:
                    continue
                m = re.fullmatch(r"(\w+)\s*([*?]?)\s*(\w+)", f)
                if not m:
                    raise NotImplementedError(f"ASDL field {f!r}")
                out.append((m.group(1), m.group(2), m.group(3)))
            return out
        rhs = rhs.strip()
        if rhs.startswith("("):
            ctors.append((None, fields(rhs[1:rhs.rindex(")")])))
        else:
            for alt in rhs.split("|"):
                alt = alt.strip()
                if not alt:
                    continue
                m = re.fullmatch(r"(\w+)\s*\((.*)\)", alt, re.S)
                if not m:
                    raise NotImplementedError(f"ASDL alternative {alt!r}")
                ctors.append((m.group(1), fields(m.group(2))))
        sorts[name] = ctors
    return sorts


CHILD_SORTS = ("stmt", "expr", "w_access")


def _field_value(ty, q, k, depth=0):
    """a value of an ASDL field type (distinct objects for child sorts)"""
    from exo.core.memory import DRAM
    from exo.core.configs import Config
    from exo.core.extern import Extern

    def one(j):
        if ty == "expr":
            return LoopIR.Const(100 * k + j, T.int, SRC)
        if ty == "stmt":
            return LoopIR.Pass(SrcInfo(f"s{k}_{j}", 0))
        if ty == "w_access":
            return LoopIR.Point(LoopIR.Const(100 * k + j, T.int, SRC), SRC)
        if ty == "sym":
            return Sym(f"v{k}")
        if ty == "type":
            return T.f32
        if ty == "mem":
            return DRAM
        if ty == "loop_mode":
            return LoopIR.Seq()
        if ty == "binop":
            return "+"
        if ty == "config":
            return _CFG()
        if ty == "extern":
            return _EXT()
        if ty == "proc":
            return LoopIR.proc("callee", [], [], [LoopIR.Pass(SRC)], None, SRC)
        if ty == "fnarg":
            return LoopIR.fnarg(Sym(f"a{k}"), T.f32, DRAM, SRC)
        if ty == "instr":
            return None
        if ty in ("string", "name"):
            return f"f{k}"
        if ty == "object":
            return 7
        if ty == "int":
            return 0
        if ty == "bool":
            return False
        if ty == "srcinfo":
            return SRC
        raise NotImplementedError(f"no generic value for ASDL type {ty!r}")
    if q == "*":
        return [one(0), one(1)]
    if q == "?":
        return None if ty not in CHILD_SORTS else one(0)
    return one(0)


_cfg = _ext = None


def _CFG():
    global _cfg
    if _cfg is None:
        from exo.core.configs import Config
        from exo.API_types import ExoType
        _cfg = Config("Cfg", [("a", LoopIR.Index())], disable_rw=False) if False else _mk_cfg()
    return _cfg


def _mk_cfg():
    from exo import config as cfgdeco
    from exo.core.configs import Config
    try:
        return Config("CfgC16", [("a", T.index)], False)
    except Exception:
        # fall back to any object accepted by the validator
        return object.__new__(Config)


def _EXT():
    global _ext
    if _ext is None:
        from exo.libs.externs import sin
        _ext = sin
    return _ext


def instantiate(sort, cname, flds, attrs):
    cls = getattr(LoopIR, cname if cname is not None else sort)
    vals = [_field_value(ty, q, k) for k, (ty, q, _) in enumerate(flds)]
    for a in attrs:
        vals.append(SRC if a == "srcinfo" else T.int)
    return cls(*vals), vals


def asdl_attributes(text, sort):
    m = re.search(sort + r"\s*=.*?attributes\s*\(([^)]*)\)", re.sub(r"--[^\n]*", "", text), re.S)
    # make sure the attributes clause belongs to this sort (no other "x =" in between)
    if not m or re.search(r"\n\s*[A-Za-z_]\w*\s*=", m.group(0)[len(sort):]):
        return []
    return [f.split()[-1] for f in m.group(1).split(",") if f.strip()]


def run_children_asdl(tier="quick", seed=0):
    t0 = time.time()
    res = dict(obligations=0, discharged=0, functions=[f"{F_PM}::_children (every constructor of the ASDL)"],
               assumptions=[], samples=[], violations=[], undecided=[], bounded=[], clauses={}, solver_time_s=0.0)
    try:
        text = read_asdl("LoopIR")
        sorts = parse_asdl(text)
    except NotImplementedError as e:
        res["undecided"].append(f"_children/ASDL: {e}")
        return res
    ncases = 0
    for sort in ("proc",) + CHILD_SORTS:
        attrs = asdl_attributes(text, sort)
        for cname, flds in sorts.get(sort, []):
            key = f"{F_PM}::_children :: {sort}.{cname or sort}: yields exactly its child fields in program order"
            res["obligations"] += 1
            ncases += 1
            try:
                node, vals = instantiate(sort, cname, flds, attrs)
            except NotImplementedError as e:
                res["undecided"].append(f"{key}: {e}")
                res["clauses"][key] = "unknown"
                continue
            except Exception as e:
                res["undecided"].append(f"{key}: cannot instantiate: {type(e).__name__}: {e}")
                res["clauses"][key] = "unknown"
                continue
            exp = []
            for (ty, q, fname), v in zip(flds, vals):
                if ty not in CHILD_SORTS:
                    continue
                if sort == "proc" and ty != "stmt":
                    continue          # traversal scope of a procedure is its body
                if q == "*":
                    exp += [((fname, i), x) for i, x in enumerate(v)]
                elif v is not None:
                    exp.append(((fname, None), v))
            try:
                cur = IC.Node(node, [])
                got = [(c._path[-1], c._node) for c in PM._children(cur)]
                ok = len(got) == len(exp) and all(g[0] == e[0] and g[1] is e[1] for g, e in zip(got, exp)) \
                    and all(c._root is node and len(c._path) == 1 for c in PM._children(cur))
                detail = f"got {[g[0] for g in got]}, expected {[e[0] for e in exp]}"
            except BaseException as e:
                ok, detail = False, f"raised {type(e).__name__}: {e}"
            if ok:
                res["discharged"] += 1
                res["clauses"][key] = "discharged"
                if len(res["samples"]) < 3:
                    res["samples"].append(f"{key}: {detail}")
            else:
                res["clauses"][key] = "refuted"
                script = _CHILDREN_REPLAY.format(sort=sort, cname=cname, detail=detail)
                res["violations"].append(dict(obligation=key, confirmed=True, replay_script=script))
    res["bounded"].append(dict(target="_children per constructor", bound="list-valued fields instantiated with 2 elements "
                               "(any length: contract on _children_from_attrs)", cases=ncases))
    res["solver_time_s"] = round(time.time() - t0, 2)
    return res


_CHILDREN_REPLAY = '''#!/venv/bin/python
"""Replay: _children must yield exactly the child statement/expression fields of
LoopIR.{sort}.{cname} in declaration order (contracts/c16_find.py)."""
import os, sys
sys.path.insert(0, "/verif")
sys.path.insert(0, os.path.join(os.environ.get("VERIF_REPO", "/repo"), "src"))
from contracts.c16_find import run_children_asdl
r = run_children_asdl()
bad = [k for k, v in r["clauses"].items() if v == "refuted"]
print("recorded at check time: {detail}")
print("refuted now:", bad)
sys.exit(1 if bad else 0)
'''


# ----------------------------------------------------------------------------
# _children_from_attrs : any list length

c_cfa = contract("C16", F_PM, "_children_from_attrs")
c_cfa.rlimit = RLIMIT


@c_cfa.inputs
def _(g):
    n = g.choose([0, 1, 2, 3], "len idx")
    idx = [LoopIR.Const(i, T.int, SRC) for i in range(n)]
    rhs = LoopIR.Const(9, T.int, SRC)
    st = LoopIR.Assign(Sym("x"), T.f32, idx, rhs, SRC)
    root = LoopIR.proc("p", [], [], [st], None, SRC)
    k = g.choose([0, 1], "order")
    attrs = ("idx", "rhs") if k == 0 else ("rhs", "idx")
    return {"cur": IC.Node(root, [("body", 0)]), "n": st, "__args__": None, "attrs": attrs,
            "__ghost__": {"st": st}}


def _drive_cfa(R, fn, a):
    it_, e = R.call(fn, a.cur, a.n, *a.attrs)
    if e is not None:
        return Outcome(None, e)
    return Outcome(list(it_), None)


c_cfa.entry = lambda g, it, fn, a: _drive_cfa(Runner(it), fn, a)
c_cfa.native_entry = lambda g, fn, a: _drive_cfa(Runner(None), fn, a)


@c_cfa.ensures("yields the attributes in the order given, list attributes element by element, each as the child cursor")
def _(a):
    got, e = a.result
    if e is not None:
        return False
    exp = []
    for at in a.attrs:
        v = getattr(a.ghost.st, at)
        exp += [((at, i), x) for i, x in enumerate(v)] if isinstance(v, list) else [((at, None), v)]
    return len(got) == len(exp) and all(
        isinstance(c, IC.Node) and c._root is a.cur._root and c._path == a.cur._path + [e_[0]] and c._node is e_[1]
        for c, e_ in zip(got, exp))


# ----------------------------------------------------------------------------
# reference traversal (driven by the ASDL field order) and the find contract

_SORTS = None


def _sorts():
    global _SORTS
    if _SORTS is None:
        _SORTS = parse_asdl(read_asdl("LoopIR"))
        _SORTS["__ctor__"] = {}
        for sort in ("proc",) + CHILD_SORTS:
            for cname, flds in _SORTS.get(sort, []):
                _SORTS["__ctor__"][cname or sort] = (sort, flds)
    return _SORTS


def child_edges(node):
    """[(attr, index|None, child)] of a LoopIR node, from the ASDL"""
    ctor = type(node).__name__
    info = _sorts()["__ctor__"].get(ctor)
    if info is None:
        return []
    sort, flds = info
    out = []
    for ty, q, fname in flds:
        if ty not in CHILD_SORTS or (sort == "proc" and ty != "stmt"):
            continue
        v = getattr(node, fname)
        if q == "*":
            out += [(fname, i, x) for i, x in enumerate(v)]
        elif v is not None:
            out.append((fname, None, v))
    return out


def ref_expr_matches(root, start_path, pat, use_sym_id):
    """cursors (paths) of all nodes at or below start that match the expression
    pattern, in pre-order"""
    pm = PM.PatternMatch()
    pm._use_sym_id = use_sym_id
    out = []

    def rec(node, path):
        if pm.match_e(pat, node):
            out.append(("node", list(path)))
        for attr, i, ch in child_edges(node):
            rec(ch, path + [(attr, i)])
    n = root
    for a, i in start_path:
        n = getattr(n, a)
        n = n[i] if i is not None else n
    rec(n, list(start_path))
    return out


def ref_stmt_matches(root, pats, use_sym_id):
    """(anchor path, attr, lo, hi) of all matches of the statement pattern in
    pre-order: at a statement before its body, body before orelse, then the
    following siblings"""
    pm = PM.PatternMatch()
    pm._use_sym_id = use_sym_id
    out = []

    def stmt_lists_of(node):
        return [(attr, getattr(node, attr)) for attr in
                dict.fromkeys(a for a, _, c in child_edges(node) if isinstance(c, LoopIR.stmt))] + \
               [(fname, []) for ty, q, fname in _sorts()["__ctor__"].get(type(node).__name__, ("", []))[1]
                if ty == "stmt" and q == "*" and not getattr(node, fname)]

    def in_list(anchor_path, attr, lst):
        for j in range(len(lst)):
            blk = IC.Block(root, IC.Node(root, list(anchor_path)), attr, range(j, len(lst)))
            m = pm.match_stmts(pats, blk)
            if m is not None:
                out.append(("block", list(anchor_path), attr, m._range.start, m._range.stop))
            s = lst[j]
            for a2, l2 in stmt_lists_of(s):
                if l2:
                    in_list(anchor_path + [(attr, j)], a2, l2)
    in_list([], "body", root.body)
    return out


def _proc_src():
    from exo import proc, config
    from exo.libs.externs import sin

    @config
    class CfgF:
        a: index
        b: f32

    @proc
    def callee(n: size, v: f32[n]):
        for i in seq(0, n):
            v[i] = 0.0

    @proc
    def one(n: size, x: f32[8], y: f32[8]):
        assert n < 8
        for i in seq(0, 8):
            x[i] = 0.0
            if i < 4:
                x[i] = 1.0
                y[i] = (x[i] + 1.0) + (y[i] + x[i])
            else:
                x[i] = 2.0
                for j in seq(0, 2):
                    x[i] += y[j] * 2.0
            x[i] = sin(x[i])
        for i in seq(0, n):
            y[i] = -x[i]
            callee(4, x[0:4])
            w = y[2:6]
            w[0] = 3.0
            t: f32[4]
            t[0] = CfgF.b
            CfgF.a = 3
            pass
    return one._loopir_proc


FIND_PATTERNS = ["x[_] = _", "x[_] = 1.0", "for i in _: _", "for j in _: _", "if _: _", "_ = _ ; _ = _",
                 "x[_] = _ ; _", "y[_] = _", "callee(_, _)", "w = _", "t : _", "pass", "_ += _",
                 "x[_]", "y[_]", "_ + _", "_ * 2.0", "1.0", "i", "sin(_)", "-_", "CfgF.b", "i < 4"]

_cases = None


def find_cases():
    global _cases
    if _cases is None:
        root = _proc_src()
        pats = []
        for p in FIND_PATTERNS:
            try:
                pats.append((p, pyparser.pattern(p)))
            except Exception as e:        # a pattern the parser rejects is not a case
                pats.append((p, None))
        _cases = (root, [(p, a) for p, a in pats if a is not None])
    return _cases


c_find = contract("C16", F_PM, "PatternMatch.find")
c_find.rlimit = RLIMIT


@c_find.inputs
def _(g):
    root, pats = find_cases()
    text, pat = g.choose(pats, "pattern")
    scope = g.choose(["proc", "first loop"], "scope")
    n = g.optint("match_no")
    cur = IC.Node(root, []) if scope == "proc" else IC.Node(root, [("body", 0)])
    return {"self": PM.PatternMatch(), "cur": cur, "pat": pat, "match_no": n, "use_sym_id": False,
            "__ghost__": {"text": text, "scope": scope, "root": root}}


def _expected(a):
    root, cur, pat = a.ghost.root, a.cur, a.pat
    if isinstance(pat, list):
        if a.ghost.scope == "proc":
            return ref_stmt_matches(root, pat, False)
        # find_stmts on a statement cursor searches the one-statement block cur.as_block()
        pm = PM.PatternMatch()
        out = []
        sub = types.SimpleNamespace(body=[root.body[0]])
        full = ref_stmt_matches(root, pat, False)
        # matches inside the first top-level statement, plus a match starting at it that
        # stays within the one-statement block
        blk = IC.Block(root, IC.Node(root, []), "body", range(0, 1))
        m = pm.match_stmts(pat, blk)
        if m is not None:
            out.append(("block", [], "body", m._range.start, m._range.stop))
        out += [x for x in full if len(x[1]) >= 1 and x[1][0] == ("body", 0)]
        return out
    return ref_expr_matches(root, cur._path, pat, False)


def _same(res, exp):
    if exp[0] == "node":
        return isinstance(res, IC.Node) and res._path == exp[1]
    return isinstance(res, IC.Block) and res._anchor._path == exp[1] and res._attr == exp[2] \
        and res._range.start == exp[3] and res._range.stop == exp[4]


@c_find.ensures("find returns all matches in program order, or exactly the n-th for `#n`, or nothing when there are fewer")
def _(a):
    E = _expected(a)
    R_ = a.result
    n = a.match_no
    if not isinstance(R_, list) or not all(r._root is a.ghost.root for r in R_):
        return False
    if n is None:
        return len(R_) == len(E) and all(_same(r, e) for r, e in zip(R_, E))
    conds = []
    for k, e in enumerate(E):
        conds.append(Implies(n == k, len(R_) == 1 and _same(R_[0], e)))
    conds.append(Implies(Or(n < 0, n >= len(E)), len(R_) == 0))
    return And(conds)


c_find.raises(PM.PatternMatchError, when=lambda a: False, label="no PatternMatchError for a proper pattern")


# ----------------------------------------------------------------------------
# API_cursors.find : first / all / error, unwrapping of one-statement blocks

c_apif = contract("C16", F_PC, "find")
c_apif.rlimit = RLIMIT


def _raw_results(g, root):
    shape = g.choose(["none", "one stmt", "two", "block of two", "expr"], "raw matches")
    top = IC.Node(root, [])
    if shape == "none":
        return shape, []
    if shape == "one stmt":
        return shape, [IC.Block(root, top, "body", range(0, 1))]
    if shape == "two":
        return shape, [IC.Block(root, top, "body", range(0, 1)), IC.Block(root, top, "body", range(1, 2))]
    if shape == "block of two":
        return shape, [IC.Block(root, top, "body", range(0, 2))]
    return shape, [IC.Node(root, [("body", 0), ("body", 0), ("rhs", None)])]


@c_apif.inputs
def _(g):
    root, _ = find_cases()
    proc = _API.Procedure(root)
    shape, raw = _raw_results(g, root)
    many = g.choose([False, True], "many")
    g.ghost.update(raw=raw, shape=shape, many=many)
    return {"scope": IC.Node(root, []), "proc": proc, "pattern": "x[_] = _", "many": many,
            "__ghost__": {"raw": raw, "shape": shape}}


def _mp_stub_result(g, a):
    g.ghost["mp_default"] = a.default_match_no
    return list(g.ghost["raw"])


c_apif.callee("match_pattern",
              result=_mp_stub_result,
              assumed=True,
              note="match_pattern(scope, pattern, default_match_no) returns the raw cursors of all matches "
                   "(default None) or of the selected match (PatternMatch.find contract + regex engine)")

from exo.rewrite.LoopIR_scheduling import SchedulingError as _SE


def _native_api_find(g, fn, a):
    """replay: the real `find` with match_pattern replaced by the same stub"""
    def stub(scope, pattern, call_depth=1, default_match_no=None, use_sym_id=False):
        g.ghost["mp_default"] = default_match_no
        return list(g.ghost["raw"])
    old = PC.match_pattern
    PC.match_pattern = stub
    try:
        return fn(a.scope, a.proc, a.pattern, a.many)
    finally:
        PC.match_pattern = old


c_apif.native_entry = _native_api_find


@c_apif.ensures("match_pattern is asked for all matches with `many`, else for the first one")
def _(a):
    return a.g.ghost.get("mp_default", "unset") == (None if a.many else 0)

c_apif.ensures_on_raise("match_pattern is asked for all matches with `many`, else for the first one (error exit)")(
    lambda a: a.g.ghost.get("mp_default", "unset") == (None if a.many else 0))

c_apif.raises(_SE, when=lambda a: a.ghost.shape == "none", label="SchedulingError exactly when there is no match")


def _lifted_ok(c, raw, proc):
    if isinstance(raw, IC.Block) and raw._range.stop - raw._range.start == 1:
        return isinstance(c, PC.StmtCursor) and c._proc is proc and \
            c._impl._path == raw._anchor._path + [(raw._attr, raw._range.start)]
    if isinstance(raw, IC.Block):
        return isinstance(c, PC.BlockCursor) and c._proc is proc and c._impl == raw
    return isinstance(c, PC.ExprCursor) and c._proc is proc and c._impl._path == raw._path


@c_apif.ensures("the first match (or all, with many) is returned as the most specific cursor of the procedure; never an empty answer")
def _(a):
    raw, r = a.ghost.raw, a.result
    if a.ghost.shape == "none":
        return False
    if a.many:
        return isinstance(r, list) and len(r) == len(raw) and all(_lifted_ok(c, x, a.proc) for c, x in zip(r, raw))
    return _lifted_ok(r, raw[0], a.proc)
