"""C16 engine: agreement of the two regular expressions that parse `#n`.

`Procedure.find_loop` / `find_alloc_or_arg` (src/exo/API.py) accept
`name #n` with `_name_count_re`, expand it to `for {name} in _: _{count}` /
`{name}: _{count}` and hand the text to `match_pattern`
(src/exo/frontend/pattern_match.py), which splits a trailing `#n` off with
its own regular expression.  Obligations (for ALL strings, decided with z3's
sequence/regex theory; the regex literals and the f-string templates are read
from the current source on every run):

  R1  every `name count` accepted by `_name_count_re` expands to a text whose
      `#n` suffix is recognised by match_pattern's expression (otherwise the
      count is silently dropped: Python treats `# 1` as a comment and the
      default match number 0 is used - F15);
  R2  the number extracted by match_pattern is the number the user wrote.

Python's `re` syntax is translated to z3 regular expressions from the parse
tree of `re._parser` (so the translation follows the real regex text); the
character classes \\s, \\d, \\w are taken from Python's own `re` by enumeration
of all code points that z3's character sort can represent (<= U+2FFFF).  The
translation is validated on every run against `re` on all strings up to
length 4 over a small alphabet (a validation of the translator, not a claim).
"""
from __future__ import annotations
import ast, itertools, os, re, time
import z3

try:
    import re._parser as sre_parse
    import re._constants as sre_c
except ImportError:            # Python < 3.11
    import sre_parse
    import sre_constants as sre_c

MAXCH = 0x2FFFF


def _repo():
    return os.path.realpath(os.environ.get("VERIF_REPO", "/repo"))


# ---------------------------------------------------------------------------
# character classes from Python's own re

_class_cache = {}


def _ranges_of(pred):
    out, start = [], None
    for c in range(MAXCH + 1):
        if pred(c):
            if start is None:
                start = c
        elif start is not None:
            out.append((start, c - 1))
            start = None
    if start is not None:
        out.append((start, MAXCH))
    return out


def class_ranges(cat):
    if cat not in _class_cache:
        pat = {sre_c.CATEGORY_DIGIT: r"\d", sre_c.CATEGORY_SPACE: r"\s", sre_c.CATEGORY_WORD: r"\w"}[cat]
        rx = re.compile(pat)
        _class_cache[cat] = _ranges_of(lambda c: rx.fullmatch(chr(c)) is not None)
    return _class_cache[cat]


def _ch(c):
    return z3.StringVal(chr(c)) if c < 128 and chr(c).isprintable() else z3.Unit(z3.CharVal(c))


def _range_re(lo, hi):
    if lo == hi:
        return z3.Re(_ch(lo))
    return z3.Range(_ch(lo), _ch(hi))


def _union(rs):
    rs = list(rs)
    if not rs:
        return z3.Empty(z3.ReSort(z3.StringSort()))
    if len(rs) == 1:
        return rs[0]
    return z3.Union(*rs)


ANYCHAR = z3.AllChar(z3.ReSort(z3.StringSort()))


def _set_ranges(items):
    """ranges denoted by the items of an IN node (without NEGATE)"""
    out = []
    for op, av in items:
        if op is sre_c.LITERAL:
            out.append((av, av))
        elif op is sre_c.RANGE:
            out.append(av)
        elif op is sre_c.CATEGORY:
            neg = {sre_c.CATEGORY_NOT_DIGIT: sre_c.CATEGORY_DIGIT, sre_c.CATEGORY_NOT_SPACE: sre_c.CATEGORY_SPACE,
                   sre_c.CATEGORY_NOT_WORD: sre_c.CATEGORY_WORD}
            if av in neg:
                out += _complement(class_ranges(neg[av]))
            else:
                out += class_ranges(av)
        else:
            raise NotImplementedError(f"regex set item {op}")
    return _normalize(out)


def _normalize(rs):
    rs = sorted(rs)
    out = []
    for lo, hi in rs:
        if out and lo <= out[-1][1] + 1:
            out[-1] = (out[-1][0], max(out[-1][1], hi))
        else:
            out.append((lo, hi))
    return out


def _complement(rs):
    out, prev = [], 0
    for lo, hi in _normalize(rs):
        if lo > prev:
            out.append((prev, lo - 1))
        prev = hi + 1
    if prev <= MAXCH:
        out.append((prev, MAXCH))
    return out


# Alphabet reduction.  Only membership of characters in the finitely many
# character sets of the two expressions (and equality with the literal
# characters of the templates) matters, so the code points are partitioned into
# the minterms of those sets and TWO representatives are kept per minterm.  A
# class-preserving map of characters that sends one chosen character to the
# first representative of its minterm and every other character to the last
# one preserves every membership and concatenation constraint and keeps any two
# different strings different at the chosen position; hence a query that is
# unsatisfiable over the representatives is unsatisfiable over all strings,
# and a model over the representatives is a model as it stands.
ALPHABET = None


def _collect_sets(sub, acc):
    for op, av in sub:
        if op is sre_c.LITERAL:
            acc.append([(av, av)])
        elif op is sre_c.NOT_LITERAL:
            acc.append([(av, av)])
        elif op is sre_c.ANY:
            acc.append([(10, 10)])
        elif op is sre_c.IN:
            items = [x for x in av if x[0] is not sre_c.NEGATE]
            for it in items:
                acc.append(_set_ranges([it]))
        elif op in (sre_c.MAX_REPEAT, sre_c.MIN_REPEAT):
            _collect_sets(av[2], acc)
        elif op is sre_c.SUBPATTERN:
            _collect_sets(av[3], acc)
        elif op is sre_c.BRANCH:
            for x in av[1]:
                _collect_sets(x, acc)
        elif op is sre_c.CATEGORY:
            acc.append(_set_ranges([(op, av)]))


def set_alphabet(regex_texts, literal_chars):
    global ALPHABET
    sets = []
    for t in regex_texts:
        _collect_sets(sre_parse.parse(t), sets)
    for c in literal_chars:
        sets.append([(ord(c), ord(c))])
    sets.append(class_ranges(sre_c.CATEGORY_SPACE))
    sets.append([(48, 57)])
    sets.append([(10, 10)])
    sets = [_normalize(x) for x in sets]
    cuts = {0, MAXCH + 1}
    for rs in sets:
        for lo, hi in rs:
            cuts.add(lo)
            cuts.add(hi + 1)
    cuts = sorted(cuts)
    import bisect
    starts = [[lo for lo, _ in rs] for rs in sets]

    def member(rs, st, c):
        i = bisect.bisect_right(st, c) - 1
        return i >= 0 and rs[i][0] <= c <= rs[i][1]
    groups = {}
    for a, b in zip(cuts, cuts[1:]):
        sig = tuple(member(rs, st, a) for rs, st in zip(sets, starts))
        groups.setdefault(sig, []).append((a, b - 1))
    alpha = []
    for sig, ivs in groups.items():
        alpha.append(ivs[0][0])
        last = ivs[-1][1]
        if last != ivs[0][0]:
            alpha.append(last)
    ALPHABET = sorted(set(alpha))
    return ALPHABET


def _chars(rs):
    rs = _normalize(rs)
    if ALPHABET is None:
        return _union(_range_re(lo, hi) for lo, hi in rs)
    return _union(z3.Re(_ch(c)) for c in ALPHABET if any(lo <= c <= hi for lo, hi in rs))


def _sigma_star():
    return z3.Star(_union(z3.Re(_ch(c)) for c in ALPHABET))


def to_z3(sub, skip=None):
    """z3 regex for a parsed (sub)pattern without anchors.  With `skip` (a
    regex of marker characters) every character position may be preceded by
    any number of markers: the language "up to markers"."""
    def atom(r):
        return r if skip is None else z3.Concat(z3.Star(skip), r)
    parts = []
    for op, av in sub:
        if op is sre_c.LITERAL:
            parts.append(atom(z3.Re(_ch(av))))
        elif op is sre_c.NOT_LITERAL:
            parts.append(atom(_chars(_complement([(av, av)]))))
        elif op is sre_c.ANY:
            parts.append(atom(_chars(_complement([(10, 10)]))))
        elif op is sre_c.IN:
            items = list(av)
            if items and items[0][0] is sre_c.NEGATE:
                parts.append(atom(_chars(_complement(_set_ranges(items[1:])))))
            else:
                parts.append(atom(_chars(_set_ranges(items))))
        elif op in (sre_c.MAX_REPEAT, sre_c.MIN_REPEAT):
            lo, hi, body = av
            r = to_z3(body, skip)
            if hi is sre_c.MAXREPEAT:
                parts.append(z3.Star(r) if lo == 0 else (z3.Plus(r) if lo == 1 else z3.Concat(z3.Loop(r, lo, lo), z3.Star(r))))
            elif (lo, hi) == (0, 1):
                parts.append(z3.Option(r))
            else:
                parts.append(z3.Loop(r, lo, hi))
        elif op is sre_c.SUBPATTERN:
            parts.append(to_z3(av[3], skip))
        elif op is sre_c.BRANCH:
            parts.append(_union(to_z3(x, skip) for x in av[1]))
        elif op is sre_c.CATEGORY:
            parts.append(atom(_chars(_set_ranges([(op, av)]))))
        else:
            raise NotImplementedError(f"regex construct {op}")
    if not parts:
        return z3.Re(z3.StringVal(""))
    return parts[0] if len(parts) == 1 else z3.Concat(*parts)


class TopLevel:
    """a regex of the form ^ item item ... $ : top-level items with their
    capture-group number (or None) and whether they are optional groups"""
    def __init__(self, text):
        self.text = text
        p = sre_parse.parse(text)
        items = list(p)
        if not (items and items[0] == (sre_c.AT, sre_c.AT_BEGINNING)):
            raise NotImplementedError("expected a ^-anchored expression")
        if not (items[-1] == (sre_c.AT, sre_c.AT_END)):
            raise NotImplementedError("expected a $-anchored expression")
        self.items = []
        for op, av in items[1:-1]:
            grp, optional, body = None, False, [(op, av)]
            if op is sre_c.SUBPATTERN:
                grp, body = av[0], list(av[3])
            elif op in (sre_c.MAX_REPEAT, sre_c.MIN_REPEAT) and av[0] == 0 and av[1] == 1 \
                    and len(av[2]) == 1 and av[2][0][0] is sre_c.SUBPATTERN:
                grp, optional, body = av[2][0][1][0], True, list(av[2][0][1][3])
            self.items.append((grp, optional, body))

    def language(self, with_optional=True):
        """all strings s with re.search(text, s): `$` also matches before a final newline"""
        parts = []
        for grp, optional, body in self.items:
            r = to_z3(body)
            parts.append(z3.Option(r) if optional else r)
        parts.append(z3.Option(z3.Re(z3.StringVal("\n"))))
        return z3.Concat(*parts) if len(parts) > 1 else parts[0]

    def group(self, n):
        for grp, optional, body in self.items:
            if grp == n:
                return body, optional
        raise KeyError(n)


# ---------------------------------------------------------------------------
# reading the real source

def _find_func(tree, name):
    for n in ast.walk(tree):
        if isinstance(n, ast.FunctionDef) and n.name == name:
            return n
    return None


def read_api_regex(fn_name):
    """(regex text, template parts) of find_loop / find_alloc_or_arg: the
    template is the f-string assigned to `pattern`, as a list of literal
    strings and the names 'name' / 'count'"""
    src = open(os.path.join(_repo(), "src/exo/API.py")).read()
    f = _find_func(ast.parse(src), fn_name)
    rx = tmpl = None
    for n in ast.walk(f):
        if isinstance(n, ast.Assign) and len(n.targets) == 1 and isinstance(n.targets[0], ast.Name):
            if n.targets[0].id == "_name_count_re" and isinstance(n.value, ast.Constant):
                rx = n.value.value
            if n.targets[0].id == "pattern" and isinstance(n.value, ast.JoinedStr):
                tmpl = []
                for v in n.value.values:
                    if isinstance(v, ast.Constant):
                        tmpl.append(v.value)
                    elif isinstance(v, ast.FormattedValue) and isinstance(v.value, ast.Name):
                        tmpl.append(("var", v.value.id))
                    else:
                        raise NotImplementedError("template part")
    if rx is None or tmpl is None:
        raise NotImplementedError(f"could not read the regex / template of {fn_name}")
    return rx, tmpl


def read_match_pattern_regex():
    src = open(os.path.join(_repo(), "src/exo/frontend/pattern_match.py")).read()
    f = _find_func(ast.parse(src), "match_pattern")
    for n in ast.walk(f):
        if isinstance(n, ast.Call) and isinstance(n.func, ast.Attribute) and n.func.attr == "search" \
                and n.args and isinstance(n.args[0], ast.Constant) and isinstance(n.args[0].value, str):
            return n.args[0].value
    raise NotImplementedError("could not read match_pattern's regex")


# ---------------------------------------------------------------------------
# validation of the translator against Python's re (bounded, not a claim)

def validate(text, alphabet="a_1# \n", maxlen=4):
    set_alphabet([text], alphabet)
    tl = TopLevel(text)
    lang = tl.language()
    rx = re.compile(text)
    s = z3.Solver()
    bad = []
    n = 0
    for ln in range(maxlen + 1):
        for tup in itertools.product(alphabet, repeat=ln):
            w = "".join(tup)
            n += 1
            py = rx.search(w) is not None
            zz = z3.simplify(z3.InRe(z3.StringVal(w), lang))
            if not (z3.is_true(zz) or z3.is_false(zz)):
                s.push(); s.add(zz); zz = z3.BoolVal(s.check() == z3.sat); s.pop()
            if py != z3.is_true(zz):
                bad.append(w)
    return n, bad


# ---------------------------------------------------------------------------
# the obligations

def _str(x):
    return z3.StringVal(x)


def _unescape(txt):
    """z3 prints non-ASCII characters as \\u{hex}"""
    return re.sub(r"\\u\{([0-9a-fA-F]+)\}", lambda m: chr(int(m.group(1), 16)), txt)


def _st(r):
    return "discharged" if r == z3.unsat else ("refuted" if r == z3.sat else "unknown")


def check_agreement(fn_name, timeout_ms=120000):
    """-> list of (obligation id, status, witness|None, text)"""
    api_text, tmpl = read_api_regex(fn_name)
    mp_text = read_match_pattern_regex()
    A, M = TopLevel(api_text), TopLevel(mp_text)
    name_body, _ = A.group(1)
    cnt_body, cnt_opt = A.group(2)
    name, cnt = z3.String("name"), z3.String("count")
    lits = "".join(p for p in tmpl if isinstance(p, str))
    set_alphabet([api_text, mp_text], lits + "a_1# \n")
    pre = [z3.InRe(name, to_z3(name_body)), z3.InRe(cnt, to_z3(cnt_body))]
    parts = []
    for p in tmpl:
        if isinstance(p, str):
            parts.append(_str(p))
        else:
            parts.append({"name": name, "count": cnt}[p[1]])
    expanded = z3.Concat(*parts)
    out = []

    # R1: the expansion is recognised by match_pattern's regex.  One string
    # variable: emptiness of  (T0 NAME T1 COUNT) & ~L(match_pattern)
    e_parts = []
    for p_ in tmpl:
        if isinstance(p_, str):
            e_parts.append(z3.Re(_str(p_)))
        else:
            e_parts.append(to_z3(name_body if p_[1] == "name" else cnt_body))
    w1 = z3.String("w1")
    s = z3.Solver()
    s.set("timeout", timeout_ms)
    s.add(z3.InRe(w1, z3.Intersect(z3.Concat(*e_parts), z3.Complement(M.language()))))
    r = s.check()
    wit = None
    if r == z3.sat:
        txt = s.model().eval(w1, model_completion=True).as_string()
        txt = _unescape(txt)
        k = txt.rfind("#")
        wit = dict(expanded=txt, name="i", count=txt[k:])
    out.append((f"{fn_name}: every accepted `name #n` is recognised as a count by match_pattern",
                _st(r), wit,
                f"API regex {api_text!r}, template {tmpl!r}, match_pattern regex {mp_text!r}"))

    # R2: the number extracted is the number written.  The user's number is
    # the digit string d of  count = '#' ws d  (Python: int(count[1:])), i.e.
    # the suffix of the expanded text starting at the mark <A.  match_pattern's
    # group 2 is delimited by the marks <M ... >M.  Both decompositions are laid
    # over ONE string with three marker characters (each language is taken "up
    # to the other's markers"); the numbers can differ only if the marks sit at
    # different positions: a real character between <A and <M, or after >M.
    # That is a pure regular-language emptiness question.
    mA, mB, mE = 0xE000, 0xE001, 0xE002
    MA, MB, ME = (z3.Re(z3.Unit(z3.CharVal(c))) for c in (mA, mB, mE))
    sig = _union(z3.Re(_ch(c)) for c in ALPHABET)
    anyc = z3.Union(sig, MA, MB, ME)
    skipA = z3.Union(MB, ME)            # A's view ignores M's marks
    skipM = MA                          # M's view ignores A's mark
    sp = _chars(class_ranges(sre_c.CATEGORY_SPACE))
    dg = _chars([(48, 57)])

    def lit(text, skip):
        return z3.Concat(*[z3.Concat(z3.Star(skip), z3.Re(_ch(ord(ch)))) for ch in text]) if len(text) > 1 else \
            z3.Concat(z3.Star(skip), z3.Re(_ch(ord(text))))
    # A side: template with `count` spelled  '#' ws <A digits
    a_parts = []
    for p_ in tmpl:
        if isinstance(p_, str):
            a_parts.append(lit(p_, skipA))
        elif p_[1] == "name":
            a_parts.append(to_z3(name_body, skipA))
        else:
            a_parts += [lit("#", skipA), z3.Star(z3.Concat(z3.Star(skipA), sp)), z3.Star(skipA), MA,
                        z3.Plus(z3.Concat(z3.Star(skipA), dg))]
    a_parts.append(z3.Star(skipA))
    LA = z3.Concat(*a_parts)
    # the count of the API regex must be of that spelled form (checked, not assumed)
    s0 = z3.Solver()
    s0.set("timeout", timeout_ms)
    c0 = z3.String("c0")
    s0.add(z3.InRe(c0, to_z3(cnt_body)),
           z3.Not(z3.InRe(c0, z3.Concat(z3.Re(_str("#")), z3.Star(sp), z3.Plus(dg)))))
    spelled = s0.check()
    # M side
    m_parts = []
    for grp, optional, body in M.items:
        r_ = to_z3(body, skipM)
        if grp == 2:
            r_ = z3.Concat(z3.Star(skipM), MB, r_, z3.Star(skipM), ME)
        m_parts.append(z3.Option(r_) if optional else r_)
    m_parts.append(z3.Option(z3.Concat(z3.Star(skipM), z3.Re(_str("\n")))))
    m_parts.append(z3.Star(skipM))
    LM = z3.Concat(*m_parts)
    star = z3.Star(anyc)
    mk = z3.Star(z3.Union(MA, MB, ME))
    bad = z3.Union(z3.Concat(star, MA, mk, sig, star, MB, star),
                   z3.Concat(star, MB, mk, sig, star, MA, star),
                   z3.Concat(star, ME, star, sig, star))
    w = z3.String("w")
    s = z3.Solver()
    s.set("timeout", timeout_ms)
    s.add(z3.InRe(w, z3.Intersect(LA, LM, bad)))
    r = s.check()
    wit = None
    if r == z3.sat:
        txt = s.model().eval(w, model_completion=True).as_string()
        wit = dict(marked=txt, name="i", count="#1")
    st2 = _st(r) if spelled == z3.unsat else "unknown"
    out.append((f"{fn_name}: the match number extracted by match_pattern is the number written after '#'",
                st2, wit, "marks: <A = \\ue000 (user's digits start), <M..>M = \\ue001..\\ue002 (match_pattern group 2)"))
    return out


REPLAY = '''#!/venv/bin/python
"""Replay of the C16 regex-agreement obligation (generated by contracts/c16_regex.py).
exit 1 = the real code selects a different match for the spaced count than for the compact one."""
from __future__ import annotations
import os, sys
sys.path.insert(0, os.path.join(os.environ.get("VERIF_REPO", "/repo"), "src"))
from exo import proc
{procsrc}
name, count = {name!r}, {count!r}
n = int(count[1:])
print("pattern:", repr(name + " " + count), " i.e. match number", n)
try:
    got = str(foo.{fn}(name + " " + count){body}._impl._node)
except Exception as e:
    got = "raised " + type(e).__name__
try:
    want = str(foo.{fn}(name + " #" + str(n)){body}._impl._node)
except Exception as e:
    want = "raised " + type(e).__name__
print("with the count as written:", got)
print("with the compact count   :", want)
sys.exit(1 if got != want else 0)
'''


_PROCS = {
    "find_loop": """@proc
def foo(x: f32[4]):
    for i in seq(0, 4):
        x[i] = 1.0
    for i in seq(0, 4):
        x[i] = 2.0""",
    "find_alloc_or_arg": """@proc
def foo(x: f32[4]):
    for k in seq(0, 4):
        i: f32
        i = 1.0
    for k in seq(0, 4):
        i: f32[2]
        i[0] = 2.0""",
}


def run(tier="quick", seed=0):
    t0 = time.time()
    res = dict(obligations=0, discharged=0, functions=[], assumptions=[], samples=[], violations=[],
               undecided=[], bounded=[], clauses={}, solver_time_s=0.0)
    res["functions"] = ["src/exo/API.py::Procedure.find_loop (name#n regex + expansion)",
                        "src/exo/API.py::Procedure.find_alloc_or_arg (name#n regex + expansion)",
                        "src/exo/frontend/pattern_match.py::match_pattern (#n regex)"]
    res["assumptions"] = [
        "C16 regex: Python `re` semantics are modelled by translation of the re._parser tree to z3 regular "
        "expressions; \\s, \\d, \\w are enumerated from Python's re for code points <= U+2FFFF (z3's character sort)",
        "C16 regex: the intended match number of `name #n` is int(n) as written by the user (docstrings of "
        "find_loop and get_match_no)"]
    try:
        # translator validation
        nval = 0
        for text in {read_api_regex("find_loop")[0], read_match_pattern_regex()}:
            n, bad = validate(text)
            nval += n
            if bad:
                res["undecided"].append(f"regex translator disagrees with Python re on {bad[:3]!r} for {text!r}")
        res["bounded"].append(dict(target="validation of the regex-to-z3 translator against Python re",
                                   bound="all strings of length <= 4 over {a,_,1,#,space,newline}", cases=nval))
        for fn in ("find_loop", "find_alloc_or_arg"):
            for oid, status, wit, text in check_agreement(fn):
                res["obligations"] += 1
                key = f"src/exo/API.py::Procedure.{fn} :: {oid}"
                res["clauses"][key] = status
                if status == "discharged":
                    res["discharged"] += 1
                    res["samples"].append(f"{key}: unsat (z3 seq/re)")
                elif status == "refuted":
                    # same whitespace as the witness, a small number so that the match exists
                    cnt = wit["count"]
                    k = len(cnt.rstrip("0123456789"))
                    script = REPLAY.format(name="i", count=cnt[:k] + "1", fn=fn, procsrc=_PROCS[fn],
                                           body=".body()[0]" if fn == "find_loop" else "")
                    confirmed = _confirm(script)
                    res["violations"].append(dict(obligation=key, confirmed=confirmed,
                                                  replay_script=script + f"# solver witness: {wit!r}\n"))
                else:
                    res["undecided"].append(f"{key}: solver returned unknown")
    except NotImplementedError as e:
        res["undecided"].append(f"c16_regex: unsupported: {e}")
    res["solver_time_s"] = round(time.time() - t0, 2)
    return res


def _confirm(script):
    import subprocess, tempfile
    d = tempfile.mkdtemp(prefix="pyvc_rx_", dir="/var/tmp")
    try:
        p = os.path.join(d, "r.py")
        with open(p, "w") as f:
            f.write(script)
        r = subprocess.run(["/venv/bin/python", p], capture_output=True, text=True, timeout=300,
                           env=dict(os.environ))
        return r.returncode == 1
    finally:
        import shutil
        shutil.rmtree(d, ignore_errors=True)


if __name__ == "__main__":
    import json
    print(json.dumps(run(), indent=1)[:3000])
