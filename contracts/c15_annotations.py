"""C15 - inconsistent precision / memory / window annotations are rejected (thin).

Contracts (pyvc, value contracts; every annotation domain is finite and is
enumerated exhaustively, expression shapes are schematic or bounded):

  src/exo/backend/prec_analysis.py
    PrecisionAnalysis.map_e   BinOp case, operands = induction hypothesis
                              (`apply_e` replaced by its contract): the typing
                              lattice {err, R, p, p'}: two different concrete
                              precisions => one error recorded, result err; R next
                              to p is coerced to p throughout; R with R stays R;
                              result well formed (wf).   Extern case likewise.
    PrecisionAnalysis.coerce_e   an R-typed expression becomes uniformly p.
    PrecisionAnalysis.map_s   Assign/Reduce on whole right-hand sides (real
                              recursion, depth <= 3): no error recorded ==> every
                              numeric BinOp has operands of one concrete
                              precision and no R is left; an error IS recorded
                              whenever two different concrete precisions meet in
                              one BinOp (oracle: an independent recursive check).
                              Call: argument precision != callee precision (R =
                              the default precision) => error recorded.
  src/exo/backend/mem_analysis.py
    MemoryAnalysis.mem_s      Call: returns normally  <=>  for every numeric
                              argument issubclass(caller memory, callee memory);
                              otherwise TypeError.
  src/exo/backend/win_analysis.py
    WindowAnalysis.map_s      Call: a dense tensor where a window is expected is
                              promoted to the full window [0:N) of that tensor; a
                              window where a dense tensor is required raises
                              TypeError.
  src/exo/backend/LoopIR_compiler.py
    Compiler.comp_e           Read of a buffer: text is produced only if the
                              buffer's memory `can_read()`, else MemGenError.
    Compiler.comp_s           Assign / Reduce: the emitted line IS the result of
                              `mem.write` / `mem.reduce` of the buffer's memory
                              (a memory that does not define them raises
                              MemGenError); a precision change is an explicit
                              cast to the left-hand precision.
"""
from __future__ import annotations
from collections import ChainMap
from pyvc.contract import contract
from pyvc.sym import And, Or, Not, Implies
from exo.core.LoopIR import LoopIR, T
from exo.core.prelude import Sym, SrcInfo
from exo.core.memory import Memory, DRAM, MemGenError
from exo.backend import prec_analysis as PA
from exo.backend import mem_analysis as MA
from exo.backend import win_analysis as WA
from exo.backend import LoopIR_compiler as LC

SRC = SrcInfo("c15", 0)
F_PREC = "src/exo/backend/prec_analysis.py"
F_MEM = "src/exo/backend/mem_analysis.py"
F_WIN = "src/exo/backend/win_analysis.py"
F_COMP = "src/exo/backend/LoopIR_compiler.py"

ASSUMPTIONS = [
    "C15: 'the emitted text is grammatical, well-typed C' as a language-level judgement is NOT covered: no C grammar "
    "or C type checker is in reach of function contracts (a gcc -fsyntax-only run would be testing, not this family)",
    "C15: assignment of a q-precision value to a p-precision buffer is an explicit cast by design (not a rejection); "
    "what is checked is that the cast is emitted to the left-hand precision",
    "C15: PrecisionAnalysis / MemoryAnalysis / WindowAnalysis reach every statement through LoopIR_Rewrite's traversal "
    "(traversal plumbing not under contract here); text produced by Memory.alloc/free/window macros is not covered",
    "C15: expression shapes are bounded (depth <= 3) where the real recursion is executed; the precision, memory and "
    "window-ness domains are enumerated exhaustively",
]

PRECS = [T.f16, T.f32, T.f64, T.int8, T.uint8, T.uint16, T.int32]
PNAMES = ["f16", "f32", "f64", "i8", "ui8", "ui16", "i32"]
LATTICE = PRECS + [T.R, T.err]
LNAMES = PNAMES + ["R", "err"]
ZERO = LoopIR.Const(0, T.int, SRC)


def is_prec(t):
    return any(t == p for p in PRECS)


# ----------------------------------------------------------------------------
# ghost predicates over analysed expressions

def nodes(e):
    out = [e]
    if isinstance(e, LoopIR.BinOp):
        out += nodes(e.lhs) + nodes(e.rhs)
    elif isinstance(e, LoopIR.USub):
        out += nodes(e.arg)
    elif isinstance(e, LoopIR.Extern):
        for a in e.args:
            out += nodes(a)
    return out


def wf(e):
    """every numeric BinOp / USub / Extern node either carries the error type or
    has operands of exactly its own type"""
    for n in nodes(e):
        if not n.type.is_real_scalar() and n.type != T.err:
            continue
        if n.type == T.err:
            continue
        if isinstance(n, LoopIR.BinOp) and not (n.lhs.type == n.type and n.rhs.type == n.type):
            return False
        if isinstance(n, LoopIR.USub) and n.arg.type != n.type:
            return False
        if isinstance(n, LoopIR.Extern) and not all(a.type == n.type for a in n.args):
            return False
    return True


def uniform(e, p):
    return all(n.type == p for n in nodes(e) if n.type.is_real_scalar() or n.type == T.err)


def no_R(e):
    return all(n.type != T.R for n in nodes(e))


# ----------------------------------------------------------------------------
# representatives of analysed operands, by type

def buf_of(g, p, nm):
    """a buffer symbol of precision p, registered in the analysis' type table"""
    s = Sym(nm)
    g.ghost.setdefault("types", {})[s] = T.Tensor([LoopIR.Const(8, T.int, SRC)], False, p)
    return s


def rep(g, t, nm, rshapes=("const", "usub", "binop", "nested")):
    if t == T.err:
        return LoopIR.Const(0, T.err, SRC)
    if t == T.R:
        k = g.choose(list(rshapes), nm + ".Rshape")
        c = lambda v: LoopIR.Const(v, T.R, SRC)
        if k == "const":
            return c(1.5)
        if k == "usub":
            return LoopIR.USub(c(2.5), T.R, SRC)
        if k == "binop":
            return LoopIR.BinOp("*", c(2.0), c(3.0), T.R, SRC)
        return LoopIR.BinOp("+", LoopIR.USub(c(1.0), T.R, SRC), LoopIR.BinOp("*", c(2.0), c(3.0), T.R, SRC), T.R, SRC)
    return LoopIR.Read(buf_of(g, t, nm), [ZERO], t, SRC)


def mk_pa(g):
    o = PA.PrecisionAnalysis()
    o._types = dict(g.ghost.get("types", {}))
    o.default = T.f32
    return o


# ----------------------------------------------------------------------------
# PrecisionAnalysis.map_e : BinOp lattice (operands = induction hypothesis)

cme = contract("C15", F_PREC, "PrecisionAnalysis.map_e", name=F_PREC + "::PrecisionAnalysis.map_e[BinOp]")


@cme.inputs
def _(g):
    op = "*"
    li = g.choose(list(range(len(LATTICE))), "lhs.type")
    ri = g.choose(list(range(len(LATTICE))), "rhs.type")
    lhs, rhs = rep(g, LATTICE[li], "l"), rep(g, LATTICE[ri], "r")
    # the un-analysed node: front-end type R (or the buffers' precision), irrelevant to the rule
    e = LoopIR.BinOp(op, lhs, rhs, T.R, SRC)
    g.ghost["apply_e"] = {id(lhs): lhs, id(rhs): rhs}
    return {"self": mk_pa(g), "e": e, "__ghost__": {"lt": LATTICE[li], "rt": LATTICE[ri]}}


cme.callee("LoopIR_Rewrite.apply_e", result=lambda g, a: g.ghost["apply_e"][id(a.old)], assumed=False,
           note="induction hypothesis: apply_e returns a well-formed operand of type err, R or a concrete precision")


@cme.ensures("two different concrete precisions in one operation: an error is recorded and the result is err")
def _(a):
    lt, rt = a.ghost.lt, a.ghost.rt
    if is_prec(lt) and is_prec(rt) and lt != rt:
        return len(a.self._errors) == 1 and a.result.type == T.err
    return True


@cme.ensures("no error is recorded unless two different concrete precisions meet")
def _(a):
    lt, rt = a.ghost.lt, a.ghost.rt
    if is_prec(lt) and is_prec(rt) and lt != rt:
        return True
    return len(a.self._errors) == 0


@cme.ensures("result type follows the lattice: err absorbs, R+R = R, R+p = p, p+p = p")
def _(a):
    lt, rt, r = a.ghost.lt, a.ghost.rt, a.result
    if lt == T.err or rt == T.err:
        return r.type == T.err
    if lt == T.R and rt == T.R:
        return r.type == T.R
    if lt == T.R:
        return r.type == rt
    if rt == T.R:
        return r.type == lt
    return r.type == (lt if lt == rt else T.err)


@cme.ensures("no error recorded ==> both operands of the result have the result's precision (R literals coerced throughout)")
def _(a):
    r = a.result
    if len(a.self._errors) > 0 or r.type == T.err:
        return True
    return uniform(r.lhs, r.type) and uniform(r.rhs, r.type) and wf(r)


# Extern case
cmx = contract("C15", F_PREC, "PrecisionAnalysis.map_e", name=F_PREC + "::PrecisionAnalysis.map_e[Extern]")


def _extern():
    from exo.libs.externs import select
    return select


@cmx.inputs
def _(g):
    # select(a, b, c, d): four arguments; enumerate the types of two of them, the others follow the first
    ts = [g.choose(list(range(len(LATTICE) - 1)), f"arg{k}.type") for k in range(2)]
    ts.append(ts[0])
    args = [rep(g, LATTICE[t], f"a{k}", rshapes=("const", "binop") if k == 0 else ("usub",)) for k, t in enumerate(ts)]
    e = LoopIR.Extern(_extern(), args, T.R, SRC)
    g.ghost["apply_e"] = {id(x): x for x in args}
    return {"self": mk_pa(g), "e": e, "__ghost__": {"ts": [LATTICE[t] for t in ts]}}


cmx.callee("LoopIR_Rewrite.apply_e", result=lambda g, a: g.ghost["apply_e"][id(a.old)], assumed=False,
           note="induction hypothesis")


@cmx.ensures("extern arguments of two different concrete precisions: an error is recorded")
def _(a):
    ps = [t for t in a.ghost.ts if is_prec(t)]
    if any(p != ps[0] for p in ps):
        return len(a.self._errors) > 0
    return len(a.self._errors) == 0


@cmx.ensures("no error recorded ==> every argument has the extern's precision")
def _(a):
    if len(a.self._errors) > 0:
        return True
    r = a.result
    return all(uniform(x, r.type) for x in r.args)


# ----------------------------------------------------------------------------
# coerce_e

cco = contract("C15", F_PREC, "PrecisionAnalysis.coerce_e")


@cco.inputs
def _(g):
    p = g.choose(list(range(len(PRECS))), "btyp")
    e = rep(g, T.R, "e")
    return {"self": mk_pa(g), "e": e, "btyp": PRECS[p]}


@cco.ensures("the coerced expression has the requested precision at every node")
def _(a):
    return uniform(a.result, a.btyp) and wf(a.result)


# ----------------------------------------------------------------------------
# map_s : whole right-hand sides (real recursion), Call boundary

P3 = [T.f32, T.f64, T.int8]


def rhs_shape(g, k, y, z):
    rd = lambda s: LoopIR.Read(s, [ZERO], T.R, SRC)      # front end: reads typed by the declaration; analysis re-types
    c = lambda v: LoopIR.Const(v, T.R, SRC)
    B = lambda op, l, r: LoopIR.BinOp(op, l, r, T.R, SRC)
    if k == "const":
        return c(1.0)
    if k == "read":
        return rd(y)
    if k == "read+const":
        return B("+", rd(y), c(2.0))
    if k == "const*read":
        return B("*", c(2.0), rd(y))
    if k == "read+read":
        return B("+", rd(y), rd(z))
    if k == "(read*const)+read":
        return B("+", B("*", rd(y), c(0.5)), rd(z))
    if k == "read*(const+const)":
        return B("*", rd(y), B("+", c(1.0), c(2.0)))
    if k == "-(read)+read":
        return B("+", LoopIR.USub(rd(y), T.R, SRC), rd(z))
    if k == "const-(-const)":
        return B("-", c(1.0), LoopIR.USub(c(2.0), T.R, SRC))
    raise AssertionError(k)


RHS_SHAPES = ["const", "read", "read+const", "const*read", "read+read", "(read*const)+read", "read*(const+const)",
              "-(read)+read", "const-(-const)"]


def mixes(e, types):
    """oracle, independent of prec_analysis: the concrete precision of e (None = R literal
    only) and whether two different concrete precisions meet in one operation"""
    if isinstance(e, LoopIR.Const):
        return None, False
    if isinstance(e, LoopIR.Read):
        return types[e.name].basetype(), False
    if isinstance(e, LoopIR.USub):
        return mixes(e.arg, types)
    if isinstance(e, LoopIR.BinOp):
        (pl, ml), (pr, mr) = mixes(e.lhs, types), mixes(e.rhs, types)
        if ml or mr:
            return None, True
        if pl is not None and pr is not None and pl != pr:
            return None, True
        return (pl if pl is not None else pr), False
    raise AssertionError


cas = contract("C15", F_PREC, "PrecisionAnalysis.map_s", name=F_PREC + "::PrecisionAnalysis.map_s[Assign/Reduce]")


@cas.inputs
def _(g):
    k = g.choose(RHS_SHAPES, "rhs")
    kind = "Assign" if RHS_SHAPES.index(k) % 2 == 0 else "Reduce"
    two = "read+read" in k or ")+read" in k
    noread = "read" not in k
    if two:
        px = [T.f32, T.int8][g.choose([0, 1], "x.prec")]
    elif noread:
        px = PRECS[g.choose(list(range(len(PRECS))), "x.prec")]
    else:
        px = P3[g.choose([0, 1, 2], "x.prec")]
    py = T.f32 if noread else PRECS[g.choose(list(range(len(PRECS))), "y.prec")]
    pz = PRECS[g.choose(list(range(len(PRECS))), "z.prec")] if two else py
    x, y, z = buf_of(g, px, "x"), buf_of(g, py, "y"), buf_of(g, pz, "z")
    ctor = LoopIR.Assign if kind == "Assign" else LoopIR.Reduce
    s = ctor(x, T.R, [ZERO], rhs_shape(g, k, y, z), SRC)
    return {"self": mk_pa(g), "s": s, "__ghost__": {"px": px}}


@cas.ensures("an error is recorded exactly when two different concrete precisions meet in one operation")
def _(a):
    _, m = mixes(a.s.rhs, a.self._types)
    return (len(a.self._errors) > 0) == m


@cas.ensures("no error recorded ==> every operation of the right-hand side has operands of one concrete precision, no R is left")
def _(a):
    if len(a.self._errors) > 0:
        return True
    st = a.result[0]
    return wf(st.rhs) and no_R(st.rhs) and st.rhs.type != T.err and st.type == a.ghost.px


ccl = contract("C15", F_PREC, "PrecisionAnalysis.map_s", name=F_PREC + "::PrecisionAnalysis.map_s[Call]")


def _callee(sig_types):
    args = [LoopIR.fnarg(Sym(f"p{k}"), t, DRAM, SRC) for k, t in enumerate(sig_types)]
    return LoopIR.proc("callee", args, [], [LoopIR.Pass(SRC)], None, SRC)


@ccl.inputs
def _(g):
    pc = PRECS[g.choose(list(range(len(PRECS))), "caller.prec")]
    si = g.choose(list(range(len(PRECS) + 1)), "callee.prec")
    ps = (PRECS + [T.R])[si]
    form = g.choose(["tensor", "window", "scalar"], "arg")
    x = Sym("x")
    n8 = LoopIR.Const(8, T.int, SRC)
    if form == "scalar":
        g.ghost.setdefault("types", {})[x] = pc
        arg = LoopIR.Read(x, [], T.R, SRC)
        sig = ps
    else:
        ttyp = T.Tensor([n8], False, pc)
        g.ghost.setdefault("types", {})[x] = ttyp
        if form == "tensor":
            arg = LoopIR.Read(x, [], T.Tensor([n8], False, T.R), SRC)
            sig = T.Tensor([n8], False, ps)
        else:
            idx = [LoopIR.Interval(ZERO, n8, SRC)]
            wt = T.Window(T.Tensor([n8], False, T.R), T.Tensor([n8], True, T.R), x, idx)
            arg = LoopIR.WindowExpr(x, idx, wt, SRC)
            sig = T.Tensor([n8], True, ps)
    # a second, index argument: never a precision error
    s = LoopIR.Call(_callee([sig, T.index]), [arg, ZERO], SRC)
    return {"self": mk_pa(g), "s": s, "__ghost__": {"pc": pc, "ps": ps}}


@ccl.ensures("argument precision differs from the callee's declared precision (R = default) <==> an error is recorded")
def _(a):
    want = a.self.default if a.ghost.ps == T.R else a.ghost.ps
    return (len(a.self._errors) > 0) == (want != a.ghost.pc)


# ----------------------------------------------------------------------------
# MemoryAnalysis.mem_s : call boundary

class MemA(DRAM):
    pass


class MemB(MemA):
    pass


class MemC(DRAM):
    pass


MEMS = [DRAM, MemA, MemB, MemC]

cmm = contract("C15", F_MEM, "MemoryAnalysis.mem_s")


@cmm.inputs
def _(g):
    ci, si = [g.choose([0, 1, 2, 3], "caller.mem0")], [g.choose([0, 1, 2, 3], "callee.mem0")]
    c1, s1 = g.choose([(0, 0), (3, 1), (2, 1), (0, 2)], "window argument (caller, callee) memories")
    ci.append(c1)
    si.append(s1)
    o = object.__new__(MA.MemoryAnalysis)
    x, y = Sym("x"), Sym("y")
    o.mem_env = ChainMap({x: MEMS[ci[0]], y: MEMS[ci[1]]})
    o.tofree = [[]]
    o.aliases = {}
    n8 = LoopIR.Const(8, T.int, SRC)
    tt = T.Tensor([n8], False, T.f32)
    f = LoopIR.proc("callee", [LoopIR.fnarg(Sym("a"), tt, MEMS[si[0]], SRC),
                               LoopIR.fnarg(Sym("n"), T.size, None, SRC),
                               LoopIR.fnarg(Sym("b"), T.Tensor([n8], True, T.f32), MEMS[si[1]], SRC)],
                    [], [LoopIR.Pass(SRC)], None, SRC)
    idx = [LoopIR.Interval(ZERO, n8, SRC)]
    wexpr = LoopIR.WindowExpr(y, idx, T.Window(tt, T.Tensor([n8], True, T.f32), y, idx), SRC)
    s = LoopIR.Call(f, [LoopIR.Read(x, [], tt, SRC), n8, wexpr], SRC)
    return {"self": o, "s": s, "__ghost__": {"c": [MEMS[i] for i in ci], "s": [MEMS[i] for i in si]}}


def _mem_ok(a):
    return all(issubclass(c, s) for c, s in zip(a.ghost.c, a.ghost.s))


@cmm.ensures("a call is accepted only if every argument's memory is a subclass of the memory the callee declares")
def _(a):
    return _mem_ok(a) and a.result is a.s


cmm.raises(TypeError, when=lambda a: not _mem_ok(a), label="TypeError only for a memory mismatch")


# ----------------------------------------------------------------------------
# WindowAnalysis.map_s

cwa = contract("C15", F_WIN, "WindowAnalysis.map_s")


@cwa.inputs
def _(g):
    ak = g.choose(["dense", "window_param", "derived_window", "window_expr"], "arg")
    sk = g.choose(["dense", "window"], "sig")
    rank = g.choose([1, 2], "rank")
    dims = [LoopIR.Const(8 + k, T.int, SRC) for k in range(rank)]
    x = Sym("x")
    dense = T.Tensor(dims, False, T.f32)
    full = [LoopIR.Interval(ZERO, d, SRC) for d in dims]
    if ak == "dense":
        arg = LoopIR.Read(x, [], dense, SRC)
    elif ak == "window_param":
        arg = LoopIR.Read(x, [], T.Tensor(dims, True, T.f32), SRC)
    elif ak == "derived_window":
        arg = LoopIR.Read(Sym("w"), [], T.Window(dense, T.Tensor(dims, True, T.f32), x, full), SRC)
    else:
        arg = LoopIR.WindowExpr(x, full, T.Window(dense, T.Tensor(dims, True, T.f32), x, full), SRC)
    sig = T.Tensor(dims, sk == "window", T.f32)
    f = LoopIR.proc("callee", [LoopIR.fnarg(Sym("a"), sig, DRAM, SRC), LoopIR.fnarg(Sym("n"), T.size, None, SRC)],
                    [], [LoopIR.Pass(SRC)], None, SRC)
    s = LoopIR.Call(f, [arg, dims[0]], SRC)
    return {"self": WA.WindowAnalysis(), "s": s, "__ghost__": {"ak": ak, "sk": sk, "x": x, "dims": dims, "arg": arg}}


@cwa.ensures("where a window is expected the argument is a window: a dense tensor is promoted to its full window")
def _(a):
    gh = a.ghost
    new = a.result[0].args[0]
    if gh.sk == "dense":
        return gh.ak == "dense" and new is gh.arg
    if gh.ak != "dense":
        return new is gh.arg and new.type.is_win()
    ok = (isinstance(new, LoopIR.WindowExpr) and new.name is gh.x and isinstance(new.type, T.Window)
          and new.type.src_buf is gh.x and new.type.is_win() and len(new.idx) == len(gh.dims))
    if not ok:
        return False
    for w, d, td in zip(new.idx, gh.dims, new.type.as_tensor.hi):
        if not (isinstance(w, LoopIR.Interval) and isinstance(w.lo, LoopIR.Const) and w.lo.val == 0 and w.hi is d
                and td is d):
            return False
    return new.type.src_type is gh.arg.type and new.type.as_tensor.is_window


@cwa.ensures("the other arguments and the callee are unchanged")
def _(a):
    r = a.result[0]
    return isinstance(r, LoopIR.Call) and r.f is a.s.f and len(r.args) == 2 and r.args[1] is a.s.args[1]


cwa.raises(TypeError, when=lambda a: a.ghost.sk == "dense" and a.ghost.ak != "dense",
           label="TypeError only for a window passed where a dense tensor is required")


# ----------------------------------------------------------------------------
# Compiler.comp_e (Read gate) and comp_s (write / reduce gates)

class ReadOnly(DRAM):
    """can be read; does not define write / reduce (Memory's defaults raise)"""
    @classmethod
    def write(cls, s, lhs, rhs):
        return Memory.write.__func__(cls, s, lhs, rhs)

    @classmethod
    def reduce(cls, s, lhs, rhs):
        return Memory.reduce.__func__(cls, s, lhs, rhs)


class WriteOnly(DRAM):
    @classmethod
    def can_read(cls):
        return False

    @classmethod
    def write(cls, s, lhs, rhs):
        return f"WO_WRITE({lhs}, {rhs});"

    @classmethod
    def reduce(cls, s, lhs, rhs):
        return f"WO_REDUCE({lhs}, {rhs});"


CMEMS = [DRAM, ReadOnly, WriteOnly]


def mk_comp(x, xt, mem, y=None):
    o = object.__new__(LC.Compiler)
    o.env = ChainMap({x: "x_c"})
    o.envtyp = ChainMap({x: xt})
    o.mems = {x: mem}
    o._scalar_refs = set()
    o._lines = []
    o._tab = ""
    if y is not None:
        o.env[y], o.envtyp[y], o.mems[y] = "y_c", T.f32, DRAM
    return o


cre = contract("C15", F_COMP, "Compiler.comp_e", name=F_COMP + "::Compiler.comp_e[Read]")


@cre.inputs
def _(g):
    mem = CMEMS[g.choose([0, 1, 2], "mem")]
    kind = g.choose(["scalar", "scalar_ref", "index"], "kind")
    x = Sym("x")
    xt = T.index if kind == "index" else T.f32
    o = mk_comp(x, xt, mem)
    if kind == "scalar_ref":
        o._scalar_refs.add(x)
    return {"self": o, "e": LoopIR.Read(x, [], xt, SRC), "__ghost__": {"mem": mem, "kind": kind}}


@cre.ensures("text for a read of a buffer is produced only if its memory can be read")
def _(a):
    if a.ghost.kind == "index":
        return a.result == "x_c"
    return a.ghost.mem.can_read() and a.result == ("*x_c" if a.ghost.kind == "scalar_ref" else "x_c")


cre.raises(MemGenError, when=lambda a: a.ghost.kind != "index" and not a.ghost.mem.can_read(),
           label="MemGenError exactly for a read from a memory that cannot be read")


cws = contract("C15", F_COMP, "Compiler.comp_s", name=F_COMP + "::Compiler.comp_s[Assign/Reduce]")


@cws.inputs
def _(g):
    mem = CMEMS[g.choose([0, 1, 2], "mem")]
    kind = g.choose(["Assign", "Reduce"], "stmt")
    pl = [T.f32, T.f64, T.int8][g.choose([0, 1, 2], "lhs.prec")]
    pr = [T.f32, T.f64, T.int8][g.choose([0, 1, 2], "rhs.prec")]
    x, y = Sym("x"), Sym("y")
    o = mk_comp(x, pl, mem, y)
    o.envtyp[y] = pr
    ctor = LoopIR.Assign if kind == "Assign" else LoopIR.Reduce
    s = ctor(x, pl, [], LoopIR.Read(y, [], pr, SRC), SRC)
    return {"self": o, "s": s, "__ghost__": {"mem": mem, "kind": kind, "pl": pl, "pr": pr}}


def _rhs_text(a):
    return "y_c" if a.ghost.pl == a.ghost.pr else f"({a.ghost.pl.ctype()})(y_c)"


@cws.ensures("the emitted line is exactly what the buffer's memory produces for this write / reduce, with an explicit cast on a precision change")
def _(a):
    gh = a.ghost
    if gh.mem is ReadOnly:
        return False
    want = (gh.mem.write if gh.kind == "Assign" else gh.mem.reduce)(a.s, "x_c", _rhs_text(a))
    return len(a.self._lines) == 1 and a.self._lines[0].strip() == want


cws.raises(MemGenError, when=lambda a: a.ghost.mem is ReadOnly,
           label="MemGenError exactly for a write / reduce to a memory that defines neither")
