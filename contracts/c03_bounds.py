"""C03 - accepted procedures are memory-safe and call-safe.

This module: value contracts (pyvc) on the one typechecker rule the other
properties lean on, and the list of engines.

  * src/exo/frontend/typecheck.py  TypeChecker.check_e, BinOp case (d):
      no error recorded ==> an index `/` or `%` has a literal divisor > 0;
      an index `*` has an operand of type `int`; and `int`-typed arithmetic has
      only `int`-typed operands (so `int`-typed expressions are literal-only).
  * contracts/c03_formula.py   (a,b,c)  CheckBounds: recorded solver questions
      imply the property's conditions (sub-engine B).
  * contracts/c03_alias.py     (e)  Check_Aliasing root translation,
      definition-time protocol of API.Procedure.__init__.
"""
from __future__ import annotations
from pyvc.contract import contract
from pyvc import sym as S
from pyvc.sym import And, Or, Not, Implies
from exo.core.LoopIR import LoopIR, UAST, T
from exo.core.prelude import Sym, SrcInfo
from exo.frontend import typecheck as TC

F = "src/exo/frontend/typecheck.py"
SRC = SrcInfo("c03", 0)
ENGINES = ["contracts.c03_formula:run", "contracts.c03_alias:run"]
ASSUMPTIONS = [
    "C03: no variable has type `int` (UAST.Int is not produced by the parser: arguments are size/index/bool/stride or "
    "numeric, loop iterators are index); hence an `int`-typed expression is built from literals only",
    "C03: the UAST -> LoopIR typechecker is covered for the BinOp rule of check_e only (operands: literal, negated "
    "literal, index/size variable, literal-only expression, index expression, real scalar, bool, stride, config field)",
    "C03: pyparser.py (surface syntax -> UAST) is not under contract",
]

_CFG = None


def _cfg():
    global _CFG
    if _CFG is None:
        from exo.core.configs import Config
        _CFG = Config("CfgC03", [("a", UAST.Index()), ("s", UAST.Size())], False)
    return _CFG


LHS_KINDS = ["lit", "idx", "size", "constexpr", "idxexpr", "real", "bool"]
RHS_KINDS = ["lit", "neglit", "idx", "size", "constexpr+", "constexpr*", "constexpr/", "idxexpr", "real", "bool",
             "stride", "cfg"]


def g_operand(g, kind, nm, env):
    if kind == "lit":
        return UAST.Const(g.int(nm + "_c"), SRC)
    if kind == "neglit":
        return UAST.USub(UAST.Const(g.int(nm + "_c"), SRC), SRC)
    if kind in ("idx", "size"):
        s = Sym(nm)
        env[s] = T.index if kind == "idx" else T.size
        return UAST.Read(s, [], SRC)
    if kind in ("constexpr", "constexpr+", "constexpr*", "constexpr/"):
        op = {"constexpr": "+", "constexpr+": "+", "constexpr*": "*", "constexpr/": "/"}[kind]
        rhs = g.pos(nm + "_c2") if op == "/" else g.int(nm + "_c2")
        return UAST.BinOp(op, UAST.Const(g.int(nm + "_c1"), SRC), UAST.Const(rhs, SRC), SRC)
    if kind == "idxexpr":
        s = Sym(nm)
        env[s] = T.index
        return UAST.BinOp("+", UAST.Read(s, [], SRC), UAST.Const(g.int(nm + "_c"), SRC), SRC)
    if kind == "real":
        s = Sym(nm)
        env[s] = T.f32
        return UAST.Read(s, [], SRC)
    if kind == "bool":
        s = Sym(nm)
        env[s] = T.bool
        return UAST.Read(s, [], SRC)
    if kind == "stride":
        s = Sym(nm)
        env[s] = T.Tensor([LoopIR.Const(8, T.int, SRC)], False, T.f32)
        return UAST.StrideExpr(s, 0, SRC)
    if kind == "cfg":
        return UAST.ReadConfig(_cfg(), "a", SRC)
    raise AssertionError(kind)


def mk_tc(env):
    o = object.__new__(TC.TypeChecker)
    o.env = env
    o.errors = []
    o.uast_proc = None
    return o


ce = contract("C03", F, "TypeChecker.check_e")


@ce.inputs
def _(g):
    op = g.choose(["/", "%", "*", "+", "-"], "op")
    env = {}
    # + and - only matter for the int-typed-operands lemma: fewer operand kinds
    lk, rk = (LHS_KINDS, RHS_KINDS) if op in ("/", "%", "*") else (["lit", "idx", "constexpr"],
                                                                     ["lit", "size", "constexpr*", "idxexpr"])
    lhs = g_operand(g, g.choose(lk, "lhs"), "l", env)
    rhs = g_operand(g, g.choose(rk, "rhs"), "r", env)
    return {"self": mk_tc(env), "e": UAST.BinOp(op, lhs, rhs, SRC), "is_index": True}


def _noerr(a):
    return len(a.self.errors) == 0


@ce.ensures("no error recorded ==> an index division or modulo has a literal divisor > 0")
def _(a):
    r = a.result
    if not _noerr(a) or str(a.e.op) not in ("/", "%"):
        return True
    if r.lhs.type.is_real_scalar():
        # real-valued division: both operands are real scalars, never a modulo
        return r.rhs.type.is_real_scalar() and str(a.e.op) == "/"
    if not (isinstance(r.rhs, LoopIR.Const) and r.rhs.type == T.int):
        return False
    return And(r.rhs.val > 0, r.lhs.type.is_indexable())


@ce.ensures("no error recorded ==> an index product has an operand of type int (quasi-affine)")
def _(a):
    r = a.result
    if not _noerr(a) or str(a.e.op) != "*" or r.lhs.type.is_real_scalar():
        return True
    return (r.lhs.type.is_indexable() and r.rhs.type.is_indexable()
            and (r.lhs.type == T.int or r.rhs.type == T.int))


@ce.ensures("no error recorded ==> int-typed arithmetic has only int-typed operands")
def _(a):
    r = a.result
    if not _noerr(a) or r.type != T.int:
        return True
    return r.lhs.type == T.int and r.rhs.type == T.int


@ce.ensures("the result is the BinOp of the checked operands with the same operator")
def _(a):
    r = a.result
    return isinstance(r, LoopIR.BinOp) and str(r.op) == str(a.e.op)


@ce.ensures("a type error is recorded whenever the result type is the error type")
def _(a):
    return True if a.result.type != T.err else len(a.self.errors) > 0
