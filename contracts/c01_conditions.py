"""C01 (b) - what the side-condition predicates of new_eff.py ask the solver
(sub-engine B, DESIGN 2.6; same technique as contracts/c09_formula.py).

Targets (src/exo/rewrite/new_eff.py): Commutes, AllocCommutes, Shadows,
Commutes_Fissioning, Check_ReorderStmts, Check_ReorderLoops, Check_FissionLoop,
Check_IsIdempotent, Check_IsDeadAfter, Check_BufferReduceOnly,
Check_ExprEqvInContext, Check_ExprBound (Disjoint_Memory is covered by C09).

The real functions run natively; what is stubbed is what is assumed anyway:
  * effect extraction: `stmts_effs`, `expr_effs` return opaque effect tokens;
    `get_basic_locsets(token)` returns six abstract location-set atoms (global /
    heap reads, global / heap writes, reduces, allocations) that depend on the
    iteration variables the statements were instantiated with (`SubstArgs` is a
    stub that records the renaming); `globenv` / `get_changing_globset` give an
    abstract set "configuration fields whose value the statements change";
    `ContextExtraction` gives an abstract control predicate, the identity
    pre-environment and an abstract post-effect;
  * `is_empty(ls)` returns an atom "ls is empty" (lowering to points: assumed);
  * `SMTSolver.verify(phi)` is captured and answers as scripted.

The real `getsets`, `LUnion/LIsct/LDiff`, `lift_e`, the `A` constructors and the
predicates themselves build phi.  phi is then read: ForAll / ==> / and / or /
comparisons as the connectives they construct; an atom "ls is empty" as
`forall x. not (x in ls)` over uninterpreted predicates Kind(iteration values,
location); `Definitely(f)` as f; `Maybe(f)` as f when f has no emptiness atom
(exact: no unknowns) and as *True* (no information) otherwise, which is only
allowed in positive position.  z3 then proves, per primitive,

    phi valid (under the assumed Maybe(P))  ==>  the primitive's condition

with the conditions written from the commutation requirement:
  reorder two statements   no location written by one is accessed by the other;
                           a location reduced by one is not read by the other
                           (reduces only commute with reduces); neither
                           accesses what the other allocates
  reorder loops            the same between iteration (x, y) and every (x', y')
                           with x < x' and y' < y (those that change order);
                           no iteration modifies what the bounds read
  fission                  the same between the first half at iteration j and
                           the second half at every earlier iteration i < j
                           (heap locations: Bernstein; configuration fields: a
                           field changed by one half is not read by the other);
                           with `no_loop_var_1` the first half may instead be
                           idempotent; bounds unaffected
  idempotent               nothing the statements modify is read (before being
                           written) or reduced by them, and every reduced
                           location is also written
  dead after               nothing after the statements accesses the buffer
  reduce only              no location of the buffer is read or written
  expression checks        the query is e0 == e1 / e (op) value on the lifted
                           expressions, under Maybe(control predicates)
and the protocol: a False answer raises SchedulingError, a True answer returns,
the assumption is made before the query, push/pop are balanced.
"""
from __future__ import annotations
import os, time, traceback
import z3

FN = "src/exo/rewrite/new_eff.py"


def same_objs(xs, ys):
    """lists hold the very same statement objects (LoopIR nodes compare structurally)"""
    return len(xs) == len(ys) and all(x is y for x, y in zip(xs, ys))
KINDS = ["RG", "WG", "RH", "WH", "Red", "Alc"]
Loc = z3.DeclareSort("LocC01")


class Unsupported(Exception):
    pass


class Tok:
    """an opaque effect / environment token: statements `tag` instantiated with iteration variables `vars`"""
    def __init__(self, tag, vars_):
        self.tag, self.vars = tag, tuple(vars_)

    def __repr__(self):
        return f"<eff {self.tag}{self.vars}>"


class Capture:
    """runs one real Check_* function of new_eff with the stubs installed"""

    def __init__(self, answers=(True,)):
        import exo.rewrite.new_eff as NE
        from exo.core.LoopIR import LoopIR, T
        from exo.core.prelude import Sym, SrcInfo
        from exo.rewrite.new_analysis_core import A
        self.NE, self.LoopIR, self.T, self.Sym, self.A = NE, LoopIR, T, Sym, A
        self.src = SrcInfo("c01_conditions", 0)
        self.answers = list(answers)
        self.assumed, self.verified, self.order = [], [], []
        self.depth = 0
        self.ctxts = []
        self.stmt_tag = {}      # id(stmt) -> (tag, vars)
        self.keep = []
        self.atoms, self.empties = {}, {}
        self.subst = []
        self.raised = None

    # --- registering input statements
    def stmt(self, tag, vars_=()):
        s = self.LoopIR.Pass(self.src)
        self.stmt_tag[id(s)] = (tag, tuple(vars_))
        self.keep.append(s)
        return s

    def tok_of(self, stmts):
        toks = []
        for s in stmts:
            if id(s) not in self.stmt_tag:
                raise Unsupported("effects of a statement the harness does not know")
            toks.append(Tok(*self.stmt_tag[id(s)]))
        return toks

    # --- stubs
    def patches(self):
        cap, A, T, NE, Sym = self, self.A, self.T, self.NE, self.Sym

        class FakeCtxt:
            def __init__(self, proc, stmts):
                self.P = Sym("P")
                cap.ctxts.append((proc, list(stmts), self.P))

            def get_control_predicate(self):
                return A.Var(self.P, T.bool, cap.src)

            def get_pre_globenv(self):
                return lambda x: x

            def get_posteffs(self):
                return [Tok("post", ())]

        class FakeSolver:
            def __init__(self, verbose=False):
                pass

            def push(self):
                cap.depth += 1
                cap.order.append("push")

            def pop(self):
                cap.depth -= 1
                cap.order.append("pop")

            def assume(self, e):
                cap.assumed.append(e)
                cap.order.append("assume")

            def verify(self, e):
                cap.verified.append(e)
                cap.order.append("verify")
                k = len(cap.verified) - 1
                return cap.answers[k] if k < len(cap.answers) else cap.answers[-1]

        class FakeSubst:
            def __init__(self, stmts, env):
                self.stmts, self.env = list(stmts), dict(env)

            def result(self):
                out = []
                for s in self.stmts:
                    if id(s) not in cap.stmt_tag:
                        raise Unsupported("SubstArgs applied to unknown statements")
                    tag, vars_ = cap.stmt_tag[id(s)]
                    new_vars = []
                    for v in vars_:
                        if v in self.env:
                            r = self.env[v]
                            if not (isinstance(r, cap.LoopIR.Read) and not r.idx):
                                raise Unsupported("iterator replaced by a non-variable")
                            new_vars.append(r.name)
                        else:
                            new_vars.append(v)
                    for v in self.env:
                        if v not in vars_:
                            raise Unsupported("SubstArgs renames a variable the statements are not instantiated with")
                    cap.subst.append((tag, tuple(vars_), tuple(new_vars)))
                    out.append(cap.stmt(tag, new_vars))
                return out

        def stmts_effs(stmts):
            return cap.tok_of(stmts)

        def expr_effs(e):
            return [Tok("bounds", ())]

        def atom(kind, tag, vars_):
            key = (kind, tag, tuple(vars_))
            if key not in cap.atoms:
                s = Sym(f"{kind}_{tag}")
                cap.atoms[key] = s
                cap.atoms[s] = key
            return NE.LS.WholeBuf(cap.atoms[key], 0)

        def get_basic_locsets(effs):
            toks = list(effs)
            if not toks or not all(isinstance(t, Tok) for t in toks):
                raise Unsupported("location sets of a non-token effect")
            out = []
            for k in KINDS:
                ls = NE.LS.Empty()
                for t in toks:
                    ls = NE.LUnion(ls, atom(k, t.tag, t.vars))
                out.append(ls)
            return tuple(out)

        def is_empty(ls):
            s = Sym("empty")
            cap.empties[s] = ls
            return A.Var(s, T.bool, cap.src)

        def globenv(stmts):
            toks = cap.tok_of(stmts)
            if len({(t.tag, t.vars) for t in toks}) != 1:
                raise Unsupported("environment of mixed statements")
            return toks[0]

        def get_changing_globset(env):
            if not isinstance(env, Tok):
                raise Unsupported("changing globals of a non-token environment")
            return atom("Chg", env.tag, env.vars)

        def loop_globenv(i, lo, hi, body):
            cap.tok_of(body)
            return lambda x: x

        return dict(ContextExtraction=FakeCtxt, SMTSolver=FakeSolver, SubstArgs=FakeSubst, stmts_effs=stmts_effs,
                    expr_effs=expr_effs, get_basic_locsets=get_basic_locsets, is_empty=is_empty, globenv=globenv,
                    get_changing_globset=get_changing_globset, loop_globenv=loop_globenv,
                    get_changing_scalars=lambda *a, **k: [], filter_reals=lambda e, chg: e)

    def run(self, fname, *args, **kw):
        NE = self.NE
        patch = self.patches()
        old = {k: getattr(NE, k) for k in patch}
        for k, v in patch.items():
            setattr(NE, k, v)
        try:
            try:
                self.result = getattr(NE, fname)(*args, **kw)
            except NE.SchedulingError as e:
                self.raised = e
        finally:
            for k, v in old.items():
                setattr(NE, k, v)
        return self


# ----------------------------------------------------------------------------
# reading the captured formula

class Reader:
    def __init__(self, cap):
        self.cap = cap
        self.consts, self.fns = {}, {}
        self.nx = 0

    def const(self, sym, sort="int"):
        if sym not in self.consts:
            nm = f"{sym.name()}_{id(sym) % 100000}"
            self.consts[sym] = z3.Int(nm) if sort == "int" else z3.Bool(nm)
        return self.consts[sym]

    def fn(self, kind, tag, arity):
        k = (kind, tag, arity)
        if k not in self.fns:
            self.fns[k] = z3.Function(f"{kind}_{tag}_{arity}", *([z3.IntSort()] * arity), Loc, z3.BoolSort())
        return self.fns[k]

    def buf(self, name):
        k = ("buf", name)
        if k not in self.fns:
            self.fns[k] = z3.Function(f"inbuf_{name.name()}_{id(name) % 100000}", Loc, z3.BoolSort())
        return self.fns[k]

    def var(self, sym, env):
        return env[sym] if sym in env else self.const(sym)

    def member(self, ls, x, env):
        LS = self.cap.NE.LS
        if isinstance(ls, LS.Empty):
            return z3.BoolVal(False)
        if isinstance(ls, LS.WholeBuf):
            if ls.name in self.cap.atoms:
                kind, tag, vars_ = self.cap.atoms[ls.name]
                return self.fn(kind, tag, len(vars_))(*[self.var(v, env) for v in vars_], x)
            return self.buf(ls.name)(x)
        if isinstance(ls, LS.Union):
            return z3.Or(self.member(ls.lhs, x, env), self.member(ls.rhs, x, env))
        if isinstance(ls, LS.Isct):
            return z3.And(self.member(ls.lhs, x, env), self.member(ls.rhs, x, env))
        if isinstance(ls, LS.Diff):
            return z3.And(self.member(ls.lhs, x, env), z3.Not(self.member(ls.rhs, x, env)))
        raise Unsupported(f"location set {type(ls).__name__}")

    def has_atom(self, e):
        A = self.cap.A
        if isinstance(e, A.Var):
            return e.name in self.cap.empties
        for f in ("arg", "lhs", "rhs", "cond", "tcase", "fcase", "body"):
            x = getattr(e, f, None)
            if isinstance(x, A.expr) and self.has_atom(x):
                return True
        return False

    def tr(self, e, env, pos=True):
        A, T = self.cap.A, self.cap.T
        if isinstance(e, A.Const):
            return z3.BoolVal(e.val) if isinstance(e.val, bool) else z3.IntVal(e.val)
        if isinstance(e, A.Var):
            if e.name in self.cap.empties:
                self.nx += 1
                x = z3.Const(f"x!{self.nx}", Loc)
                return z3.ForAll([x], z3.Not(self.member(self.cap.empties[e.name], x, env)))
            if e.name in env:
                return env[e.name]
            return self.const(e.name, "bool" if e.type == T.bool else "int")
        if isinstance(e, A.Definitely):
            return self.tr(e.arg, env, pos)
        if isinstance(e, A.Maybe):
            if self.has_atom(e.arg):
                if not pos:
                    raise Unsupported("Maybe(.) of an emptiness atom in negative position")
                return z3.BoolVal(True)
            return self.tr(e.arg, env, pos)
        if isinstance(e, A.Not):
            return z3.Not(self.tr(e.arg, env, not pos))
        if isinstance(e, A.USub):
            return -self.tr(e.arg, env, pos)
        if isinstance(e, A.ForAll):
            v = z3.Int(f"{e.name.name()}_{id(e.name) % 100000}")
            return z3.ForAll([v], self.tr(e.arg, {**env, e.name: v}, pos))
        if isinstance(e, A.BinOp):
            op = str(e.op)
            if op == "==>":
                return z3.Implies(self.tr(e.lhs, env, not pos), self.tr(e.rhs, env, pos))
            if op == "==" and e.lhs.type == T.bool and (self.has_atom(e.lhs) or self.has_atom(e.rhs)):
                raise Unsupported("equivalence over emptiness atoms")
            l, r = self.tr(e.lhs, env, pos), self.tr(e.rhs, env, pos)
            table = {"and": lambda: z3.And(l, r), "or": lambda: z3.Or(l, r), "<": lambda: l < r, "<=": lambda: l <= r,
                     ">": lambda: l > r, ">=": lambda: l >= r, "==": lambda: l == r, "+": lambda: l + r,
                     "-": lambda: l - r, "*": lambda: l * r}
            if op not in table:
                raise Unsupported(f"operator {op}")
            return table[op]()
        raise Unsupported(f"formula node {type(e).__name__}")


def _unsat(hyps, tmo):
    s = z3.Solver()
    s.set("timeout", tmo)
    for h in hyps:
        s.add(h)
    t0 = time.time()
    r = s.check()
    return r, (s.model() if r == z3.sat else None), time.time() - t0


REPLAY = '''#!/venv/bin/python
"""Replay for C01 / side-condition predicates: {what}
exit 1 = the formula built by the real function does not imply the primitive's condition."""
import sys
sys.path.insert(0, {verif!r})
from pyvc.run import ensure_repo_on_path
ensure_repo_on_path()
from contracts.c01_conditions import replay
sys.exit(replay({what!r}))
'''


def replay(what):
    res = run(tier="quick")
    bad = False
    for k, v in res["clauses"].items():
        if v == "refuted":
            print("refuted   :", k)
            bad = True
    for v in res["violations"]:
        print("model     :", v.get("model"))
    print("obligation:", what)
    print("verdict   :", "confirmed" if bad else "not-reproduced")
    return 1 if bad else 0


# ----------------------------------------------------------------------------

def run(tier="quick", seed=0):
    tmo = 60000      # queries are tiny; the budget only matters when the machine is starved
    verif = os.path.dirname(os.path.dirname(os.path.abspath(__file__)))
    res = dict(obligations=0, discharged=0, functions=[], samples=[], violations=[], undecided=[], bounded=[],
               clauses={}, solver_time_s=0.0, assumptions=[
        "C01(b): stmts_effs / expr_effs / get_basic_locsets summarise every access of the statements (a read that "
        "follows a write of the same statements to the same location may be missing from the read set but is in the "
        "write set); globenv / get_changing_globset name every configuration field whose value the statements "
        "change; ContextExtraction's control predicate, pre-environment and post-effects are right",
        "C01(b): is_empty(ls) holds only if ls has no element; SMTSolver.verify(phi) returns True only if phi is "
        "valid under the assumptions made (lowering: c01_smt); Maybe(f) / Definitely(f) are f when f has no unknown",
        "C01(b): SubstArgs(stmts, {i: i'}) renames the iterators in the statements and nothing else; "
        "filter_reals and loop_globenv (environment of the earlier iterations of the first half) do not weaken "
        "the formula (stubbed as the identity)",
        "C01(b): the Bernstein-style conditions imply that conforming statements commute / are idempotent "
        "(standard lemma, not proved here)",
    ])

    def record(tgt, name, status, dt=0.0, model=None, note=None):
        key = f"{FN}::{tgt} :: {name}"
        if f"{FN}::{tgt}" not in res["functions"]:
            res["functions"].append(f"{FN}::{tgt}")
        res["obligations"] += 1
        res["solver_time_s"] += dt
        if res["clauses"].get(key) != "refuted":
            res["clauses"][key] = status
        if status == "discharged":
            res["discharged"] += 1
            if dt and len(res["samples"]) < 3:
                res["samples"].append(f"{key}: unsat in {dt:.3f}s")
        elif status == "refuted":
            if not any(v["obligation"] == key for v in res["violations"]):
                res["violations"].append(dict(obligation=key, confirmed=True, model=str(model)[:400],
                                              replay_script=REPLAY.format(verif=verif, what=f"{tgt}: {name}")))
        else:
            res["undecided"].append(f"{key}: {note or 'solver returned unknown'}")

    def implies(tgt, name, hyps, bad):
        """hyps /\\ bad must be unsatisfiable"""
        r, m, dt = _unsat(list(hyps) + [bad], tmo)
        record(tgt, name, "discharged" if r == z3.unsat else ("refuted" if r == z3.sat else "unknown"), dt, m)

    def canary(tgt, hyps, extra=()):
        r, _, _ = _unsat(list(hyps) + list(extra), tmo)
        if r != z3.sat:
            res["undecided"].append(f"{FN}::{tgt}: canary failed: captured formula with its side constraints is {r}")
            return False
        return True

    def protocol(tgt, mk, n_verify=1, needs_assume=True):
        """False answer raises, True answer returns; one query; assumption first; balanced stack"""
        ok_cap = mk([True] * n_verify)
        no_cap = mk([False] * n_verify)
        ok = (ok_cap.raised is None and no_cap.raised is not None and len(ok_cap.verified) == n_verify
              and ok_cap.depth == 0 and no_cap.depth == 0)
        if needs_assume:
            ok = ok and "assume" in ok_cap.order and ok_cap.order.index("assume") < ok_cap.order.index("verify") \
                and len(ok_cap.assumed) == 1
        record(tgt, "protocol: a False answer of the solver raises SchedulingError, a True answer returns; the control "
                    "predicate is assumed before the query; push/pop balanced",
               "discharged" if ok else "refuted",
               model=f"raised(True)={ok_cap.raised!r} raised(False)={no_cap.raised!r} order={ok_cap.order}")
        return ok_cap

    def guarded(tgt, fn):
        try:
            fn()
        except Unsupported as u:
            res["undecided"].append(f"{FN}::{tgt}: unsupported: {u}")
        except Exception as e:
            res["undecided"].append(f"{FN}::{tgt}: crashed: " + "".join(traceback.format_exception(e))[-700:])

    def sets(R, tag, vars_terms, x):
        """the abstract access sets of statements `tag` at the given iteration values, at location x.  A location
        that the statements both reduce into and write counts as written (the write kills the accumulation):
        Red is the *net* reduce set, Acc contains every access."""
        n = len(vars_terms)
        g = lambda k: R.fn(k, tag, n)(*vars_terms, x)
        rd = z3.Or(g("RG"), g("RH"))
        wr = z3.Or(g("WG"), g("WH"))
        red = z3.And(g("Red"), z3.Not(g("WH")))
        return dict(R=rd, W=wr, Red=red, Acc=z3.Or(rd, wr, g("Red")), Mod=z3.Or(wr, g("Red")), Alc=g("Alc"),
                    RH=g("RH"), WH=g("WH"), RG=g("RG"), WG=g("WG"), Chg=g("Chg"),
                    AccH=z3.Or(g("RH"), g("WH"), g("Red")))

    def bernstein(s1, s2):
        """violation of: no location written by one is accessed by the other; reduces only commute with reduces"""
        return z3.Or(z3.And(s1["W"], s2["Acc"]), z3.And(s2["W"], s1["Acc"]),
                     z3.And(s1["Red"], s2["R"]), z3.And(s2["Red"], s1["R"]))

    def hyps_of(R, cap):
        return [R.tr(cap.verified[0], {})] + [R.tr(a, {}) for a in cap.assumed]

    # ------------------------------------------------------------------ Check_ReorderStmts / Commutes / AllocCommutes
    def reorder_stmts():
        tgt = "Check_ReorderStmts+Commutes+AllocCommutes"
        def mk(ans):
            c = Capture(ans)
            s1, s2 = c.stmt("s1"), c.stmt("s2")
            proc = object()
            c.proc, c.s1, c.s2 = proc, s1, s2
            return c.run("Check_ReorderStmts", proc, s1, s2)
        cap = protocol(tgt, mk)
        if len(cap.verified) != 1:
            return
        ok = len(cap.ctxts) == 1 and cap.ctxts[0][0] is cap.proc and same_objs(cap.ctxts[0][1], [cap.s1, cap.s2])
        record(tgt, "the context is that of the two statements in the given procedure",
               "discharged" if ok else "refuted", model=str(cap.ctxts))
        R = Reader(cap)
        hyps = hyps_of(R, cap)
        if not canary(tgt, hyps):
            return
        x = z3.Const("x", Loc)
        a, b = sets(R, "s1", [], x), sets(R, "s2", [], x)
        implies(tgt, "phi valid ==> no location written by one statement is accessed by the other, and a location "
                     "reduced by one is not read by the other", hyps, bernstein(a, b))
        implies(tgt, "phi valid ==> neither statement accesses what the other allocates", hyps,
                z3.Or(z3.And(a["Alc"], b["Acc"]), z3.And(b["Alc"], a["Acc"])))
    guarded("Check_ReorderStmts", reorder_stmts)

    # ------------------------------------------------------------------ Check_ReorderLoops
    def reorder_loops():
        tgt = "Check_ReorderLoops+Commutes"
        LoopIRm = None
        def mk(ans):
            c = Capture(ans)
            L, T, Sym, src = c.LoopIR, c.T, c.Sym, c.src
            xs, ys, n, m = Sym("x"), Sym("y"), Sym("n"), Sym("m")
            body = [c.stmt("body", (xs, ys))]
            lo = L.Const(0, T.int, src)
            inner = L.For(ys, lo, L.Read(m, [], T.size, src), body, L.Seq(), src)
            c.stmt_tag[id(inner)] = ("inner", (xs,))
            outer = L.For(xs, lo, L.Read(n, [], T.size, src), [inner], L.Seq(), src)
            c.keep += [inner, outer]
            # the For constructor copies its body list: re-register the stored statement objects
            for s_old, s_new in zip(body, outer.body[0].body):
                c.stmt_tag[id(s_new)] = c.stmt_tag[id(s_old)]
            c.syms = (xs, ys, n, m)
            c.outer = outer
            return c.run("Check_ReorderLoops", object(), outer)
        cap = protocol(tgt, mk)
        if len(cap.verified) != 1:
            return
        xs, ys, n, m = cap.syms
        ren = [s for s in cap.subst if s[0] == "body"]
        ok = len(ren) == 1 and ren[0][1] == (xs, ys) and ren[0][2][0] is not xs and ren[0][2][1] is not ys \
            and ren[0][2][0] is not ren[0][2][1]
        record(tgt, "the second copy of the body is the body with both iterators renamed to fresh symbols",
               "discharged" if ok else "refuted", model=str(cap.subst))
        if not ok:
            return
        R = Reader(cap)
        hyps = hyps_of(R, cap)
        N, M = R.const(n), R.const(m)
        x1, y1, x2, y2 = z3.Ints("x1 y1 x2 y2")
        x = z3.Const("x", Loc)
        inb = z3.And(0 <= x1, x1 < N, 0 <= y1, y1 < M, 0 <= x2, x2 < N, 0 <= y2, y2 < M)
        if not canary(tgt, hyps, [inb, x1 < x2, y2 < y1]):
            return
        a, b = sets(R, "body", [x1, y1], x), sets(R, "body", [x2, y2], x)
        implies(tgt, "phi valid ==> iterations (x, y) and (x', y') with x < x' and y' < y (the pairs whose order "
                     "changes) satisfy the reordering condition", hyps + [inb, x1 < x2, y2 < y1], bernstein(a, b))
        bd = sets(R, "bounds", [], x)
        implies(tgt, "phi valid ==> no iteration modifies what the loop bounds read", hyps +
                [0 <= x1, x1 < N, 0 <= y1, y1 < M], z3.And(a["Mod"], bd["R"]))
    guarded("Check_ReorderLoops", reorder_loops)

    # ------------------------------------------------------------------ Check_FissionLoop / Commutes_Fissioning
    def fission():
        for flag in (False, True):
            tgt = "Check_FissionLoop+Commutes_Fissioning"
            def mk(ans, flag=flag):
                c = Capture(ans)
                L, T, Sym, src = c.LoopIR, c.T, c.Sym, c.src
                i, n = Sym("i"), Sym("n")
                s1, s2 = c.stmt("s1", (i,)), c.stmt("s2", (i,))
                loop = L.For(i, L.Const(0, T.int, src), L.Read(n, [], T.size, src), [s1, s2], L.Seq(), src)
                proc = L.proc("p", [], [], [loop], None, src)
                c.keep += [loop, proc]
                c.syms = (i, n)
                return c.run("Check_FissionLoop", proc, loop, [s1], [s2], flag)
            cap = protocol(tgt, mk)
            if len(cap.verified) != 1:
                continue
            i, n = cap.syms
            ren = [s for s in cap.subst if s[0] == "s1"]
            ok = len(ren) == 1 and ren[0][1] == (i,) and ren[0][2][0] is not i
            record(tgt, "the first half is instantiated at a second, fresh iterator", "discharged" if ok else "refuted",
                   model=str(cap.subst))
            if not ok:
                continue
            R = Reader(cap)
            hyps = hyps_of(R, cap)
            N = R.const(n)
            vi, vj = z3.Ints("vi vj")
            x = z3.Const("x", Loc)
            inb = z3.And(0 <= vi, vi < N, 0 <= vj, vj < N, vi < vj)
            if not canary(tgt, hyps, [inb]):
                continue
            a1j, a2i = sets(R, "s1", [vj], x), sets(R, "s2", [vi], x)
            w12 = z3.And(a1j["WH"], a2i["AccH"])
            rest = z3.Or(z3.And(a2i["WH"], a1j["AccH"]), z3.And(a1j["Red"], a2i["RH"]), z3.And(a2i["Red"], a1j["RH"]),
                         z3.And(a1j["Chg"], a2i["RG"]), z3.And(a2i["Chg"], a1j["RG"]))
            lab = " [first half does not mention the iterator]" if flag else ""
            implies(tgt, "phi valid ==> the second half at iteration i and the first half at a later iteration j do not "
                         "conflict: heap locations written / reduced by one vs. accessed / read by the other, "
                         "configuration fields changed by one vs. read by the other" + lab, hyps + [inb], rest)
            if not flag:
                implies(tgt, "phi valid ==> nothing the first half writes at iteration j is accessed by the second half "
                             "at an earlier iteration", hyps + [inb], w12)
            else:
                y = z3.Const("y", Loc)
                s1y = sets(R, "s1", [vj], y)
                not_idem = z3.Or(s1y["Red"], z3.And(s1y["WH"], s1y["RH"]), z3.And(s1y["Chg"], s1y["RG"]))
                implies(tgt, "phi valid ==> what the first half writes is not accessed by the second half at an earlier "
                             "iteration, or the first half is idempotent (no reduce, reads nothing it writes / changes)",
                        hyps + [inb], z3.And(w12, not_idem))
            s1i, s2i = sets(R, "s1", [vi], x), sets(R, "s2", [vi], x)
            bd = sets(R, "bounds", [], x)
            implies(tgt, "phi valid ==> no iteration of either half modifies what the loop bounds read" + lab,
                    hyps + [0 <= vi, vi < N], z3.And(z3.Or(s1i["Mod"], s2i["Mod"]), bd["R"]))
            implies(tgt, "phi valid ==> neither half accesses what the other allocates" + lab, hyps + [inb],
                    z3.Or(z3.And(s1i["Alc"], s2i["Acc"]), z3.And(s2i["Alc"], s1i["Acc"])))
    guarded("Check_FissionLoop", fission)

    # ------------------------------------------------------------------ Check_IsIdempotent / Shadows
    def idempotent():
        tgt = "Check_IsIdempotent+Shadows"
        def mk(ans):
            c = Capture(ans)
            s = c.stmt("s")
            c.proc, c.s = object(), s
            return c.run("Check_IsIdempotent", c.proc, [s])
        cap = protocol(tgt, mk)
        if len(cap.verified) != 1:
            return
        R = Reader(cap)
        hyps = hyps_of(R, cap)
        if not canary(tgt, hyps):
            return
        x = z3.Const("x", Loc)
        a = sets(R, "s", [], x)
        implies(tgt, "phi valid ==> nothing the statements modify is read (before being written) or reduced-only by "
                     "them", hyps, z3.And(a["Mod"], z3.Or(a["R"], z3.And(a["Red"], z3.Not(a["W"])))))
        implies(tgt, "phi valid ==> every location the statements reduce into is also written by them", hyps,
                z3.And(a["Red"], z3.Not(a["W"])))
    guarded("Check_IsIdempotent", idempotent)

    # ------------------------------------------------------------------ Check_IsDeadAfter / Check_BufferReduceOnly
    def dead_after():
        tgt = "Check_IsDeadAfter"
        def mk(ans):
            c = Capture(ans)
            c.bufsym = c.Sym("buf")
            return c.run("Check_IsDeadAfter", object(), [c.stmt("s")], c.bufsym, 1)
        cap = protocol(tgt, mk, needs_assume=False)
        if len(cap.verified) != 1:
            return
        R = Reader(cap)
        hyps = hyps_of(R, cap)
        if not canary(tgt, hyps):
            return
        x = z3.Const("x", Loc)
        p = sets(R, "post", [], x)
        implies(tgt, "phi valid ==> no location of the buffer is accessed after the statements", hyps,
                z3.And(R.buf(cap.bufsym)(x), p["Acc"]))
    guarded("Check_IsDeadAfter", dead_after)

    def reduce_only():
        tgt = "Check_BufferReduceOnly"
        def mk(ans):
            c = Capture(ans)
            c.bufsym = c.Sym("buf")
            return c.run("Check_BufferReduceOnly", object(), [c.stmt("s")], c.bufsym, 1)
        cap = protocol(tgt, mk)
        if len(cap.verified) != 1:
            return
        R = Reader(cap)
        hyps = hyps_of(R, cap)
        if not canary(tgt, hyps):
            return
        x = z3.Const("x", Loc)
        a = sets(R, "s", [], x)
        implies(tgt, "phi valid ==> no location of the buffer is read or written by the statements", hyps,
                z3.And(R.buf(cap.bufsym)(x), z3.Or(a["R"], a["W"])))
    guarded("Check_BufferReduceOnly", reduce_only)

    # ------------------------------------------------------------------ expression checks
    def expr_eqv():
        tgt = "Check_ExprEqvInContext"
        def mk(ans):
            c = Capture(ans)
            L, T, Sym, src = c.LoopIR, c.T, c.Sym, c.src
            n, m = Sym("n"), Sym("m")
            c.syms = (n, m)
            e0 = L.BinOp("+", L.Read(n, [], T.size, src), L.Const(1, T.int, src), T.index, src)
            e1 = L.Read(m, [], T.size, src)
            c.st0, c.st1 = [c.stmt("s0")], [c.stmt("s1")]
            return c.run("Check_ExprEqvInContext", object(), e0, c.st0, e1, c.st1)
        cap = protocol(tgt, mk)
        if len(cap.verified) != 1:
            return
        R = Reader(cap)
        n, m = cap.syms
        phi = R.tr(cap.verified[0], {})
        r, mod, dt = _unsat([z3.Not(phi == (R.const(n) + 1 == R.const(m)))], tmo)
        record(tgt, "the query is expr0 == expr1 on the lifted expressions", "discharged" if r == z3.unsat else
               ("refuted" if r == z3.sat else "unknown"), dt, mod)
        ok = len(cap.ctxts) == 2 and same_objs(cap.ctxts[0][1], cap.st0) and same_objs(cap.ctxts[1][1], cap.st1)
        if ok:
            P0, P1 = R.const(cap.ctxts[0][2], "bool"), R.const(cap.ctxts[1][2], "bool")
            r, mod, dt = _unsat([z3.Not(R.tr(cap.assumed[0], {}) == z3.And(P0, P1))], tmo)
            ok = r == z3.unsat
        record(tgt, "each expression is read in the context of its own statements; both control predicates are assumed",
               "discharged" if ok else "refuted", model=str(cap.ctxts))
    guarded("Check_ExprEqvInContext", expr_eqv)

    def expr_bound():
        tgt = "Check_ExprBound"
        ops = {">=": lambda a, b: a >= b, ">": lambda a, b: a > b, "<=": lambda a, b: a <= b,
               "<": lambda a, b: a < b, "==": lambda a, b: a == b}
        for op, f in ops.items():
            def mk(ans, op=op):
                c = Capture(ans)
                L, T, Sym, src = c.LoopIR, c.T, c.Sym, c.src
                n = Sym("n")
                c.syms = (n,)
                e = L.BinOp("-", L.Read(n, [], T.size, src), L.Const(2, T.int, src), T.index, src)
                return c.run("Check_ExprBound", object(), [c.stmt("s")], e, op, 3)
            cap = protocol(tgt, mk)
            if len(cap.verified) != 1:
                continue
            R = Reader(cap)
            phi = R.tr(cap.verified[0], {})
            r, mod, dt = _unsat([z3.Not(phi == f(R.const(cap.syms[0]) - 2, 3))], tmo)
            record(tgt, f"the query for `{op}` is expr {op} value on the lifted expression", "discharged" if r == z3.unsat
                   else ("refuted" if r == z3.sat else "unknown"), dt, mod)
            c2 = Capture([False])
            L, T, Sym, src = c2.LoopIR, c2.T, c2.Sym, c2.src
            out = c2.run("Check_ExprBound", object(), [c2.stmt("s")], L.Read(Sym("n"), [], T.size, src), op, 0,
                         exception=False)
            record(tgt, "exception=False returns the solver's answer instead of raising",
                   "discharged" if (c2.raised is None and c2.result is False) else "refuted", model=str(c2.raised))
    guarded("Check_ExprBound", expr_bound)

    res["solver_time_s"] = round(res["solver_time_s"], 3)
    return res


ENGINES = ["contracts.c01_conditions:run"]
