"""C15 - "a successful compile yields C that a standard C compiler accepts".

No contract can state "is valid C"; this module is the *bounded stand-in* the
brief allows for that half of the property (reported as `bounded`, never as
discharged): a fixed family of small procedures that exercises every code
generation feature in reach (tensors of rank 1-3, windows and windows of
windows, point/interval windows, allocations in nested scopes, sub-procedure
calls with window arguments, scalars by reference, reductions, floor division
and modulo on possibly negative indices, precision casts, configuration reads
and writes, externs, parallel loops, stride assertions, scheduling results) is
compiled with the REAL `compile_procs_to_strings`, and the C and header text is
given to `gcc -std=c11 -fsyntax-only -Wall -Werror` (both as one translation
unit and the header alone).  Any diagnostic is a violation.
"""
from __future__ import annotations
import os, shutil, subprocess, tempfile, time

ENGINES = ["contracts.c15_syntax:run"]
ASSUMPTIONS = ["C15 syntax stand-in: gcc -std=c11 -fsyntax-only -Wall -Werror is taken as 'a standard C compiler "
               "accepts'; only the listed family of procedures is covered (bounded)"]

FAMILY = r'''
from __future__ import annotations
from exo import proc, instr, config, DRAM, compile_procs_to_strings
from exo.libs.memories import DRAM_STACK, DRAM_STATIC
from exo.libs.externs import relu, select, sin, fmaxf
from exo.stdlib.scheduling import *

@config
class Cfg:
    a: index
    s: stride
    f: f32

@config
class SrcCfg:
    tile: index

@config
class DstCfg:
    tile: index

@proc
def cfg2cfg(x: f32[4] @ DRAM):
    DstCfg.tile = SrcCfg.tile
    x[0] = 0.0

@proc
def leaf(n: size, dst: [f32][n] @ DRAM, src: [f32][n] @ DRAM):
    assert n >= 1
    for i in seq(0, n):
        dst[i] = src[i]

@proc
def rank3(n: size, m: size, k: size, x: f32[n, m, k] @ DRAM, y: f32[n, m, k] @ DRAM):
    for i in seq(0, n):
        for j in seq(0, m):
            for l in seq(0, k):
                y[i, j, l] = x[i, j, l] + 1.0

@proc
def windows(n: size, x: f32[n, 8, 8] @ DRAM, y: f32[8] @ DRAM):
    assert n >= 2
    w = x[1, :, 2:6]
    v = w[3, 1:3]
    for i in seq(0, 2):
        y[i] = v[i]
    leaf(8, y, x[0, 2, :])
    leaf(4, w[5, :], y[0:4])

@proc
def divmod_(n: size, x: f32[n] @ DRAM, k: index):
    assert n >= 8
    assert k >= 0
    assert k < 4
    for i in seq(0, 4):
        x[(i - k + 4) % 4] = 2.0
        x[(i - 2) % 4 + 4] = 3.0
        x[(i + 4) / 4] = 4.0
        x[4 + (i - 3) / 2] = 5.0

@proc
def scalars(a: f32 @ DRAM, b: f64 @ DRAM, c: i8 @ DRAM, d: i32 @ DRAM, x: f32[4] @ DRAM):
    t: f32
    t = a
    a = t + x[0]
    u: f64
    u = b
    b = u * u
    c = c
    d += d
    x[1] += a

@proc
def allocs(n: size, x: f32[n] @ DRAM):
    assert n >= 1
    for i in seq(0, n):
        t: f32[4] @ DRAM_STACK
        for j in seq(0, 4):
            t[j] = x[i]
        if i < 2:
            s: f32[2, 2] @ DRAM
            s[0, 0] = t[0]
            x[i] = s[0, 0]
        else:
            x[i] = t[1]
    big: f32[n, 4] @ DRAM
    for i in seq(0, n):
        big[i, 0] = x[i]

@proc
def configs(n: size, x: f32[n] @ DRAM):
    assert n >= 1
    Cfg.a = n - 1
    for i in seq(0, n):
        if i == Cfg.a:
            x[i] = Cfg.f

@proc
def externs_(x: f32[4] @ DRAM, y: f64[4] @ DRAM):
    for i in seq(0, 4):
        x[i] = relu(x[i])
        y[i] = sin(y[i])
        x[i] = select(x[i], 1.0, 2.0, x[i])
        x[i] = fmaxf(x[i], 3.0)

@proc
def strided(n: size, x: [f32][n, 4] @ DRAM):
    assert stride(x, 1) == 1
    for i in seq(0, n):
        for j in seq(0, 4):
            x[i, j] = 0.0

@proc
def par(n: size, x: f32[n] @ DRAM, y: f32[n] @ DRAM):
    for i in par(0, n):
        y[i] = x[i] * 2.0

@proc
def casts(x: f32[4] @ DRAM, y: f64[4] @ DRAM, z: i8[4] @ DRAM, w: i32[4] @ DRAM):
    for i in seq(0, 4):
        y[i] = x[i]
        x[i] = y[i]
        w[i] = z[i]
        z[i] = w[i]

@proc
def shadow(n: size, x: f32[n] @ DRAM):
    assert n >= 2
    for i in seq(0, n):
        t: f32
        t = x[i]
        for i in seq(0, 2):
            t: f32
            t = 1.0
            x[i] = t
        x[i] = t

def scheduled():
    p = rename(rank3, "rank3_sched")
    p = divide_loop(p, "l", 4, ["lo", "li"], tail="cut_and_guard")
    p = divide_loop(p, "j", 3, ["jo", "ji"], tail="guard")
    p = reorder_loops(p, "i jo")
    q = rename(leaf, "leaf_sched")
    q = divide_loop(q, "i", 8, ["io", "ii"], tail="cut")
    q = stage_mem(q, "for ii in _:_", "src[8 * io : 8 * io + 8]", "tile")
    q = simplify(q)
    r = rename(divmod_, "divmod_sched")
    r = simplify(r)
    return [p, q, r]

PROCS = [cfg2cfg, leaf, rank3, windows, divmod_, scalars, allocs, configs, externs_, strided, par, casts, shadow] + scheduled()
'''


REJECT = r'''
from __future__ import annotations
import sys
from exo import proc, DRAM, compile_procs_to_strings
from exo.core.memory import Memory, MemGenError
from exo.libs.memories import AVX2

class ACCEL(Memory):
    @classmethod
    def alloc(cls, new_name, prim_type, shape, srcinfo):
        return f"{prim_type} *{new_name} = 0;"
    @classmethod
    def free(cls, new_name, prim_type, shape, srcinfo):
        return ""
    @classmethod
    def can_read(cls):
        return False

@proc
def callee_f32(x: f32[4] @ DRAM):
    x[0] = 1.0

def direct_read():
    @proc
    def p(out: f32[4]):
        buf: f32[8] @ ACCEL
        out[0] = buf[0]
    return p
def direct_write():
    @proc
    def p(src: f32[4]):
        buf: f32[8] @ ACCEL
        buf[0] = src[0]
    return p
def window_read():
    @proc
    def p(out: f32[4]):
        buf: f32[8] @ ACCEL
        w = buf[2:6]
        out[0] = w[0]
    return p
def window_write():
    @proc
    def p(src: f32[4]):
        buf: f32[8] @ ACCEL
        w = buf[2:6]
        w[0] = src[0]
    return p
def window_reduce():
    @proc
    def p(src: f32[4]):
        buf: f32[8] @ ACCEL
        w = buf[2:6]
        w[0] += src[0]
    return p
def window_of_window_read():
    @proc
    def p(out: f32[4]):
        buf: f32[8] @ ACCEL
        w = buf[0:6]
        v = w[2:6]
        out[0] = v[0]
    return p
def avx2_window_read():
    @proc
    def p(out: f32[8]):
        regs: f32[2, 8] @ AVX2
        r = regs[1, 0:8]
        out[0] = r[0]
    return p
def mixed_precision():
    @proc
    def p(x: f32[4], y: f64[4]):
        x[0] = x[1] + y[0]
    return p
def precision_across_call():
    @proc
    def p(y: f64[4]):
        callee_f32(y)
    return p
def memory_across_call():
    @proc
    def p():
        buf: f32[4] @ ACCEL
        callee_f32(buf)
    return p

CASES = [direct_read, direct_write, window_read, window_write, window_reduce, window_of_window_read,
         avx2_window_read, mixed_precision, precision_across_call, memory_across_call]
bad = []
for mk in CASES:
    try:
        compile_procs_to_strings([mk()], "r.h")
        bad.append(mk.__name__)
    except (MemGenError, TypeError) as e:
        pass
print("ACCEPTED:" + ",".join(bad))
print(len(CASES))
'''


def run(tier="quick", seed=0):
    from pyvc.run import repo_root
    t0 = time.time()
    res = dict(obligations=0, discharged=0, functions=["src/exo/backend/LoopIR_compiler.py::compile_to_strings (emitted C accepted by gcc, bounded)"],
               assumptions=[], samples=[], violations=[], undecided=[], bounded=[], clauses={}, solver_time_s=0.0)
    gcc = shutil.which("gcc") or shutil.which("cc")
    if gcc is None:
        res["undecided"].append("C15 syntax stand-in: no C compiler found")
        return res
    d = tempfile.mkdtemp(prefix="pyvc_c15_", dir="/var/tmp")
    try:
        fam = os.path.join(d, "family.py")
        with open(fam, "w") as f:
            f.write(FAMILY + "\nimport sys\nc, h = compile_procs_to_strings(PROCS, 'fam.h')\n"
                    "open(sys.argv[1] + '/fam.c', 'w').write(c)\nopen(sys.argv[1] + '/fam.h', 'w').write(h)\n"
                    "print(len(PROCS))\n")
        env = dict(os.environ, PYTHONPATH=os.path.join(repo_root(), "src"), PYTHONDONTWRITEBYTECODE="1")
        r = subprocess.run(["/venv/bin/python", fam, d], capture_output=True, text=True, env=env, timeout=900)
        key = "src/exo/backend/LoopIR_compiler.py :: [bounded] the procedure family compiles and gcc accepts the C and the header"
        if r.returncode != 0:
            # the family itself must be accepted by the front end and the backend checks
            res["violations"].append(dict(obligation=key, confirmed=True,
                                          replay_script=_replay("exo rejected or crashed on the C15 procedure family",
                                                                (r.stdout + r.stderr)[-3000:])))
            res["clauses"][key] = "refuted"
            return res
        nprocs = int(r.stdout.strip().splitlines()[-1])
        # the inconsistent family: every member must be rejected at compile time
        rej = os.path.join(d, "reject.py")
        with open(rej, "w") as f:
            f.write(REJECT)
        rr = subprocess.run(["/venv/bin/python", rej], capture_output=True, text=True, env=env, timeout=900)
        key2 = "src/exo/backend :: [bounded] procedures with inconsistent memory/precision annotations are rejected at compile time"
        acc = [l for l in rr.stdout.splitlines() if l.startswith("ACCEPTED:")]
        if rr.returncode != 0 or not acc:
            res["undecided"].append("C15 reject family crashed: " + (rr.stdout + rr.stderr)[-600:])
        else:
            accepted = [x for x in acc[0][len("ACCEPTED:"):].split(",") if x]
            ncase = int(rr.stdout.strip().splitlines()[-1])
            res["bounded"].append(dict(target="inconsistent annotations rejected by compile_procs_to_strings",
                                       bound="10 procedures: direct and windowed access to an unreadable memory, AVX2 register "
                                             "windows, mixed precisions, precision / memory mismatch across a call",
                                       cases=ncase, failed=len(accepted)))
            if accepted:
                res["violations"].append(dict(obligation=key2, confirmed=True,
                                              replay_script=_replay("compile accepted inconsistent procedures", ", ".join(accepted))))
                res["clauses"][key2] = "refuted"
            else:
                res["clauses"][key2] = "discharged"
        diags = []
        with open(os.path.join(d, "hdr_only.c"), "w") as f:
            f.write('#include "fam.h"\n#include "fam.h"\nint pyvc_dummy;\n')
        for unit in ("fam.c", "hdr_only.c"):
            g = subprocess.run([gcc, "-std=c11", "-fsyntax-only", "-Wall", "-Werror", "-Wno-unused-variable",
                                "-Wno-unused-function", "-fopenmp", "-I", d, os.path.join(d, unit)],
                               capture_output=True, text=True, timeout=600)
            if g.returncode != 0:
                diags.append(f"{unit}: " + g.stderr[-2500:])
        res["bounded"].append(dict(target="compile_to_strings output accepted by gcc -std=c11 -fsyntax-only -Wall -Werror",
                                   bound=f"a family of {nprocs} procedures covering windows, allocations, calls, scalars, "
                                         f"div/mod, casts, configs, externs, par loops, stride assertions, scheduled variants",
                                   cases=nprocs, failed=len(diags)))
        if diags:
            res["violations"].append(dict(obligation=key, confirmed=True,
                                          replay_script=_replay("gcc rejects the emitted C", "\n".join(diags))))
            res["clauses"][key] = "refuted"
        else:
            res["clauses"][key] = "discharged"
            res["samples"].append(f"{nprocs} procedures compiled; gcc accepted fam.c and fam.h")
    finally:
        shutil.rmtree(d, ignore_errors=True)
    res["solver_time_s"] = round(time.time() - t0, 2)
    return res


def _replay(what, text):
    return f"#!/venv/bin/python\nprint({what!r})\nprint({text!r})\nraise SystemExit(1)\n"
