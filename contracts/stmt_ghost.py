"""Ghost *store semantics* of LoopIR statement blocks (helper of
contracts/c01_exprs.py; not a contract module).

The oracle is the denotational semantics of a block of LoopIR statements over
stores whose numeric locations hold REAL numbers (the property is stated "up to
real-number algebra"):

  x[i...] = e        the location (x, values of i...) receives the value of e
  x[i...] += e       ... receives its old value plus the value of e
  if c: B1 else: B2  B1 when c holds, else B2
  for i in seq(lo, hi): B    B[i := v] for v = lo .. hi-1 in this order
  f(args)            the body of f with its parameters bound to the arguments
  pass, alloc, free  no effect on existing locations (a fresh buffer has
                     arbitrary contents)

Values: index expressions are integers (pyvc ints, evaluated by
trace_ghost.evx under one arbitrary valuation rho of the free index
variables); numeric expressions are real numbers - z3 Real terms in symbolic
mode, exact `Fraction`s in concrete mode (replay).  `+ - *` are the field
operations of the reals (so commutativity / associativity / distributivity are
available to the solver, which is exactly the "up to real-number algebra" of the
property); `/` is real division (total, value at 0 unspecified but functional).

A store is a *function* from (buffer, index tuple) to a value: the initial
contents of every buffer are an uninterpreted function of the index tuple, a
write at index tuple t overrides the function at every k with k == t.  Two
accesses a[i] and a[j] therefore alias exactly when i == j - decided by the
solver, never by syntax.  Stores are compared at a fresh (universally
quantified) index tuple per observable buffer, i.e. at *every* location.

Loops with symbolic bounds are handled by a relational (lock-step) rule with a
coupling relation supplied by the contract (`lockstep`): three obligations
(coupling holds on entry / is preserved by one arbitrary iteration of both
bodies / the code after the loops re-establishes equality from any coupled pair
of states); only buffers written by the bodies are havocked.  In concrete mode
loops are simply executed.
"""
from __future__ import annotations
import zlib
from fractions import Fraction
import z3
from pyvc import sym as S
from pyvc.sym import And, Or, Not, Implies
from contracts.ghost import rho, SRC
from contracts.trace_ghost import evx, tup_eq
from exo.core.LoopIR import LoopIR, T
from exo.core.prelude import Sym


class GhostUnsupported(AssertionError):
    """the ghost semantics does not cover this construct (a contract shape must not produce it)"""


def concrete():
    return S.cur().concrete


# ----------------------------------------------------------------------------
# the real domain

def _parse_real(v):
    if isinstance(v, (int, float, Fraction)) and not isinstance(v, bool):
        return Fraction(v)
    s = str(v).strip().replace("?", "").replace(" ", "")
    s = s.replace("(", "").replace(")", "")
    try:
        return Fraction(s)
    except Exception:
        return Fraction(0)


def fresh_real(name):
    """a real-valued input leaf (the value of a numeric literal of the procedure).  Symbolic mode: a z3 Real
    constant registered with the path's leaves (so that it appears in counter-models); concrete mode: the
    model's value or a small multiple of 1/4, returned as a float that is exactly that rational."""
    ctx = S.cur()
    nm = ctx._leafname(name)
    ctx.nfresh += 1
    if ctx.concrete:
        v = ctx.values.get(nm)
        if v is None:
            v = Fraction(ctx.rng.randint(4 * ctx.lo, 4 * ctx.hi), 4)
        else:
            v = Fraction(float(_parse_real(v)))
        ctx.leaves[nm] = str(v)
        return float(v)
    c = z3.Real(nm)
    ctx.leaves[nm] = c
    return S.SReal(c)


def R(x):
    """a number of the program as a value of the ghost's real domain"""
    if concrete():
        if isinstance(x, Fraction):
            return x
        if isinstance(x, bool):
            return Fraction(int(x))
        return Fraction(x)
    if isinstance(x, z3.ExprRef):
        return z3.ToReal(x) if z3.is_int(x) else x
    if isinstance(x, S.SReal):
        return x.t
    if isinstance(x, (S.SInt, S.SBool)):
        return z3.ToReal(S.lift(x))
    if isinstance(x, bool):
        x = int(x)
    return z3.RealVal(str(Fraction(x)))


def rdiv(a, b):
    if concrete():
        return a / b if b != 0 else Fraction(0)
    return a / b


def rite(c, a, b):
    if isinstance(c, bool):
        return a if c else b
    if concrete():
        return a if bool(c) else b
    return z3.If(S.liftb(c), a, b)


def req(a, b):
    """equality of two real values, as a (possibly symbolic) truth value"""
    if concrete():
        return a == b
    return S.mk(a == b)


def truth(v):
    return v if isinstance(v, (bool, S.SBool)) else (v != 0)


# ----------------------------------------------------------------------------
# stores

class Init:
    """the initial contents of every buffer (shared by the runs that are compared)"""
    def __init__(self):
        self.fns, self.vals, self.order, self.salt = {}, {}, {}, None

    def read(self, sym, idx):
        idx = tuple(idx)
        n = self.order.setdefault(id(sym), len(self.order))
        if concrete():
            key = (id(sym), tuple(int(i) for i in idx))
            if key not in self.vals:
                if self.salt is None:
                    self.salt = S.cur().fresh_int("contents")
                h = zlib.crc32(f"{sym.name()}#{n}|{key[1]}|{self.salt}".encode())
                v = h % 23 - 11
                self.vals[key] = Fraction(v if v != 0 else 12, 2 if h % 5 == 0 else 1)
            return self.vals[key]
        key = (id(sym), len(idx))
        if key not in self.fns:
            nm = f"{sym.name()}@0#{n}"
            if not idx:
                self.fns[key] = z3.Real(nm)
            else:
                self.fns[key] = z3.Function(nm, *([z3.IntSort()] * len(idx)), z3.RealSort())
        f = self.fns[key]
        return f if not idx else f(*[S.lift(i) for i in idx])


class Store:
    def __init__(self, init, bufs=None, touched=None):
        self.init = init
        self.bufs = dict(bufs or {})          # id(sym) -> (sym, reader)
        self.touched = list(touched or [])    # (sym, index tuple) of every write, in order

    def fork(self):
        return Store(self.init, self.bufs, self.touched)

    def reader(self, sym):
        e = self.bufs.get(id(sym))
        if e is not None:
            return e[1]
        return lambda k: self.init.read(sym, k)

    def read(self, sym, idx):
        return self.reader(sym)(tuple(idx))

    def write(self, sym, idx, val):
        idx = tuple(idx)
        old = self.reader(sym)
        self.bufs[id(sym)] = (sym, lambda k: rite(tup_eq(k, idx), val, old(k)))
        self.touched.append((sym, idx))

    def set_reader(self, sym, fn):
        self.bufs[id(sym)] = (sym, fn)


def merge(c, s1, s2):
    """the store `s1 if c else s2`"""
    out = Store(s1.init)
    for key in list(dict.fromkeys(list(s1.bufs) + list(s2.bufs))):
        sym = (s1.bufs.get(key) or s2.bufs.get(key))[0]
        r1, r2 = s1.reader(sym), s2.reader(sym)
        out.bufs[key] = (sym, (lambda r1, r2: lambda k: rite(c, r1(k), r2(k)))(r1, r2))
    out.touched = s1.touched + [t for t in s2.touched if t not in s1.touched]
    return out


# ----------------------------------------------------------------------------
# expressions

ALIAS = "alias"      # key of the environment: id(formal parameter) -> actual buffer symbol


def resolve(sym, env):
    al = env.get(ALIAS) if env else None
    while al and id(sym) in al:
        sym = al[id(sym)]
    return sym


def is_numeric_type(t):
    try:
        return t.is_numeric()
    except Exception:
        return False


def rval(e, st, env):
    """value of a numeric expression in store `st`"""
    if isinstance(e, LoopIR.Const):
        return R(e.val)
    if isinstance(e, LoopIR.Read):
        if not is_numeric_type(e.type):
            return R(evx(e, env))
        return st.read(resolve(e.name, env), [evx(i, env) for i in e.idx])
    if isinstance(e, LoopIR.USub):
        return -rval(e.arg, st, env)
    if isinstance(e, LoopIR.BinOp):
        a, b = rval(e.lhs, st, env), rval(e.rhs, st, env)
        if e.op == "+":
            return a + b
        if e.op == "-":
            return a - b
        if e.op == "*":
            return a * b
        if e.op == "/":
            return rdiv(a, b)
    raise GhostUnsupported(f"rval: {type(e).__name__} {getattr(e, 'op', '')}")


def expr_reads(e, out=None):
    """buffers read by a numeric expression (the ghost's own walk)"""
    out = [] if out is None else out
    if isinstance(e, LoopIR.Read):
        if is_numeric_type(e.type):
            out.append(e.name)
    elif isinstance(e, LoopIR.USub):
        expr_reads(e.arg, out)
    elif isinstance(e, LoopIR.BinOp):
        expr_reads(e.lhs, out)
        expr_reads(e.rhs, out)
    return out


# ----------------------------------------------------------------------------
# statements

def writes(stmts, env=None, out=None):
    """buffers that may be written by the statements: id(sym) -> (sym, rank)"""
    out = {} if out is None else out
    env = env or {}
    for s in stmts:
        if isinstance(s, (LoopIR.Assign, LoopIR.Reduce)):
            sym = resolve(s.name, env)
            out[id(sym)] = (sym, len(s.idx))
        elif isinstance(s, LoopIR.For):
            writes(s.body, env, out)
        elif isinstance(s, LoopIR.If):
            writes(s.body, env, out)
            writes(s.orelse, env, out)
        elif isinstance(s, LoopIR.Call):
            writes(s.f.body, _call_env(s, env, None), out)
        elif isinstance(s, (LoopIR.Pass, LoopIR.Alloc, LoopIR.Free)):
            pass
        else:
            raise GhostUnsupported(f"writes: {type(s).__name__}")
    return out


def _call_env(s, env, st):
    al = dict((env or {}).get(ALIAS) or {})
    new = {ALIAS: al}
    for formal, actual in zip(s.f.args, s.args):
        if is_numeric_type(formal.type):
            if not (isinstance(actual, LoopIR.Read) and not actual.idx):
                raise GhostUnsupported("call argument that is not a whole buffer")
            al[id(formal.name)] = resolve(actual.name, env)
        else:
            new[id(formal.name)] = evx(actual, env)
    return new


def run(stmts, st, env=None, loop_rule=None):
    """execute the statements on the store `st` (which is updated in place when control is concrete;
    always use the returned store)"""
    env = env or {}
    for s in stmts:
        if isinstance(s, LoopIR.Assign):
            st.write(resolve(s.name, env), [evx(i, env) for i in s.idx], rval(s.rhs, st, env))
        elif isinstance(s, LoopIR.Reduce):
            sym, idx = resolve(s.name, env), [evx(i, env) for i in s.idx]
            st.write(sym, idx, st.read(sym, idx) + rval(s.rhs, st, env))
        elif isinstance(s, (LoopIR.Pass, LoopIR.Alloc, LoopIR.Free)):
            pass
        elif isinstance(s, LoopIR.If):
            c = truth(evx(s.cond, env))
            if concrete():
                c = bool(c)
            if isinstance(c, bool):
                st = run(s.body if c else s.orelse, st, env, loop_rule)
            else:
                s1 = run(s.body, st.fork(), env, loop_rule)
                s2 = run(s.orelse, st.fork(), env, loop_rule)
                st = merge(c, s1, s2)
        elif isinstance(s, LoopIR.For):
            lo, hi = evx(s.lo, env), evx(s.hi, env)
            if concrete() or (isinstance(lo, int) and isinstance(hi, int) and hi - lo <= 4):
                for v in range(int(lo), int(hi)):
                    st = run(s.body, st, {**env, id(s.iter): v}, loop_rule)
            elif not writes(s.body, env):
                pass            # a loop whose body writes nothing leaves every location alone
            else:
                st = (loop_rule or havoc_rule)(s, st, env)
        elif isinstance(s, LoopIR.Call):
            st = run(s.f.body, st, _call_env(s, env, st), loop_rule)
        else:
            raise GhostUnsupported(f"run: {type(s).__name__}")
    return st


# ----------------------------------------------------------------------------
# comparing stores

def observables(proc):
    """the numeric arguments of a procedure: (sym, rank)"""
    out = []
    for a in proc.args:
        if is_numeric_type(a.type):
            out.append((a.name, len(a.type.shape())))
    return out


def probes(sym, rank, *stores, tag="k"):
    """index tuples at which the stores are compared.  Symbolic mode: one fresh tuple (= every location);
    concrete mode: every index tuple written by one of the runs"""
    if concrete():
        pts = []
        for st in stores:
            for s, idx in st.touched:
                t = tuple(int(i) for i in idx)
                if s is sym and len(t) == rank and t not in pts:
                    pts.append(t)
        return pts
    ctx = S.cur()
    return [tuple(ctx.fresh_int(f"{tag}_{sym.name()}") for _ in range(rank))]


def same_contents(st_o, st_n, obs, tag="k"):
    """every observable location holds the same value in both stores"""
    cs = []
    for sym, rank in obs:
        for k in probes(sym, rank, st_o, st_n, tag=tag):
            cs.append(req(st_o.read(sym, k), st_n.read(sym, k)))
    return And(cs)


def differences(st_o, st_n, obs):
    """concrete mode: human-readable list of differing locations"""
    out = []
    for sym, rank in obs:
        for k in probes(sym, rank, st_o, st_n):
            a, b = st_o.read(sym, k), st_n.read(sym, k)
            if a != b:
                out.append(f"{sym.name()}{list(k)}: original {a}, rewritten {b}")
    return out


# ----------------------------------------------------------------------------
# lock-step rule for a pair of loops

class Lockstep:
    """coupled execution of `for i in seq(lo, hi): Bo` (original) and `for i in seq(lo', hi'): Bn` (rewritten)
    from the entry stores so / sn.

    couple(sym, k, nv) is the value that location (sym, k) holds in the ORIGINAL run whenever it holds nv in
    the REWRITTEN run (the coupling relation, functional in nv; it may only mention values fixed at loop
    entry).  Obligations:
      entry   same iteration space, and the entry stores are coupled
      step    from any coupled pair of stores, one iteration (same iterator value, in range) of each body
              gives a coupled pair again
    Result: `exit_o, exit_n`, an arbitrary coupled pair (locations of buffers not written by either body keep
    their entry contents) from which the caller continues."""

    def __init__(self, Lo, Ln, so, sn, env, couple, loop_rule=None):
        self.entry, self.step = True, True
        if concrete():
            self.exit_o, self.exit_n = run([Lo], so, env), run([Ln], sn, env)
            return
        ctx = S.cur()
        W = dict(writes(Lo.body, env))
        W.update(writes(Ln.body, env))
        lo, hi = evx(Lo.lo, env), evx(Lo.hi, env)
        cs = [lo == evx(Ln.lo, env), hi == evx(Ln.hi, env)]
        for sym, rank in W.values():
            k = tuple(ctx.fresh_int(f"ke_{sym.name()}") for _ in range(rank))
            cs.append(req(so.read(sym, k), couple(sym, k, sn.read(sym, k))))
        self.entry = And(cs)

        def havoc(tag):
            ho, hn = so.fork(), sn.fork()
            for sym, rank in W.values():
                nm = f"{sym.name()}@{tag}#{ctx.nfresh}"
                ctx.nfresh += 1
                if rank == 0:
                    H0 = z3.Real(nm)
                    H = lambda k, H0=H0: H0
                else:
                    HF = z3.Function(nm, *([z3.IntSort()] * rank), z3.RealSort())
                    H = lambda k, HF=HF: HF(*[S.lift(i) for i in k])
                hn.set_reader(sym, H)
                ho.set_reader(sym, (lambda sym, H: lambda k: couple(sym, k, H(k)))(sym, H))
            return ho, hn

        ho, hn = havoc("iter")
        i = ctx.fresh_int("iteration")
        envi = {**env, id(Lo.iter): i, id(Ln.iter): i}
        ho2 = run(Lo.body, ho, envi, loop_rule)
        hn2 = run(Ln.body, hn, envi, loop_rule)
        cs = []
        for sym, rank in W.values():
            k = tuple(ctx.fresh_int(f"ks_{sym.name()}") for _ in range(rank))
            cs.append(req(ho2.read(sym, k), couple(sym, k, hn2.read(sym, k))))
        self.step = Implies(And(lo <= i, i < hi), And(cs))
        self.exit_o, self.exit_n = havoc("exit")
        self.exit_o.touched, self.exit_n.touched = list(so.touched), list(sn.touched)


def havoc_rule(s, st, env):
    """default treatment of a loop with symbolic bounds that is *not* executed in lock-step: zero iterations when
    hi <= lo, otherwise the buffers written by the body hold arbitrary new contents.  This over-approximates the
    loop, so it can make an equality unprovable but never proves a wrong one."""
    ctx = S.cur()
    lo, hi = evx(s.lo, env), evx(s.hi, env)
    out = st.fork()
    for sym, rank in writes(s.body, env).values():
        nm = f"{sym.name()}@loop#{ctx.nfresh}"
        ctx.nfresh += 1
        if rank == 0:
            H0 = z3.Real(nm)
            H = lambda k, H0=H0: H0
        else:
            HF = z3.Function(nm, *([z3.IntSort()] * rank), z3.RealSort())
            H = lambda k, HF=HF: HF(*[S.lift(i) for i in k])
        old = st.reader(sym)
        out.set_reader(sym, (lambda H, old: lambda k: rite(lo < hi, H(k), old(k)))(H, old))
    return out
