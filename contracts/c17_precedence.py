"""C17 - operator precedence and associativity of the expression printer.

Bounded stand-in (reported as `bounded`, never as discharged): every index
expression tree of depth <= 3 over + - * / % and unary minus is printed by the
REAL `_print_expr`, the text is parsed with Python's own parser (Exo's surface
syntax for these expressions is Python's, and Exo's parser is built on Python's
`ast`), and z3 decides for ALL integer values of the variables that the parsed
text has the value of the tree (floor semantics).  A missing pair of
parentheses changes the value for some assignment and is reported with it.
"""
from __future__ import annotations
import ast, itertools, os, time
import z3

ENGINES = ["contracts.c17_precedence:run"]
ASSUMPTIONS = ["C17 precedence: Exo's parser reads index expressions with Python's grammar (pyparser is built on "
               "Python's ast); the parse-print round trip of whole procedures is not covered"]
FP = "src/exo/core/LoopIR_pprint.py"
OPS = ["+", "-", "*", "/", "%"]


def _fdiv(a, b):
    return z3.If(b > 0, a / b, (-a) / (-b))


def _fmod(a, b):
    return a - b * _fdiv(a, b)


def run(tier="quick", seed=0):
    from pyvc.run import ensure_repo_on_path
    ensure_repo_on_path()
    from exo.core.LoopIR import LoopIR, T
    from exo.core.prelude import Sym, SrcInfo
    from exo.core import LoopIR_pprint as PP
    SRC = SrcInfo("prec", 0)
    t0 = time.time()
    x, y = Sym("x"), Sym("y")
    zx, zy = z3.Int("x"), z3.Int("y")

    def leaves():
        return [LoopIR.Read(x, [], T.index, SRC), LoopIR.Read(y, [], T.index, SRC)] + \
               [LoopIR.Const(c, T.int, SRC) for c in (1, 2, -3)]

    def trees(d):
        if d == 0:
            return leaves()
        sub = trees(d - 1)
        small = sub if d == 1 else sub[:: max(1, len(sub) // 24)]
        out = list(sub)
        for op in OPS:
            for l in small:
                for r in small:
                    out.append(LoopIR.BinOp(op, l, r, T.index, SRC))
        for a in small:
            out.append(LoopIR.USub(a, T.index, SRC))
        return out

    def val(e):
        if isinstance(e, LoopIR.Read):
            return zx if e.name is x else zy
        if isinstance(e, LoopIR.Const):
            return z3.IntVal(e.val)
        if isinstance(e, LoopIR.USub):
            return -val(e.arg)
        l, r = val(e.lhs), val(e.rhs)
        return {"+": l + r, "-": l - r, "*": l * r, "/": _fdiv(l, r), "%": _fmod(l, r)}[str(e.op)]

    def pval(n):
        if isinstance(n, ast.Expression):
            return pval(n.body)
        if isinstance(n, ast.Name):
            return {"x": zx, "y": zy}[n.id]
        if isinstance(n, ast.Constant):
            return z3.IntVal(n.value)
        if isinstance(n, ast.UnaryOp) and isinstance(n.op, ast.USub):
            return -pval(n.operand)
        if isinstance(n, ast.BinOp):
            l, r = pval(n.left), pval(n.right)
            k = type(n.op)
            if k is ast.Add:
                return l + r
            if k is ast.Sub:
                return l - r
            if k is ast.Mult:
                return l * r
            if k is ast.Div:
                return _fdiv(l, r)
            if k is ast.Mod:
                return _fmod(l, r)
        raise ValueError(ast.dump(n))

    depth = 3 if tier == "thorough" else 2
    extra = trees(3)[:: 37] if depth == 2 else []
    cases = bad = 0
    viol = []
    undec = []
    for t in list(trees(depth)) + list(extra):
        env = PP.PrintEnv()
        try:
            text = PP._print_expr(t, env)
        except Exception as e:
            undec.append(f"_print_expr raised {type(e).__name__}")
            continue
        cases += 1
        try:
            got = pval(ast.parse(text, mode="eval"))
        except Exception as e:
            bad += 1
            if not viol:
                viol.append((text, None, f"not parseable: {e}"))
            continue
        s = z3.Solver()
        s.set("rlimit", 20000000)
        s.add(got != val(t))
        r = s.check()
        if r == z3.sat:
            bad += 1
            if not viol:
                m = s.model()
                viol.append((text, {str(d): m[d].as_long() for d in m.decls()}, str(t)))
        elif r != z3.unsat:
            undec.append(f"solver unknown on `{text}`")
    res = dict(obligations=0, discharged=0, functions=[f"{FP}::_print_expr (precedence, bounded)"],
               assumptions=[], samples=[f"{cases} printed expressions re-parsed and compared for all variable values"],
               violations=[], undecided=undec[:5],
               bounded=[dict(target=f"{FP}::_print_expr printed text parses back to the same value",
                             bound=f"all trees of depth <= {depth} (+ a sample of depth 3) over + - * / % unary-; values symbolic",
                             cases=cases, failed=bad)],
               clauses={f"{FP} :: [bounded] printed expression parses back to the same value": "refuted" if viol else "discharged"},
               solver_time_s=round(time.time() - t0, 2))
    if viol:
        text, vals, tree = viol[0]
        res["violations"].append(dict(
            obligation=f"{FP} :: [bounded] printed expression parses back to the same value", confirmed=True,
            replay_script=f"#!/venv/bin/python\nprint('tree   :', {tree!r})\nprint('printed:', {text!r})\n"
                          f"print('values for which the printed text means something else:', {vals!r})\nraise SystemExit(1)\n"))
    return res
