"""C06 - forwarded cursors denote the same code or are invalid.

Targets: the elementary tree edits of src/exo/core/internal_cursors.py together
with the forwarding function each of them returns, the closures that do the
index arithmetic, `_local_forward.forward`, the range predicates, `_compose`,
`Procedure.forward` and `CursorArgumentProcessor.__call__`.

Two layers (both run the *real* source through the pyvc interpreter):

U  (unbounded)  the index arithmetic closures `fwd_node` / `fwd_block` of
   `_forward_insert`, `_forward_replace`, `_forward_wrap`, the predicates
   `_is_sub_range`, `_intersects_partially`, `_starts_with`,
   `Gap._insertion_index` and `_local_forward.forward`, for *all* integer
   positions and list lengths.  The oracle is the list-concatenation model
   `L' = L[:lo] + N + L[hi:]` over an uninterpreted element function.
S  (shapes)  the pairs (edit, forwarding function) executed on real little
   procedures (real LoopIR nodes, distinct statement objects) with symbolic
   positions (edit range, insertion gap, cursor index / range / gap).  Oracle:
   object identity of the statements shared by the old and the new tree.
   Block lengths 0..4 and nesting depth <= 2 are enumerated as shapes: this is
   a bound on the *shape* (reported in ASSUMPTIONS); positions are symbolic
   inside each shape.

Postconditions are the sentences of the property: a Node cursor to a statement
that survives the edit is forwarded to a cursor that resolves, in the new tree,
to the very same statement; a cursor to a deleted statement raises
InvalidCursorError; never a dangling path; Block cursors forward to the block
of the same surviving statements; Gap cursors follow their anchor; a cursor of
another root is rejected.
"""
from __future__ import annotations
import types
import z3
from pyvc.contract import contract
from pyvc import sym as S
from pyvc.sym import And, Or, Not, Implies, Ite
from pyvc.srange import SRange
from contracts.cursor_ghost import (
    SRC, leaf, mk_for, mk_if, mk_proc, tag, tag_name, stmt_lists, all_stmts, all_blocks,
    get_path, is_symbolic, mk_range, g_index, g_subrange, g_above, in_rng, resolve_g,
    path_eq, range_eq, cursor_eq, Runner, show_path, show_cursor, stable, Outcome)
from exo.core.LoopIR import LoopIR, T
from exo.core.prelude import Sym, SrcInfo
from exo.core import internal_cursors as IC
from exo.core.internal_cursors import InvalidCursorError, GapType

F = "src/exo/core/internal_cursors.py"
RLIMIT = 5_000_000      # z3 resource limit per check (all queries here are small and linear)

ENGINES = ["contracts.c06_forwarding:run_engine_selftest"]

ASSUMPTIONS = [
    "C06 layer S: the (edit, forwarding) pairs are executed on generated procedures whose edited block has "
    "length 0..4 and whose nesting depth is <= 2 (12 tree shapes, see SHAPES; 4 for Block._move); the edit range, "
    "the insertion gap and the forwarded cursor's index / range are symbolic inside a shape. "
    "Statement identity is observed through object identity of shared LoopIR nodes (asdl_adt `update` keeps every "
    "field it is not given).",
    "C06 layer U: the list-concatenation model L' = L[:lo] + N + L[hi:] (and its wrap / insert instances) is the "
    "specification of the child list after an edit; that the real `update` closures build exactly this list is what "
    "layer S checks on the enumerated shapes.",
    "C06 (reading of the property for blocks): a forwarded block may contain statements the edit inserted strictly "
    "inside it or that replace / wrap members of it; after Block._move a block that reaches beyond the moved block may "
    "drop the moved statements but must not denote foreign ones; a block may always be reported invalid (precision is "
    "only demanded when all its statements survive as consecutive siblings, and not for moves / forward_identity). "
    "Precondition of Block._move from its 21 call sites: the target gap is not anchored at or inside a moved statement "
    "(the `target in self` branch raises IndexError at the tail of a list - observation, outside C06). "
    "(F16) cursors to sibling *expressions* of a replaced expression are outside the property (statement/block/gap cursors).",
    "C06 _local_forward.forward: cursor paths of length <= depth+2 with depth <= 2 are enumerated as shapes (indices "
    "symbolic, arbitrary); _starts_with: lists of length <= 3.",
    "C06: Procedure.forward / CursorArgumentProcessor are checked on provenance chains of length 0..3.",
]


# ============================================================================
# Layer S : shapes
# ============================================================================

class Tree:
    def __init__(self, level, n, q):
        self.level, self.n, self.q = level, n, q
        edit = []
        for i in range(n):
            if q is not None and i == q:
                if q % 2 == 0:
                    edit.append(mk_for(f"c{i}", [leaf(f"c{i}a"), leaf(f"c{i}b")]))
                else:
                    edit.append(mk_if(f"c{i}", [leaf(f"c{i}a")], [leaf(f"c{i}b")]))
            else:
                edit.append(leaf(f"e{i}"))
        self.attr = "body"
        if level == "root":
            body, self.ppath = edit, []
        elif level == "for":
            body, self.ppath = [leaf("pre"), mk_for("P", edit), leaf("post")], [("body", 1)]
        elif level == "ifbody":
            body = [leaf("pre"), mk_if("P", edit, [leaf("o0"), leaf("o1")]), leaf("post")]
            self.ppath = [("body", 1)]
        elif level == "iforelse":
            body = [leaf("pre"), mk_if("P", [leaf("b0"), leaf("b1")], edit), leaf("post")]
            self.ppath, self.attr = [("body", 1)], "orelse"
        elif level == "deep":
            inner = mk_if("P", edit, [leaf("o0")])
            body = [leaf("pre"), mk_for("Q", [leaf("x0"), inner, leaf("x2")]), leaf("post")]
            self.ppath = [("body", 1), ("body", 1)]
        else:
            raise AssertionError(level)
        self.root = mk_proc(body)
        self.parent = get_path(self.root, self.ppath)
        self.OL = getattr(self.parent, self.attr)
        assert len(self.OL) == n

    def ancestors(self, path=None):
        """statements on the way from the root to `path` (inclusive)"""
        path = self.ppath if path is None else path
        return [get_path(self.root, path[:k]) for k in range(1, len(path) + 1)]

    def __str__(self):
        return (f"Tree(level={self.level}, n={self.n}, compound_at={self.q}; edited list = "
                f"{show_path(self.ppath)}.{self.attr}; {show_tree(self.root)})")


def show_tree(n):
    def rec(x):
        nm = tag_name(x)
        ls = stmt_lists(x)
        if not ls:
            return nm
        return nm + "{" + "; ".join(f"{a}: [" + ", ".join(rec(y) for y in l) + "]" for a, l in ls) + "}"
    return "proc{" + "; ".join(f"{a}: [" + ", ".join(rec(y) for y in l) + "]" for a, l in stmt_lists(n)) + "}"


class Edit(types.SimpleNamespace):
    def __str__(self):
        out = []
        for k, v in self.__dict__.items():
            if isinstance(v, IC.Cursor):
                v = show_cursor(v)
            elif isinstance(v, list) and v and isinstance(v[0], (LoopIR.stmt,)):
                v = "[" + ", ".join(tag_name(x) for x in v) + "]"
            elif callable(v):
                continue
            out.append(f"{k}={v}")
        return "Edit(" + ", ".join(out) + ")"


class Probes:
    """the cursors forwarded on one path: [(kind, cursor)]"""
    def __init__(self):
        self.items = []

    def append(self, x):
        self.items.append(x)

    def __iadd__(self, xs):
        self.items.extend(xs)
        return self

    def __iter__(self):
        return iter(self.items)

    def __str__(self):
        return "[" + ", ".join(f"{k}: {show_cursor(c)}" for k, c in self.items) + "]"


# the first seven shapes vary the length of the edited block (and the position
# and kind of a compound statement inside it); the others vary where the
# edited block sits (root / For body / If orelse / depth 2).
SHAPES = ([("ifbody", n, None) for n in range(5)] + [("ifbody", 3, 0), ("ifbody", 3, 1)]
          + [(lvl, 2, None) for lvl in ("root", "for", "iforelse", "deep")] + [("deep", 2, 1)])


def g_tree(g, min_n=0, shapes=None):
    cand = [s for s in (shapes or SHAPES) if s[1] >= min_n]
    return Tree(*g.choose(cand, "shape"))


# ---------------------------------------------------------------------------
# cursors to forward

def g_probes(g, t, split_else_blocks=False):
    """-> (kind, Probes): the cursors of the old tree that are forwarded on this
    path.  Kinds:
      in        a statement of the edited list at a symbolic index, and the
                gaps before / after it;
      block_in  a non-empty block [a,b) of the edited list, a and b symbolic;
      block_else (only for moves) a block of another list, symbolic range;
      rest      every statement elsewhere in the tree (above, beside, below the
                edited list), both gaps of each, a block with symbolic range in
                every other statement list, and a cursor of a foreign root.
    Cursors whose forwarding forks on their position are kept one per path."""
    root = t.root

    def in_edit(p):
        return len(p) == len(t.ppath) + 1 and p[:len(t.ppath)] == t.ppath and p[-1][0] == t.attr

    others = [p for p, _ in all_stmts(root) if not in_edit(p)]
    oblocks = [(p, a, l) for p, a, l in all_blocks(root)
               if not (p == t.ppath and a == t.attr) and len(l) >= 1]
    kinds = ["rest"]
    if t.n >= 1:
        kinds += ["in", "block_in"]
    if split_else_blocks:
        kinds += ["block_else"]
    kind = g.choose(kinds, "probe")
    ps = Probes()
    if kind == "in":
        i = g_index(g, "ci", t.n)
        nd = IC.Node(root, t.ppath + [(t.attr, i)])
        ps += [("node_in", nd), ("gap_in", IC.Gap(root, nd, GapType.Before)),
               ("gap_in", IC.Gap(root, IC.Node(root, list(nd._path)), GapType.After))]
    elif kind == "block_in":
        lo, hi = g_subrange(g, "cb", t.n)
        ps.append(("block_in", IC.Block(root, IC.Node(root, list(t.ppath)), t.attr, mk_range(g, lo, hi))))
    elif kind == "block_else":
        p, a, l = g.choose(oblocks, "oblock")
        lo, hi = g_subrange(g, "cb", len(l))
        ps.append(("block_else", IC.Block(root, IC.Node(root, list(p)), a, mk_range(g, lo, hi))))
    else:
        for p in others:
            ps.append(("node_else", IC.Node(root, list(p))))
            ps.append(("gap_else", IC.Gap(root, IC.Node(root, list(p)), GapType.Before)))
            ps.append(("gap_else", IC.Gap(root, IC.Node(root, list(p)), GapType.After)))
        if not split_else_blocks:
            for j, (p, a, l) in enumerate(oblocks):
                lo, hi = g_subrange(g, f"ob{j}", len(l))
                ps.append(("block_else", IC.Block(root, IC.Node(root, list(p)), a, mk_range(g, lo, hi))))
        other = mk_proc([leaf("f0"), leaf("f1")], name="other")
        ps.append(("foreign", IC.Node(other, [("body", g_index(g, "fi", 2))])))
    return kind, ps


# ---------------------------------------------------------------------------
# the oracle

class Rec(types.SimpleNamespace):
    """what happened: edit_exc, new_root, results [(kind, cursor, out, exc)]"""
    def __str__(self):
        if self.edit_exc is not None:
            return f"edit raised {type(self.edit_exc).__name__}: {self.edit_exc}"
        lines = [f"new tree {show_tree(self.new_root)}"]
        for k, c, o, e in self.results:
            lines.append(f"    forward({show_cursor(c)}) = " +
                         (show_cursor(o) if e is None else f"raised {type(e).__name__}: {e}"))
        return "\n".join(lines)


def new_tags(rec):
    if "_new_tags" not in rec.__dict__:
        rec._new_tags = {id(tag(s)) for _, s in all_stmts(rec.new_root) if tag(s) is not None}
    return rec._new_tags


def old_tags(t):
    return {id(tag(s)): s for _, s in all_stmts(t.root)}


def survives(rec, s):
    return id(tag(s)) in new_tags(rec)


def same_stmt(n, s, rebuilt):
    """n (new tree) is the statement s (old tree)"""
    if n is s:
        return True
    if any(s is r for r in rebuilt):
        return type(n) is type(s) and tag(n) is tag(s)
    return False


def node_sound(a, cur, out, exc, rec):
    """forwarding of a Node cursor: same statement, or InvalidCursorError for
    a statement that is gone; never dangling, never another statement"""
    t = a.t
    ok0, old_c = resolve_g(t.root, cur._path)
    if exc is not None:
        return True                     # see the clause on exceptions / on precision
    if not isinstance(out, IC.Node):
        return False
    ok, new_c = resolve_g(rec.new_root, out._path)
    conds = [ok0, ok, out._root is rec.new_root]
    for gd, s in old_c:
        if not survives(rec, s):
            conds.append(Not(gd))        # should have been reported invalid
            continue
        for gn, n in new_c:
            conds.append(Implies(And(gd, gn), same_stmt(n, s, a.ed.rebuilt)))
    return And(conds)


def node_precise(a, cur, out, exc, rec):
    """InvalidCursorError only for a statement that does not survive"""
    if exc is None or not isinstance(exc, InvalidCursorError):
        return True
    _, old_c = resolve_g(a.t.root, cur._path)
    return And([Implies(gd, not survives(rec, s)) for gd, s in old_c])


def old_content(x, otags):
    """old statements denoted by a statement of the new tree: itself when it
    is an old statement, else (a new wrapper / inserted statement) the old
    statements it directly contains"""
    if tag(x) is not None and id(tag(x)) in otags:
        return [otags[id(tag(x))]]
    out = []
    for _, l in stmt_lists(x):
        for y in l:
            out += old_content(y, otags)
    return out


def placed_by_edit(a, w):
    """condition under which old statement w is one that the edit relocated"""
    if not getattr(a.ed, "moves", False):
        return False
    for j, s in enumerate(a.t.OL):
        if s is w:
            return And(a.ed.lo <= j, j < a.ed.hi)
    return False


def block_resolves(a, cur, out, exc, rec):
    """the forwarded block exists in the new tree: anchor path, attribute, range"""
    if exc is not None:
        return True
    if not isinstance(out, IC.Block):
        return False
    ok, cands = resolve_g(rec.new_root, out._anchor._path)
    a2, b2 = out._range.start, out._range.stop
    conds = [ok, out._root is rec.new_root, out._anchor._root is rec.new_root]
    for gn, pn in cands:
        NL = getattr(pn, out._attr, None)
        if not isinstance(NL, list):
            conds.append(Not(gn))                       # dangling attribute
            continue
        conds.append(Implies(gn, And(0 <= a2, a2 <= b2, b2 <= len(NL))))
    return And(conds)


def block_sound(a, cur, out, exc, rec, strict=True):
    """(given that it resolves) the forwarded block denotes the surviving
    statements of the old block and no foreign statement"""
    t = a.t
    if exc is not None or not isinstance(out, IC.Block):
        return True
    OL = getattr(get_path(t.root, cur._anchor._path), cur._attr)
    oa, ob = cur._range.start, cur._range.stop
    otags = old_tags(t)
    ok, cands = resolve_g(rec.new_root, out._anchor._path)
    a2, b2 = out._range.start, out._range.stop
    conds = []

    def idx_in_OL(w):
        for k, s in enumerate(OL):
            if s is w:
                return k
        return None

    for gn, pn in cands:
        NL = getattr(pn, out._attr, None)
        if not isinstance(NL, list):
            continue
        for m, x in enumerate(NL):                      # nothing foreign
            inn = And(gn, a2 <= m, m < b2)
            for w in old_content(x, otags):
                k = idx_in_OL(w)
                # a statement the edit itself put there (moved block) counts
                # like an inserted statement
                placed = placed_by_edit(a, w)
                if k is None:
                    conds.append(Implies(inn, placed))
                else:
                    conds.append(Implies(inn, Or(placed, And(oa <= k, k < ob))))
        for k, s in enumerate(OL):                      # nothing lost
            if not survives(rec, s):
                continue
            where = [m for m, x in enumerate(NL) if any(w is s for w in old_content(x, otags))]
            if not where and not strict:
                continue
            cover = Or([And(a2 <= m, m < b2) for m in where])
            need = And(gn, oa <= k, k < ob)
            if getattr(a.ed, "moves", False):
                # (documented reading for moves) a block that reaches beyond
                # the moved block may drop the moved statements
                inside = And(a.ed.lo <= oa, ob <= a.ed.hi) if OL is t.OL else False
                need = And(need, Or(Not(placed_by_edit(a, s)), inside))
            conds.append(Implies(need, cover))
        # not padded (edits that delete nothing: insert, move): when a member
        # of the old block survives in this list, the first and the last
        # statement of the forwarded block are members of the old block, not
        # statements the edit put next to it.  (For replace / delete / wrap the
        # new statements stand for deleted or wrapped members of the block.)
        if not getattr(a.ed, "no_padding", False):
            continue
        members = []
        for m, x in enumerate(NL):
            oc = old_content(x, otags)
            ks = [idx_in_OL(w) for w in oc]
            if oc and all(k is not None for k in ks):
                members.append((m, And([And(oa <= k, k < ob) for k in ks])))
        has_surv = Or([And(a2 <= m, m < b2, c) for m, c in members])
        first_ok = Or([And(a2 == m, c) for m, c in members])
        last_ok = Or([And(b2 - 1 == m, c) for m, c in members])
        conds.append(Implies(And(gn, has_surv), And(first_ok, last_ok)))
    return And(conds)


def block_precise(a, cur, out, exc, rec):
    """a block all of whose statements survive as consecutive siblings, in
    order, has a faithful image: it must not be reported invalid"""
    if exc is None or not isinstance(exc, InvalidCursorError):
        return True
    t = a.t
    OL = getattr(get_path(t.root, cur._anchor._path), cur._attr)
    oa, ob = cur._range.start, cur._range.stop
    pos = {}
    for p, at, l in all_blocks(rec.new_root):
        for m, x in enumerate(l):
            pos[id(x)] = (id(l), m)
            if tag(x) is not None:
                pos[("t", id(tag(x)))] = (id(l), m)
    conds = []
    n = len(OL)
    for lo in range(n):
        for hi in range(lo + 1, n + 1):
            ps = [pos.get(id(s)) or pos.get(("t", id(tag(s)))) for s in OL[lo:hi]]
            faithful = all(p is not None for p in ps) and all(
                ps[j][0] == ps[0][0] and ps[j][1] == ps[0][1] + j for j in range(len(ps)))
            if faithful:
                conds.append(Not(And(oa == lo, ob == hi)))
    return And(conds)


def gap_sound(a, cur, out, exc, rec):
    if exc is not None:
        return True
    if not isinstance(out, IC.Gap):
        return False
    return And(out._type is cur._type, out._root is rec.new_root,
               node_sound(a, cur._anchor, out._anchor, None, rec))


def gap_precise(a, cur, out, exc, rec):
    return node_precise(a, cur._anchor, None, exc, rec)


# tree models (nested lists of tags) ------------------------------------------

def model(n):
    tg = tag(n) if not isinstance(n, LoopIR.proc) else None
    key = id(tg) if tg is not None else type(n).__name__
    return (key, tuple((a, tuple(model(x) for x in l)) for a, l in stmt_lists(n)))


def model_with(n, path, attr, newlist):
    """model of node n with the list at path/attr replaced by `newlist` (models)"""
    tg = tag(n) if not isinstance(n, LoopIR.proc) else None
    key = id(tg) if tg is not None else type(n).__name__
    lists = []
    for a, l in stmt_lists(n):
        if not path and a == attr:
            lists.append((a, tuple(newlist)))
        elif path and a == path[0][0]:
            lists.append((a, tuple(model_with(x, path[1:], attr, newlist) if i == path[0][1] else model(x)
                                   for i, x in enumerate(l))))
        else:
            lists.append((a, tuple(model(x) for x in l)))
    return (key, tuple(lists))


def shares_untouched(a, rec):
    """every surviving old statement that is not on a rebuilt chain is the
    same object in the new tree"""
    new_ids = {id(s) for _, s in all_stmts(rec.new_root)}
    ok = True
    for _, s in all_stmts(a.t.root):
        if survives(rec, s) and not any(s is r for r in a.ed.rebuilt):
            ok = ok and (id(s) in new_ids)
    return ok


# ---------------------------------------------------------------------------
# driving an edit followed by a forward

def drive(R, fn, a, do_edit):
    rec = Rec(edit_exc=None, new_root=None, results=[])
    res, exc = do_edit(R, fn, a)
    if exc is not None:
        rec.edit_exc = exc
        return rec
    rec.new_root, fwd = res
    for kind, cur in a.probes:
        out, exc = R.call(fwd, cur)
        rec.results.append((kind, cur, out, exc))
    return rec


def edit_contract(qualname, g_edit, do_edit, expected_model, min_n=0, shapes=None,
                  block_strict=True, name=None, split_else_blocks=False, block_precision=True,
                  check_foreign=True):
    c = contract("C06", F, qualname, name=name)
    c.rlimit = RLIMIT

    @c.inputs
    def _(g):
        t = g_tree(g, min_n=min_n, shapes=shapes)
        ed = g_edit(g, t)
        if "rebuilt" not in ed.__dict__:
            ed.rebuilt = t.ancestors()
        kind, probes = g_probes(g, t, split_else_blocks)
        if kind == "rest":
            probes += g.ghost.get("extra_probes", [])
        return {"t": t, "ed": ed, "probes": probes}

    c.entry = lambda g, it, fn, a: drive(Runner(it), fn, a, do_edit)
    c.native_entry = lambda g, fn, a: drive(Runner(None), fn, a, do_edit)

    @c.ensures("the edit itself succeeds")
    def _(a):
        return a.result.edit_exc is None

    @c.ensures("new tree is the specified edit of the old tree (nothing else changes)")
    def _(a):
        if a.result.edit_exc is not None:
            return True
        got = model(a.result.new_root)
        return And([Implies(gd, got == exp) for gd, exp in expected_model(a)])

    @c.ensures("statements off the edited spine are shared by identity")
    def _(a):
        return a.result.edit_exc is not None or shares_untouched(a, a.result)

    def on(prefix, f):
        def clause(a):
            r = a.result
            if r.edit_exc is not None:
                return True
            return And([f(a, cur, out, exc, r) for kind, cur, out, exc in r.results
                        if kind.startswith(prefix)])
        return clause

    c.ensures("forwarding yields a cursor or raises InvalidCursorError, never another exception")(
        on("", lambda a, cur, out, exc, r: exc is None or isinstance(exc, InvalidCursorError)))
    c.ensures("node cursor: forwarded to the very same statement, or invalid if it is gone; "
              "never dangling, never another statement")(on("node_", node_sound))
    c.ensures("node cursor: InvalidCursorError only for a deleted statement")(on("node_", node_precise))
    c.ensures("block cursor: the forwarded block exists in the new tree (anchor, attribute, range): never dangling")(
        on("block_", block_resolves))
    c.ensures("block cursor: the forwarded block denotes the same surviving statements, nothing foreign")(
        on("block_", lambda a, cur, out, exc, r: block_sound(a, cur, out, exc, r, strict=block_strict)))
    if block_precision:
        c.ensures("block cursor: not reported invalid when its statements survive as a block")(
            on("block_", block_precise))
    c.ensures("gap cursor: follows its anchor, keeps its side")(on("gap_", gap_sound))
    c.ensures("gap cursor: InvalidCursorError only when the anchor is gone")(on("gap_", gap_precise))
    if check_foreign:
        c.ensures("cursor of another root is rejected with InvalidCursorError")(
            on("foreign", lambda a, cur, out, exc, r: isinstance(exc, InvalidCursorError)))
    return c


def _models(l):
    return [model(x) for x in l]


# ---- Gap._insert -------------------------------------------------------------

def g_insert(g, t):
    k = g_index(g, "gk", t.n)
    ty = g.choose([GapType.Before, GapType.After], "side")
    m = g.choose([1, 2, 0], "n_ins")
    stmts = [leaf(f"new{j}") for j in range(m)]
    gap = IC.Gap(t.root, IC.Node(t.root, t.ppath + [(t.attr, k)]), ty)
    return Edit(k=k, ty=ty, stmts=stmts, gap=gap, no_padding=True)


def do_insert(R, fn, a):
    return R.call(fn, a.ed.gap, a.ed.stmts)


def exp_insert(a):
    t, ed = a.t, a.ed
    out = []
    for k in range(t.n):
        r = k if ed.ty is GapType.Before else k + 1
        nl = _models(t.OL[:r]) + _models(ed.stmts) + _models(t.OL[r:])
        out.append((ed.k == k, model_with(t.root, t.ppath, t.attr, nl)))
    return out


edit_contract("Gap._insert", g_insert, do_insert, exp_insert, min_n=1)


# ---- Block._replace ----------------------------------------------------------

def _edit_block(g, t, nonempty):
    lo, hi = g_subrange(g, "ed", t.n, nonempty=nonempty)
    blk = IC.Block(t.root, IC.Node(t.root, list(t.ppath)), t.attr, mk_range(g, lo, hi))
    return lo, hi, blk


def g_replace(g, t):
    lo, hi, blk = _edit_block(g, t, nonempty=False)
    m = g.choose([1, 2, 0], "n_ins")
    return Edit(lo=lo, hi=hi, blk=blk, nodes=[leaf(f"new{j}") for j in range(m)])


def do_replace(R, fn, a):
    return R.call(fn, a.ed.blk, a.ed.nodes)


def _exp_range_edit(a, mk):
    t, ed = a.t, a.ed
    out = []
    for lo in range(t.n + 1):
        for hi in range(lo, t.n + 1):
            nl = mk(lo, hi)
            if nl is None:
                continue
            out.append((And(ed.lo == lo, ed.hi == hi), model_with(t.root, t.ppath, t.attr, nl)))
    return out


def exp_replace(a):
    t, ed = a.t, a.ed
    return _exp_range_edit(a, lambda lo, hi: _models(t.OL[:lo]) + _models(ed.nodes) + _models(t.OL[hi:]))


edit_contract("Block._replace", g_replace, do_replace, exp_replace)


# ---- Block._delete -----------------------------------------------------------

def g_delete(g, t):
    lo, hi, blk = _edit_block(g, t, nonempty=True)
    return Edit(lo=lo, hi=hi, blk=blk)


def do_delete(R, fn, a):
    return R.call(fn, a.ed.blk)


def exp_delete(a):
    t = a.t
    PASS = ("Pass", ())

    def mk(lo, hi):
        if lo == hi:
            return None
        return (_models(t.OL[:lo]) + _models(t.OL[hi:])) or [PASS]
    return _exp_range_edit(a, mk)


edit_contract("Block._delete", g_delete, do_delete, exp_delete, min_n=1)


# ---- Block._wrap -------------------------------------------------------------

def g_wrap(g, t):
    lo, hi, blk = _edit_block(g, t, nonempty=True)
    kind = g.choose(["for.body", "if.body", "if.orelse"], "wrapper")
    wsym = Sym("W")
    wsrc = SrcInfo("if_W", 0)
    if kind == "for.body":
        wtag = wsym
        ctor = lambda body: LoopIR.For(wsym, LoopIR.Const(0, T.int, SRC), LoopIR.Const(8, T.int, SRC),
                                       body, LoopIR.Seq(), SRC)
    elif kind == "if.body":
        wtag = wsrc
        ctor = lambda body: LoopIR.If(LoopIR.Read(wsym, [], T.bool, SRC), body, [], wsrc)
    else:
        wtag = wsrc
        ctor = lambda orelse: LoopIR.If(LoopIR.Read(wsym, [], T.bool, SRC), [LoopIR.Pass(SRC)], orelse, wsrc)
    return Edit(lo=lo, hi=hi, blk=blk, ctor=ctor, wrap_attr=kind.split(".")[1], wtag=wtag, wkind=kind)


def do_wrap(R, fn, a):
    return R.call(fn, a.ed.blk, a.ed.ctor, a.ed.wrap_attr)


def exp_wrap(a):
    t, ed = a.t, a.ed

    def mk(lo, hi):
        if lo == hi:
            return None
        inner = tuple(_models(t.OL[lo:hi]))
        if ed.wkind == "for.body":
            w = (id(ed.wtag), (("body", inner),))
        elif ed.wkind == "if.body":
            w = (id(ed.wtag), (("body", inner), ("orelse", ())))
        else:
            w = (id(ed.wtag), (("body", (("Pass", ()),)), ("orelse", inner)))
        return _models(t.OL[:lo]) + [w] + _models(t.OL[hi:])
    return _exp_range_edit(a, mk)


edit_contract("Block._wrap", g_wrap, do_wrap, exp_wrap, min_n=1)


# ---- Block._move -------------------------------------------------------------
# Reference semantics (from the docstrings of _move/_delete/_insert): the block
# is deleted from its list (an emptied list gets a `Pass`), then inserted at
# the target gap; a gap inside the moved block itself stands for the gap
# before the block.  Precondition (call sites: reorder_stmts, lift/sink,
# fission, ...): the target gap is not *inside* one of the moved statements.

MOVE_SHAPES = [("ifbody", 2, None), ("ifbody", 3, 1), ("root", 3, None), ("deep", 2, None)]


def g_move(g, t):
    lo, hi, blk = _edit_block(g, t, nonempty=True)
    tb = [(p, a2, l) for p, a2, l in all_blocks(t.root) if len(l) >= 1]
    p, a2, l = g.choose(tb, "target list")
    k = g_index(g, "gk", len(l))
    ty = g.choose([GapType.Before, GapType.After], "side")
    if ty is GapType.After:                 # After(k) == Before(k+1) as an insertion point
        if g.concrete:
            k = len(l) - 1
        else:
            g.assume(k == len(l) - 1)
    # precondition (all 21 call sites in LoopIR_scheduling.py): the gap is anchored
    # neither at a moved statement nor inside one
    if l is t.OL:
        g.assume(Not(And(lo <= k, k < hi)))
    if len(p) > len(t.ppath) and p[:len(t.ppath)] == t.ppath and p[len(t.ppath)][0] == t.attr:
        q = p[len(t.ppath)][1]
        g.assume(Not(And(lo <= q, q < hi)))
    gap = IC.Gap(t.root, IC.Node(t.root, list(p) + [(a2, k)]), ty)
    return Edit(lo=lo, hi=hi, blk=blk, gap=gap, tpath=list(p), tattr=a2, tlist=l, k=k, ty=ty,
                rebuilt=t.ancestors() + t.ancestors(list(p)), moves=True, no_padding=True)


def do_move(R, fn, a):
    return R.call(fn, a.ed.blk, a.ed.gap)


def _mtree(n):
    tg = tag(n) if not isinstance(n, LoopIR.proc) else None
    return [id(tg) if tg is not None else type(n).__name__,
            [(a2, [_mtree(x) for x in l]) for a2, l in stmt_lists(n)]]


def _freeze(m):
    return (m[0], tuple((a2, tuple(_freeze(x) for x in l)) for a2, l in m[1]))


def _mlist(m, path, attr):
    for a2, i in path:
        m = dict(m[1])[a2][i]
    return dict(m[1])[attr]


def _find_list_of(m, key):
    """the list (and index) that contains the node with this key"""
    for a2, l in m[1]:
        for i, x in enumerate(l):
            if x[0] == key:
                return l, i
            r = _find_list_of(x, key)
            if r is not None:
                return r
    return None


def exp_move(a):
    t, ed = a.t, a.ed
    out = []
    for lo in range(t.n):
        for hi in range(lo + 1, t.n + 1):
            for k in range(len(ed.tlist)):
                m = _mtree(t.root)
                src = _mlist(m, t.ppath, t.attr)
                moved = src[lo:hi]
                anchor_key = id(tag(ed.tlist[k]))
                self_target = ed.tlist is t.OL and lo <= k < hi
                if self_target:
                    continue                # excluded by the precondition
                del src[lo:hi]
                if not src:
                    src.append(["Pass", []])
                if self_target:
                    src[lo:lo] = moved
                else:
                    r = _find_list_of(m, anchor_key)
                    if r is None:
                        continue            # excluded by the precondition
                    l, i = r
                    at = i if ed.ty is GapType.Before else i + 1
                    l[at:at] = moved
                out.append((And(ed.lo == lo, ed.hi == hi, ed.k == k), _freeze(m)))
    return out


edit_contract("Block._move", g_move, do_move, exp_move, min_n=1, shapes=MOVE_SHAPES,
              block_strict=False, split_else_blocks=True, block_precision=False)


# ---- Node._replace (non-list attribute of a statement) ------------------------
# Call sites (LoopIR_scheduling.py): `c._child_node("hi"|"lo"|"cond"|"rhs"|"iter"|
# "type"|...)._replace(e)`.  Statement cursors in blocks are always routed to
# Block._replace (`_replace_helper` wraps the replacement in a list).  The
# statement that owns the attribute is rebuilt (same statement, one field new).

def g_nrepl(g, t):
    opts = []
    if t.level != "root":
        opts.append("parent")
    if t.q is not None:
        opts.append("child")
    if t.q is None and t.n >= 1:
        opts.append("leaf")
    which = g.choose(opts, "owner")
    if which == "parent":
        spath = list(t.ppath)
        owner = t.parent
    elif which == "child":
        spath = t.ppath + [(t.attr, t.q)]
        owner = t.OL[t.q]
    else:
        spath = t.ppath + [(t.attr, g_index(g, "si", t.n))]
        owner = None
    if owner is None:
        attr, new = "rhs", LoopIR.Const(1.0, T.f32, SRC)
    elif isinstance(owner, LoopIR.For):
        attr, new = "hi", LoopIR.Const(7, T.int, SRC)
    else:
        attr, new = "cond", LoopIR.Read(Sym("nc"), [], T.bool, SRC)
    cur = IC.Node(t.root, spath + [(attr, None)])
    g.ghost["extra_probes"] = [("expr_self", IC.Node(t.root, spath + [(attr, None)]))]
    rebuilt = t.ancestors(spath[:-1] if which == "leaf" else spath)
    if which == "leaf":
        rebuilt = rebuilt + list(t.OL)
    return Edit(which=which, spath=spath, attr=attr, new=new, target=cur, rebuilt=rebuilt)


def do_nrepl(R, fn, a):
    return R.call(fn, a.ed.target, a.ed.new)


def exp_nrepl(a):
    return [(True, model(a.t.root))]


_cnr = edit_contract("Node._replace", g_nrepl, do_nrepl, exp_nrepl)


@_cnr.ensures("the attribute is replaced in the owning statement, which keeps its identity")
def _(a):
    r = a.result
    if r.edit_exc is not None:
        return True
    ok0, olds = resolve_g(a.t.root, a.ed.spath)
    ok, news = resolve_g(r.new_root, a.ed.spath)
    conds = [ok0, ok]
    for go, so in olds:
        for gn, sn in news:
            conds.append(Implies(And(go, gn), And(tag(sn) is tag(so), type(sn) is type(so),
                                                  getattr(sn, a.ed.attr) is a.ed.new)))
    return And(conds)


@_cnr.ensures("a cursor to the replaced attribute is forwarded to the new value")
def _(a):
    r = a.result
    if r.edit_exc is not None:
        return True
    conds = []
    for kind, cur, out, exc in r.results:
        if kind != "expr_self":
            continue
        if exc is not None or not isinstance(out, IC.Node) or out._root is not r.new_root:
            return False
        ok, cands = resolve_g(r.new_root, out._path)
        conds.append(ok)
        conds += [Implies(gd, n is a.ed.new) for gd, n in cands]
    return And(conds)


# ---- forward_identity (rename / make_instr: same tree under a new root) ----------
# Node and Gap cursors keep their location; Block cursors are reported invalid
# ("cannot forward blocks") - conservative, allowed by the property.

def g_ident(g, t):
    return Edit(new_root=t.root.update(name="renamed"), rebuilt=[])


def do_ident(R, fn, a):
    fwd, exc = R.call(fn, a.ed.new_root)
    return ((a.ed.new_root, fwd), None) if exc is None else (None, exc)


edit_contract("forward_identity", g_ident, do_ident, lambda a: [(True, model(a.t.root))],
              shapes=[("ifbody", 2, None), ("ifbody", 3, 1), ("root", 2, None), ("deep", 2, None)],
              block_precision=False,
              check_foreign=False)      # re-roots whatever it is given; Procedure.forward never hands it a foreign cursor


# ============================================================================
# Layer U : the index arithmetic, for all positions and lengths
# ============================================================================
# Old child list L, inserted elements N (uninterpreted), new list by Python's
# list concatenation.  `sel3(j, r, m, shift)` is the element at index j of
# L[:r] + N[0:m] + L[r+shift:].

_Lf = z3.Function("L_old", z3.IntSort(), z3.IntSort())
_Nf = z3.Function("N_new", z3.IntSort(), z3.IntSort())


def _L(g, x):
    if g.concrete:
        return 1000 + x
    return S.mk(_Lf(S.lift(x)))


def _N(g, x):
    if g.concrete:
        return -1000 - x
    return S.mk(_Nf(S.lift(x)))


def cat3(g, j, r, m, dropped):
    """(L[:r] + N[:m] + L[r+dropped:])[j]"""
    return Ite(j < r, _L(g, j), Ite(j < r + m, _N(g, j - r), _L(g, j - m + dropped)))


class Dummy:
    """a root that is never dereferenced"""
    def __init__(self, name):
        self.name = name

    def __repr__(self):
        return f"<root {self.name}>"


def _closure_of(fwd, name):
    cells = dict(zip(fwd.__code__.co_freevars, fwd.__closure__ or ()))
    return cells[name].cell_contents


def _one(res, attr):
    """result is [(attr, x)] -> x, else None"""
    if isinstance(res, list) and len(res) == 1 and isinstance(res[0], tuple) and len(res[0]) == 2 \
            and res[0][0] == attr:
        return res[0][1]
    return None


def _is_range(r):
    return isinstance(r, (range, SRange))


def closure_contract(outer, inner, g_outer, g_args, native_outer):
    c = contract("C06", F, f"{outer}.{inner}")
    c.rlimit = RLIMIT
    c.outer_inputs = g_outer
    c.inputs(g_args)

    def native(g, fn, a):
        o = g.ghost["outer"]
        fwd = native_outer(o)
        f = _closure_of(fwd, inner)
        second = a.i if inner == "fwd_node" else (a.rng if hasattr(a, "rng") else a.blk_rng)
        return f(a.attr, second)
    c.native_entry = native
    return c


# ---- insert -------------------------------------------------------------------

def _o_insert(g):
    k = g.nat("k")
    ty = g.choose([GapType.Before, GapType.After], "side")
    m = g.nat("m")
    root = Dummy("old")
    gap = IC.Gap(root, IC.Node(root, [("body", k)]), ty)
    g.ghost.update(k=k, ty=ty, m=m, r=(k if ty is GapType.Before else k + 1))
    return {"self": gap, "new_root": Dummy("new"), "ins_len": m}


def _native_insert(o):
    return IC.Gap._forward_insert(o.self, o.new_root, o.ins_len)


ci_n = closure_contract("Gap._forward_insert", "fwd_node", _o_insert,
                        lambda g: {"attr": "body", "i": g.nat("i")}, _native_insert)


@ci_n.ensures("the element at the returned index of L[:r] + N + L[r:] is L[i]")
def _(a):
    gh = a.g.ghost
    j = _one(a.result, a.attr)
    if j is None:
        return False
    return And(j >= 0, cat3(a.g, j, gh["r"], gh["m"], 0) == _L(a.g, a.i))


def g_block_arg(g, pname="rng"):
    lo = g.nat("a")
    hi = g_above(g, "b", lo)
    e = g.int("e")          # an arbitrary old index   (universally quantified)
    j = g.int("j")          # an arbitrary new index   (universally quantified)
    return {"attr": "body", pname: mk_range(g, lo, hi), "__ghost__": {"e": e, "j": j}}


ci_b = closure_contract("Gap._forward_insert", "fwd_block", _o_insert, g_block_arg, _native_insert)


@ci_b.ensures("the forwarded range holds exactly the old members of the block (plus inserted statements inside it)")
def _(a):
    gh, g = a.g.ghost, a.g
    nr = _one(a.result, a.attr)
    if nr is None or not _is_range(nr):
        return False
    r, m = gh["r"], gh["m"]
    e, j = a.ghost.e, a.ghost.j
    pos = Ite(e < r, e, e + m)
    S.cut(Implies(e >= 0, cat3(g, pos, r, m, 0) == _L(g, e)), "position of L[e] in the new list")
    inv = Ite(j < r, j, j - m)
    S.cut(Implies(And(j >= 0, Not(And(r <= j, j < r + m))), cat3(g, j, r, m, 0) == _L(g, inv)),
          "origin of a non-inserted element of the new list")
    isnew = lambda x: And(r <= x, x < r + m)
    return And(0 <= nr.start, nr.start < nr.stop,
               Implies(in_rng(a.rng, e), in_rng(nr, pos)),                       # nothing lost
               Implies(And(in_rng(nr, j), Not(isnew(j))), in_rng(a.rng, inv)),   # nothing foreign
               Not(isnew(nr.start)), Not(isnew(nr.stop - 1)))                    # not padded with inserted statements


# ---- replace ------------------------------------------------------------------

def _o_replace(g):
    lo = g.nat("lo")
    hi = g_above(g, "hi", lo, strict=False)
    m = g.nat("m")
    root = Dummy("old")
    blk = IC.Block(root, IC.Node(root, []), "body", mk_range(g, lo, hi))
    g.ghost.update(lo=lo, hi=hi, m=m)
    return {"self": blk, "new_proc": Dummy("new"), "n_ins": m}


def _native_replace(o):
    return IC.Block._forward_replace(o.self, o.new_proc, o.n_ins)


cr_n = closure_contract("Block._forward_replace", "fwd_node", _o_replace,
                        lambda g: {"attr": "body", "i": g.nat("i")}, _native_replace)
cr_n.raises(InvalidCursorError, when=lambda a: And(a.g.ghost["lo"] <= a.i, a.i < a.g.ghost["hi"]),
            label="InvalidCursorError only for an index in the replaced range")


@cr_n.ensures("a kept element: the element at the returned index of L[:lo] + N + L[hi:] is L[i]")
def _(a):
    gh = a.g.ghost
    j = _one(a.result, a.attr)
    if j is None:
        return False
    lo, hi, m = gh["lo"], gh["hi"], gh["m"]
    return And(Not(And(lo <= a.i, a.i < hi)), j >= 0, cat3(a.g, j, lo, m, hi - lo) == _L(a.g, a.i))


cr_b = closure_contract("Block._forward_replace", "fwd_block", _o_replace, g_block_arg, _native_replace)
cr_b.raises(InvalidCursorError,
            when=lambda a: And(a.rng.start < a.g.ghost["hi"], a.g.ghost["lo"] < a.rng.stop),
            label="InvalidCursorError only for a block that meets the replaced range")


@cr_b.ensures("the forwarded range holds exactly the kept members of the block (plus replacement statements)")
def _(a):
    gh, g = a.g.ghost, a.g
    nr = _one(a.result, a.attr)
    if nr is None or not _is_range(nr):
        return False
    lo, hi, m = gh["lo"], gh["hi"], gh["m"]
    d = hi - lo
    e, j = a.ghost.e, a.ghost.j
    kept = Not(And(lo <= e, e < hi))
    pos = Ite(e < lo, e, e + m - d)
    S.cut(Implies(And(e >= 0, kept), cat3(g, pos, lo, m, d) == _L(g, e)), "position of a kept L[e] in the new list")
    isnew = And(lo <= j, j < lo + m)
    inv = Ite(j < lo, j, j - m + d)
    S.cut(Implies(And(j >= 0, Not(isnew)), cat3(g, j, lo, m, d) == _L(g, inv)),
          "origin of a non-replacement element of the new list")
    return And(0 <= nr.start, nr.start <= nr.stop,
               Implies(And(in_rng(a.rng, e), kept), in_rng(nr, pos)),
               Implies(And(in_rng(nr, j), Not(isnew)), And(in_rng(a.rng, inv), Not(And(lo <= inv, inv < hi)))))


# ---- wrap ----------------------------------------------------------------------
# new outer list  L[:lo] + [W] + L[hi:],  W.<wrap_attr> = L[lo:hi]

def _o_wrap(g):
    lo = g.nat("lo")
    hi = g_above(g, "hi", lo)
    root = Dummy("old")
    blk = IC.Block(root, IC.Node(root, []), "body", mk_range(g, lo, hi))
    g.ghost.update(lo=lo, hi=hi)
    return {"self": blk, "p": Dummy("new"), "wrap_attr": "orelse"}


def _native_wrap(o):
    return IC.Block._forward_wrap(o.self, o.p, o.wrap_attr)


def _outer_pos(e, lo, hi):
    return Ite(e < lo, e, e - (hi - lo) + 1)


cw_n = closure_contract("Block._forward_wrap", "fwd_node", _o_wrap,
                        lambda g: {"attr": "body", "i": g.nat("i")}, _native_wrap)


@cw_n.ensures("a wrapped element is reached through the wrapper at index lo, the others at their index of L[:lo] + [W] + L[hi:]")
def _(a):
    gh, g = a.g.ghost, a.g
    lo, hi = gh["lo"], gh["hi"]
    res, i = a.result, a.i
    if not isinstance(res, list) or not all(isinstance(x, tuple) and len(x) == 2 for x in res):
        return False
    inside = And(lo <= i, i < hi)
    if len(res) == 1 and res[0][0] == a.attr:
        j = res[0][1]
        # element j of the outer list (j != lo) is L[j] before the wrapper, L[j + (hi-lo) - 1] after it
        el = Ite(j < lo, _L(g, j), _L(g, j + (hi - lo) - 1))
        return And(Not(inside), j >= 0, j != lo, el == _L(g, i))
    if len(res) == 2 and res[0][0] == a.attr and res[1][0] == "orelse":
        jw, j2 = res[0][1], res[1][1]
        return And(inside, jw == lo, 0 <= j2, j2 < hi - lo, _L(g, lo + j2) == _L(g, i))
    return False


cw_b = closure_contract("Block._forward_wrap", "fwd_block", _o_wrap,
                        lambda g: g_block_arg(g, "blk_rng"), _native_wrap)
cw_b.raises(InvalidCursorError,
            when=lambda a: And(a.blk_rng.start < a.g.ghost["hi"], a.g.ghost["lo"] < a.blk_rng.stop,
                               Not(And(a.blk_rng.start <= a.g.ghost["lo"], a.g.ghost["hi"] <= a.blk_rng.stop)),
                               Not(And(a.g.ghost["lo"] <= a.blk_rng.start, a.blk_rng.stop <= a.g.ghost["hi"]))),
            label="InvalidCursorError only for a block that overlaps the wrapped range partially")


@cw_b.ensures("the forwarded block (in the outer list, or inside the wrapper at index lo) holds exactly the members of the block")
def _(a):
    gh, g = a.g.ghost, a.g
    lo, hi = gh["lo"], gh["hi"]
    res = a.result
    a.rng = a.blk_rng
    e, j = a.ghost.e, a.ghost.j
    if not isinstance(res, list) or not all(isinstance(x, tuple) and len(x) == 2 for x in res):
        return False
    wrapped_e = And(lo <= e, e < hi)
    if len(res) == 1 and res[0][0] == a.attr and _is_range(res[0][1]):
        nr = res[0][1]
        inv = Ite(j < lo, j, j + (hi - lo) - 1)
        return And(0 <= nr.start, nr.start < nr.stop,
                   # nothing lost: a member outside the wrapped range at its new index, a wrapped member via W
                   Implies(And(in_rng(a.rng, e), Not(wrapped_e)), in_rng(nr, _outer_pos(e, lo, hi))),
                   Implies(And(in_rng(a.rng, e), wrapped_e), in_rng(nr, lo)),
                   # nothing foreign: W only if everything wrapped was in the block
                   Implies(in_rng(nr, lo), And(a.rng.start <= lo, hi <= a.rng.stop)),
                   Implies(And(in_rng(nr, j), j != lo), in_rng(a.rng, inv)))
    if len(res) == 2 and res[0][0] == a.attr and res[1][0] == "orelse" and _is_range(res[1][1]):
        jw, nr = res[0][1], res[1][1]
        return And(jw == lo, 0 <= nr.start, nr.start < nr.stop, nr.stop <= hi - lo,
                   Implies(in_rng(a.rng, e), And(wrapped_e, in_rng(nr, e - lo))),
                   Implies(in_rng(nr, j), in_rng(a.rng, lo + j)))
    return False


# ---- range predicates, _starts_with, Gap._insertion_index -----------------------

def g_any_range(g, name):
    lo = g.int(name + "0")
    hi = g_above(g, name + "1", lo, strict=False)
    return mk_range(g, lo, hi)


def _rlen(r):
    return r.stop - r.start          # ranges are generated with start <= stop


c_sub = contract("C06", F, "_is_sub_range")
c_sub.rlimit = RLIMIT


@c_sub.inputs
def _(g):
    return {"a": g_any_range(g, "a"), "b": g_any_range(g, "b"), "__ghost__": {"k": g.int("k")}}


@c_sub.ensures("True only if every index of a is an index of b")
def _(a):
    return Implies(a.result, Implies(in_rng(a.a, a.ghost.k), in_rng(a.b, a.ghost.k)))


@c_sub.ensures("True only if a is strictly smaller than b")
def _(a):
    return Implies(a.result, _rlen(a.a) < _rlen(a.b))


@c_sub.ensures("True for every non-empty a that lies inside a larger b")
def _(a):
    return Implies(And(_rlen(a.a) > 0, a.b.start <= a.a.start, a.a.stop <= a.b.stop,
                       _rlen(a.a) < _rlen(a.b)), a.result)


c_ip = contract("C06", F, "_intersects_partially")
c_ip.rlimit = RLIMIT


@c_ip.inputs
def _(g):
    return {"a": g_any_range(g, "a"), "b": g_any_range(g, "b"),
            "__ghost__": {"x": g.int("x"), "y": g.int("y"), "z": g.int("z")}}


@c_ip.ensures("True only if the ranges share an index and each has an index the other lacks")
def _(a):
    A, B = a.a, a.b
    def both(k): return And(in_rng(A, k), in_rng(B, k))
    def onlyA(k): return And(in_rng(A, k), Not(in_rng(B, k)))
    def onlyB(k): return And(in_rng(B, k), Not(in_rng(A, k)))
    return Implies(a.result, And(Or(both(A.start), both(B.start)),
                                 Or(onlyA(A.start), onlyA(A.stop - 1)),
                                 Or(onlyB(B.start), onlyB(B.stop - 1))))


@c_ip.ensures("True whenever the ranges share an index and each has an index the other lacks")
def _(a):
    A, B = a.a, a.b
    x, y, z = a.ghost.x, a.ghost.y, a.ghost.z
    return Implies(And(in_rng(A, x), in_rng(B, x), in_rng(A, y), Not(in_rng(B, y)),
                       in_rng(B, z), Not(in_rng(A, z))), a.result)


c_sw = contract("C06", F, "_starts_with")
c_sw.rlimit = RLIMIT


def _g_path(g, name, n):
    return [(g.choose(["body", "orelse"], f"{name}a{i}"), g.int(f"{name}i{i}")) for i in range(n)]


@c_sw.inputs
def _(g):
    la = g.choose([0, 1, 2, 3], "len a")
    lb = g.choose([0, 1, 2, 3], "len b")
    return {"a": _g_path(g, "a", la), "b": _g_path(g, "b", lb)}


@c_sw.ensures("True exactly when b is a prefix of a")
def _(a):
    pre = len(a.b) <= len(a.a) and path_eq(a.a[:len(a.b)], a.b)
    return a.result == pre if isinstance(pre, bool) and isinstance(a.result, bool) else \
        And(Implies(a.result, pre), Implies(pre, a.result))


c_ii = contract("C06", F, "Gap._insertion_index")
c_ii.rlimit = RLIMIT


@c_ii.inputs
def _(g):
    k = g.nat("k")
    ty = g.choose([GapType.Before, GapType.After], "side")
    root = Dummy("r")
    return {"self": IC.Gap(root, IC.Node(root, [("body", 0), ("orelse", k)]), ty)}


@c_ii.ensures("statements inserted at the returned index land immediately before / after the anchor")
def _(a):
    k = a.self._anchor._path[-1][1]
    return a.result == (k if a.self._type is GapType.Before else k + 1)


# ---- Cursor._local_forward.forward ----------------------------------------------
# fwd_node / fwd_block are abstract here (stubs returning arbitrary edges): the
# contract is about the plumbing - which cursors are rewritten, where the new
# edges are spliced in, what is left alone, roots, gaps, blocks, foreign roots.

def _other(attr):
    return "orelse" if attr == "body" else "body"


def _o_local(g):
    d = g.choose([0, 1, 2], "depth")
    root, new_root = Dummy("old"), Dummy("new")
    edit_path = [(("body", "orelse")[j % 2], g.nat(f"ei{j}")) for j in range(d)]
    attr = g.choose(["body", "orelse"], "attr")
    kind = g.choose(["node", "gap", "block"], "self")
    ckind = g.choose(["node", "gap", "block_scope", "block_else", "foreign"], "cursor kind")
    k = g.nat("k")
    nd = IC.Node(root, edit_path + [(attr, k)])
    if kind == "node":
        me = nd
    elif kind == "gap":
        me = IC.Gap(root, nd, GapType.After)
    else:
        me = IC.Block(root, IC.Node(root, list(edit_path)), attr, mk_range(g, k, k + g.pos("len")))
    # the stub that the chosen kind of cursor can reach is varied, the other is fixed
    nb = g.choose(["one", "two", "raise"], "fwd_node") if ckind in ("node", "gap", "block_else") else "one"
    bb = g.choose(["one", "two", "raise"], "fwd_block") if ckind == "block_scope" else "one"
    calls = []
    node_res = [(attr, g.nat("fn0"))] + ([("body", g.nat("fn1"))] if nb == "two" else [])
    b0 = g.nat("fb0")
    blk_rng = mk_range(g, b0, b0 + g.pos("fblen"))
    blk_res = ([(attr, g.nat("fbw")), ("orelse", blk_rng)] if bb == "two" else [(attr, blk_rng)])

    def fwd_node(at, i):
        calls.append(("node", at, i))
        if nb == "raise":
            raise InvalidCursorError("node no longer exists")
        return list(node_res)

    def fwd_block(at, rng):
        calls.append(("block", at, rng))
        if bb == "raise":
            raise InvalidCursorError("block no longer exists")
        return list(blk_res)

    g.ghost.update(d=d, root=root, new_root=new_root, edit_path=edit_path, attr=attr, nb=nb, bb=bb, kind=ckind,
                   calls=calls, node_res=node_res, blk_res=blk_res)
    return {"self": me, "new_root": new_root, "fwd_node": fwd_node, "fwd_block": fwd_block}


def _g_node_path(g, gh, variant, name="c"):
    d, ep, attr = gh["d"], gh["edit_path"], gh["attr"]
    fresh = lambda j: g.nat(f"{name}i{j}")
    if variant == "shallow":
        n = g.choose(list(range(d + 1)), "shallow len")
        return [(ep[j][0], fresh(j)) for j in range(n)]
    base = [(ep[j][0], fresh(j)) for j in range(d)]
    if variant == "through":
        return base + [(attr, fresh(d))]
    if variant == "through_deep":
        return base + [(attr, fresh(d)), ("body", fresh(d + 1))]
    if variant == "other_attr":
        return base + [(_other(attr), fresh(d)), ("body", fresh(d + 1))]
    if variant == "diverge":      # needs d >= 1: a different attribute high up
        return [(_other(ep[0][0]), fresh(0))] + base[1:] + [(attr, fresh(d))]
    raise AssertionError(variant)


def _g_local_cursor(g):
    gh = g.ghost
    root = gh["root"]
    variants = ["shallow", "through", "through_deep", "other_attr"] + (["diverge"] if gh["d"] >= 1 else [])
    kind = gh["kind"]
    if kind == "foreign":
        cur = IC.Node(Dummy("foreign"), [("body", g.nat("ci0"))])
    elif kind == "node":
        cur = IC.Node(root, _g_node_path(g, gh, g.choose(variants, "variant")))
    elif kind == "gap":
        v = g.choose([x for x in variants if x != "shallow"], "variant")
        cur = IC.Gap(root, IC.Node(root, _g_node_path(g, gh, v)), g.choose([GapType.Before, GapType.After], "side"))
    elif kind == "block_scope":
        # anchored at a node with the attributes of the edit path (same node iff same indices)
        ap = [(gh["edit_path"][j][0], g.nat(f"ci{j}")) for j in range(gh["d"])]
        at = g.choose(["body", "orelse"], "block attr")
        lo = g.nat("cb")
        cur = IC.Block(root, IC.Node(root, ap), at, mk_range(g, lo, lo + g.pos("cblen")))
    else:
        v = g.choose([x for x in variants if x != "shallow"], "variant")
        lo = g.nat("cb")
        cur = IC.Block(root, IC.Node(root, _g_node_path(g, gh, v)), "body", mk_range(g, lo, lo + g.pos("cblen")))
    return {"cursor": cur}


c_lf = contract("C06", F, "Cursor._local_forward.forward")
c_lf.rlimit = RLIMIT
c_lf.outer_inputs = _o_local
c_lf.inputs(_g_local_cursor)


def _native_local(g, fn, a):
    o = g.ghost["outer"]
    return IC.Cursor._local_forward(o.self, o.new_root, o.fwd_node, o.fwd_block)(a.cursor)


c_lf.native_entry = _native_local


def _through(gh, path):
    """the node path runs through the edited list"""
    d = gh["d"]
    if len(path) < d + 1:
        return False
    return And(path_eq(path[:d], gh["edit_path"]), path[d][0] == gh["attr"])


def _exp_node(gh, cur, out):
    """out is the expected image of Node cursor `cur` (term), given that no stub raised"""
    if not isinstance(out, IC.Node) or out._root is not gh["new_root"]:
        return False
    d, path = gh["d"], cur._path
    thr = _through(gh, path)
    same = path_eq(out._path, path)
    if thr is False:
        return same
    spliced = path_eq(out._path, path[:d] + gh["node_res"] + path[d + 1:])
    return And(Implies(thr, spliced), Implies(Not(thr), same))


def _node_raises(gh, cur):
    return And(_through(gh, cur._path), gh["nb"] == "raise")


def _in_scope(gh, cur):
    return And(path_eq(cur._anchor._path, gh["edit_path"]), cur._attr == gh["attr"])


def _local_raise_ok(a):
    gh, cur = a.g.ghost, a.cursor
    if cur._root is not gh["root"]:
        return True
    if isinstance(cur, IC.Node):
        return _node_raises(gh, cur)
    if isinstance(cur, IC.Gap):
        return _node_raises(gh, cur._anchor)
    sc = _in_scope(gh, cur)
    return Or(And(sc, gh["bb"] == "raise"), And(Not(sc), _node_raises(gh, cur._anchor)))


c_lf.raises(InvalidCursorError, when=_local_raise_ok,
            label="InvalidCursorError only for a foreign root or when the edit reports the target gone")


@c_lf.ensures("a cursor of another root is never forwarded")
def _(a):
    return a.cursor._root is a.g.ghost["root"]


@c_lf.ensures("no result when the edit reports the target gone")
def _(a):
    return Not(_local_raise_ok(a)) if a.cursor._root is a.g.ghost["root"] else True


@c_lf.ensures("node cursor: only the edge at the edit depth is rewritten, and only on paths through the edited list")
def _(a):
    gh, cur = a.g.ghost, a.cursor
    if not isinstance(cur, IC.Node) or cur._root is not gh["root"]:
        return True
    return _exp_node(gh, cur, a.result)


@c_lf.ensures("gap cursor: same side, anchor forwarded")
def _(a):
    gh, cur, out = a.g.ghost, a.cursor, a.result
    if not isinstance(cur, IC.Gap):
        return True
    return And(isinstance(out, IC.Gap), out._root is gh["new_root"], out._type is cur._type,
               _exp_node(gh, cur._anchor, out._anchor))


@c_lf.ensures("block cursor: in the edited list it takes the edges of fwd_block, elsewhere it follows its anchor")
def _(a):
    gh, cur, out = a.g.ghost, a.cursor, a.result
    if not isinstance(cur, IC.Block):
        return True
    if not isinstance(out, IC.Block) or out._root is not gh["new_root"] or out._anchor._root is not gh["new_root"]:
        return False
    sc = _in_scope(gh, cur)
    br = gh["blk_res"]
    scoped = And(path_eq(out._anchor._path, cur._anchor._path + br[:-1]), out._attr == br[-1][0],
                 range_eq(out._range, br[-1][1]))
    other = And(_exp_node(gh, cur._anchor, out._anchor), out._attr == cur._attr, range_eq(out._range, cur._range))
    return And(Implies(sc, scoped), Implies(Not(sc), other))


@c_lf.ensures("the edit's functions are consulted with the index at the edit depth")
def _(a):
    gh, cur = a.g.ghost, a.cursor
    calls = gh["calls"]
    if len(calls) == 0:
        return True
    if len(calls) != 1:
        return False
    what, at, arg = calls[0]
    if what == "node":
        nd = cur if isinstance(cur, IC.Node) else cur._anchor
        return And(at == gh["attr"], len(nd._path) > gh["d"], arg == nd._path[gh["d"]][1]) \
            if len(nd._path) > gh["d"] else False
    return And(isinstance(cur, IC.Block), at == gh["attr"], range_eq(arg, cur._range))


# ============================================================================
# composition, Procedure.forward, CursorArgumentProcessor
# ============================================================================
from exo import API as _API
from exo import API_cursors as _PC
from exo import API_scheduling as _AS

F_LS = "src/exo/rewrite/LoopIR_scheduling.py"
F_API = "src/exo/API.py"
F_AS = "src/exo/API_scheduling.py"

c_cmp = contract("C06", F_LS, "_compose")
c_cmp.rlimit = RLIMIT


@c_cmp.inputs
def _(g):
    log = []
    x = g.int("x")

    def f(v):
        log.append("f")
        return ("f", v)

    def gg(v):
        log.append("g")
        return ("g", v)
    return {"ff": f, "gf": gg, "__ghost__": {"log": log, "x": x}}   # (`a.g` is the generator handle)


def _drive_compose(R, fn, a):
    h, exc = R.call(fn, a.ff, a.gf)
    if exc is not None:
        return Outcome(None, exc)
    return Outcome(*R.call(h, a.ghost.x))


c_cmp.entry = lambda g, it, fn, a: _drive_compose(Runner(it), fn, a)
c_cmp.native_entry = lambda g, fn, a: _drive_compose(Runner(None), fn, a)


@c_cmp.ensures("_compose(f, g)(x) == f(g(x)): g is applied first, each exactly once")
def _(a):
    res, exc = a.result
    if exc is not None or a.ghost.log != ["g", "f"]:
        return False
    return And(res[0] == "f", res[1][0] == "g", res[1][1] == a.ghost.x)


class Chain(types.SimpleNamespace):
    """a provenance chain P0 <- P1 <- ... <- Pn of real Procedure objects whose
    forwarding functions log their application and insist on the right root"""
    def __str__(self):
        return f"Chain(n={self.n}, cursor in P{self.j if self.j is not None else '(unrelated)'})"


def g_chain(g, max_n=3):
    n = g.choose(list(range(max_n + 1)), "chain length")
    where = g.choose(list(range(n + 1)) + ["unrelated"], "cursor's procedure")
    irs = [mk_proc([leaf(f"s{i}a"), leaf(f"s{i}b")], name=f"p{i}") for i in range(n + 1)]
    log = []
    procs = []
    for i in range(n + 1):
        if i == 0:
            procs.append(_API.Procedure(irs[0]))
            continue

        def fwd(c, i=i):
            log.append(i)
            if c._root is not irs[i - 1]:
                raise InvalidCursorError("cannot forward from unknown root")
            return IC.Node(irs[i], list(c._path))
        procs.append(_API.Procedure(irs[i], _provenance_eq_Procedure=procs[i - 1], _forward=fwd))
    k = g_index(g, "k", 2)
    if where == "unrelated":
        oir = mk_proc([leaf("ua"), leaf("ub")], name="u")
        owner, oroot, j = _API.Procedure(oir), oir, None
    else:
        owner, oroot, j = procs[where], irs[where], where
    cur = _PC.AssignCursor(IC.Node(oroot, [("body", k)]), owner)
    return Chain(n=n, j=j, irs=irs, procs=procs, log=log, cur=cur, k=k)


c_pf = contract("C06", F_API, "Procedure.forward")
c_pf.rlimit = RLIMIT


@c_pf.inputs
def _(g):
    ch = g_chain(g)
    return {"self": ch.procs[-1], "cur": ch.cur, "__ghost__": {"ch": ch}}


c_pf.raises(NotImplementedError, when=lambda a: a.ghost.ch.j is None,
            label="an error only for a cursor of an unrelated procedure")
c_pf.raises(InvalidCursorError, when=lambda a: a.ghost.ch.j is None,
            label="an error only for a cursor of an unrelated procedure (invalid)")


@c_pf.ensures("an unrelated procedure's cursor is never forwarded")
def _(a):
    return a.ghost.ch.j is not None


@c_pf.ensures("the forwarding functions between the cursor's procedure and self are applied oldest first, "
              "each once (none when they are the same procedure)")
def _(a):
    ch = a.ghost.ch
    return ch.j is None or ch.log == list(range(ch.j + 1, ch.n + 1))


@c_pf.ensures("the result is a cursor of self at the forwarded location")
def _(a):
    ch, r = a.ghost.ch, a.result
    if ch.j is None:
        return True
    return And(isinstance(r, _PC.AssignCursor), r._proc is a.self, r._impl._root is ch.irs[-1],
               path_eq(r._impl._path, ch.cur._impl._path))


# a block all of whose statements the rewrite removed: several forwarding functions answer with an EMPTY block
# (DoDeletePass, the dead-code passes, Block._move for a block that only held moved statements).  At the API
# that must be "the target no longer exists", never a cursor and never another error.
c_pfb = contract("C06", F_API, "Procedure.forward", name=F_API + "::Procedure.forward [block that became empty]")
c_pfb.rlimit = RLIMIT


@c_pfb.inputs
def _(g):
    ir0 = mk_proc([leaf("a"), leaf("b"), leaf("c")], name="p0")
    ir1 = mk_proc([leaf("a1"), leaf("b1"), leaf("c1")], name="p1")
    lo, hi = g.choose([0, 1, 2, 3], "lo"), g.choose([0, 1, 2, 3], "hi")
    g.assume(lo <= hi)

    def fwd(c):
        return IC.Block(ir1, IC.Node(ir1, []), "body", range(lo, hi))
    p0 = _API.Procedure(ir0)
    p1 = _API.Procedure(ir1, _provenance_eq_Procedure=p0, _forward=fwd)
    cur = _PC.BlockCursor(IC.Block(ir0, IC.Node(ir0, []), "body", range(0, 2)), p0)
    return {"self": p1, "cur": cur, "__ghost__": {"lo": lo, "hi": hi, "ir1": ir1}}


c_pfb.raises(InvalidCursorError, when=lambda a: a.ghost.lo == a.ghost.hi,
             label="InvalidCursorError exactly when the forwarded block is empty")


@c_pfb.ensures("a non-empty forwarded block is returned as a block cursor of self; an empty one is never returned")
def _(a):
    r = a.result
    return And(a.ghost.lo < a.ghost.hi, isinstance(r, _PC.BlockCursor), r._proc is a.self,
               r._impl._root is a.ghost.ir1, r._impl._range.start == a.ghost.lo, r._impl._range.stop == a.ghost.hi)


class CapResult(types.SimpleNamespace):
    def __str__(self):
        return (f"explicit={[stable(e) if x is None else stable(x) for e, x in self.explicit]} "
                f"received={stable(self.seen)} exc={stable(self.exc)}")


class _RecordingArg(_AS.CursorArgumentProcessor):
    def __init__(self):
        self.seen = []

    def _cursor_call(self, cur, all_args):
        self.seen.append(cur)
        return cur


c_cap = contract("C06", F_AS, "CursorArgumentProcessor.__call__")
c_cap.rlimit = RLIMIT


@c_cap.inputs
def _(g):
    ch = g_chain(g, max_n=2)
    as_list = g.choose([False, True], "list argument")
    arg = [ch.cur, _PC.AssignCursor(IC.Node(ch.cur._impl._root, [("body", 1 - ch.k)]), ch.cur._proc)] \
        if as_list else ch.cur
    return {"self": _RecordingArg(), "cur": arg, "all_args": {"proc": ch.procs[-1]},
            "__ghost__": {"ch": ch, "as_list": as_list,
                          "orig": list(arg) if as_list else [arg]}}


def _drive_cap(R, fn, a):
    # explicit forwarding first (what the user would write), then the implicit one
    explicit = [R.call(_API.Procedure.forward, a.all_args["proc"], c) for c in a.ghost.orig]
    del a.ghost.ch.log[:]
    res, exc = R.call(fn, a.self, a.cur, a.all_args)
    return CapResult(explicit=explicit, res=res, exc=exc, seen=list(a.self.seen))


c_cap.entry = lambda g, it, fn, a: _drive_cap(Runner(it), fn, a)
c_cap.native_entry = lambda g, fn, a: _drive_cap(Runner(None), fn, a)


def _api_cursor_eq(c, d):
    return And(type(c) is type(d), c._proc is d._proc, cursor_eq(c._impl, d._impl))


@c_cap.ensures("the operation receives exactly what explicit forwarding yields (or the same error)")
def _(a):
    r, ch = a.result, a.ghost.ch
    if ch.j is None:
        return r.exc is not None and all(e is not None for _, e in r.explicit) and r.seen == []
    if r.exc is not None or any(e is not None for _, e in r.explicit):
        return False
    got = r.seen[0] if a.ghost.as_list else [r.seen[0]]
    if len(r.seen) != 1 or len(got) != len(r.explicit):
        return False
    return And([_api_cursor_eq(x, e) for x, (e, _) in zip(got, r.explicit)])


@c_cap.ensures("every cursor argument is forwarded to the operation's procedure before use")
def _(a):
    r, ch = a.result, a.ghost.ch
    if ch.j is None or r.exc is not None:
        return True
    got = r.seen[0] if a.ghost.as_list else [r.seen[0]]
    return all(x._proc is ch.procs[-1] and x._impl._root is ch.irs[-1] for x in got)



# ============================================================================
# self-test of the engine extension this property needed (pyvc/srange.py and
# the symbolic list slices of pyvc/interp.py): the symbolic range must behave
# like Python's `range`, a list slice with symbolic bounds like Python's slice.
# Exhaustive over small concrete values; a validation of the engine, reported
# under `bounded`, never counted as discharged.
# ============================================================================

def run_engine_selftest(tier="quick", seed=0):
    import time, operator
    from pyvc.sym import Ctx, set_ctx, PathInfeasible
    from pyvc.interp import Interp, Policy
    t0 = time.time()
    res = dict(obligations=0, discharged=0, functions=[], assumptions=[], samples=[], violations=[],
               undecided=[], bounded=[], clauses={}, solver_time_s=0.0)
    bad = []
    cases = 0
    vals = range(-3, 6)

    def pinned(pairs):
        """a path context in which fresh symbolic ints are pinned to the given values"""
        ctx = Ctx((), 5000, rlimit=RLIMIT)
        old = set_ctx(ctx)
        syms = []
        for nm, v in pairs:
            x = ctx.fresh_int(nm)
            ctx.solver.add(S.lift(x) == v)
            syms.append(x)
        return ctx, old, syms

    def value_of(ctx, term):
        """the value the path condition forces on a result"""
        if isinstance(term, bool) or isinstance(term, int):
            return term
        if isinstance(term, S.SBool):
            r, m = ctx._check()
            return z3.is_true(m.eval(term.t, model_completion=True))
        r, m = ctx._check()
        return m.eval(term.t, model_completion=True).as_long()

    def outcome(f):
        try:
            return ("ok", f())
        except IndexError:
            return ("IndexError", None)

    it = Interp(Policy())
    for a in vals:
        for b in vals:
            pr = range(a, b)
            for i in range(-7, 8):
                # len / contains / getitem / eq
                ctx, old, (x, y, k) = pinned([("x", a), ("y", b), ("k", i)])
                try:
                    sr = SRange(x, y)
                    checks = [("len", value_of(ctx, sr.length()), len(pr)),
                              ("contains", value_of(ctx, sr.contains(k)), i in pr)]
                    got = outcome(lambda: sr[k])
                    exp = outcome(lambda: pr[i])
                    if got[0] == "ok":
                        got = ("ok", value_of(ctx, got[1]))
                    checks.append(("getitem", got, exp))
                    for c2 in vals:
                        if c2 not in (a, a + 1, b):
                            continue
                        other = range(c2, i) if False else range(c2, b)
                        checks.append(("eq", value_of(ctx, sr.eq(other)), pr == other))
                    for (u, v) in ((i, None), (None, i), (i, b), (a, i)):
                        sl = sr[slice(k if u is i else u, k if v is i else v)]
                        ps = pr[slice(u, v)]
                        gs, ge = value_of(ctx, sl.start), value_of(ctx, sl.stop)
                        checks.append(("slice", (max(0, ge - gs), gs if ge > gs else None),
                                       (len(ps), ps.start if len(ps) else None)))
                    # list slice with symbolic bounds through the interpreter
                    lst = list(range(10, 10 + max(0, b - a)))
                    checks.append(("listslice", it.getitem(lst, slice(k, None)), lst[i:]))
                    checks.append(("listslice", it.getitem(lst, slice(None, k)), lst[:i]))
                    for nm, g_, e_ in checks:
                        cases += 1
                        if g_ != e_:
                            bad.append(f"{nm}: range({a},{b}) index {i}: engine {g_!r}, Python {e_!r}")
                except PathInfeasible:
                    bad.append(f"range({a},{b}) index {i}: infeasible path")
                finally:
                    set_ctx(old)
    res["bounded"].append(dict(target="pyvc.srange.SRange and symbolic list slices vs Python range / slice semantics",
                               bound="start, stop in [-3,5], index / slice bound in [-7,7]", cases=cases))
    if bad:
        res["undecided"] += [f"engine self-test (symbolic ranges): {b}" for b in bad[:5]]
    res["solver_time_s"] = round(time.time() - t0, 2)
    return res
