"""C06 - forwarded cursors denote the same code or are invalid: the scheduling
primitives (composition of edit forwardings inside every `Do*`).

Targets: the `Do*` functions of src/exo/rewrite/LoopIR_scheduling.py (and
DoReplace of LoopIR_unification.py), each interpreted by pyvc on a real little
procedure P

    pre0; pre1; <the statement(s) the primitive is applied to>; post0; post1

(at the top level, inside a loop body or inside the else branch of an if), with
the real cursor library, pattern matcher, Alpha_Rename and SubstArgs running
natively (contracts/c06_forwarding.py, C16) and the Check_* side conditions as
modular callees with both outcomes.  Loop bounds, quotients, cut points ... are
literals with symbolic values so that every branch of the primitive is explored.

Obligations (property text): let (ir, fwd) be the result.  *Every* cursor c of P
- a node cursor to each statement at every depth, both gap cursors of each
statement, a block cursor to every contiguous sub-block of every statement list -
is forwarded.  fwd(c) raises InvalidCursorError or is a cursor whose root is `ir`,
that resolves (never dangling) and denotes the same code (contracts/fwd_ghost.py:
the identical statement object, or the rebuilt / copied statement carrying the
same SrcInfo), never a different statement.  A statement carried over by the
rewrite must not be reported invalid, a statement that is gone must be; the
statement(s) the primitive is applied to forward as documented (tests/
test_forwarding.py, tests/test_cursors.py, docstrings); a cursor of another
procedure - and a cursor of `ir` itself - is rejected.
"""
from __future__ import annotations
from pyvc.contract import contract
from pyvc import sym as S
from contracts import trace_ghost as TG
from contracts.trace_ghost import rd, cst, bop
from contracts import fwd_ghost as FG
from contracts.fwd_ghost import (World, for_, if_, assign, reduce_, alloc, pass_, call_, rdbuf, label_of, images,
                                 in_list, strict_resolve, use_checks, drive, Rec)
from contracts.cursor_ghost import Runner
from exo.core.LoopIR import LoopIR, T
from exo.core.prelude import Sym
from exo.core import internal_cursors as IC
from exo.core.internal_cursors import InvalidCursorError
from exo.rewrite import LoopIR_scheduling as LS
from exo.rewrite.new_eff import SchedulingError

F = "src/exo/rewrite/LoopIR_scheduling.py"
FU = "src/exo/rewrite/LoopIR_unification.py"
TG.checker_shims()


def _preload_sources():
    """parse, once in the parent process, the repository files the interpreter needs (otherwise every pool worker
    parses them again)"""
    import os
    from pyvc.run import SHARED_INDEX, repo_root
    for rel in (F, FU, "src/exo/rewrite/new_eff.py", "src/exo/core/prelude.py", "src/exo/core/LoopIR.py"):
        try:
            SHARED_INDEX.load(os.path.join(repo_root(), rel))
        except Exception:
            pass


_preload_sources()
RLIMIT = 20_000_000
NATIVE_MODULES = ("exo.core.internal_cursors", "exo.core.LoopIR", "exo.frontend.pattern_match")
INVALID = "invalid"

ASSUMPTIONS = [
    "C06 primitives: exo.core.internal_cursors (elementary edits and their forwarding functions) runs natively inside "
    "the interpreted Do* functions; it is the subject of contracts/c06_forwarding.py.  match_pattern, Alpha_Rename and "
    "SubstArgs run natively (C16 / not verified); a Check_* call either raises SchedulingError or returns (both "
    "outcomes are explored, no fact is assumed)",
    "C06 primitives, bounds of the proof: literals (bounds, quotients, cut points, offsets) are symbolic; the "
    "procedures are the enumerated shapes of contracts/c06_primitives.py: two siblings before and after the rewritten "
    "statement(s), blocks of 1-3 statements, nests <= 2 deep below the rewritten statement, the whole placed at the "
    "top level / in a loop body / in an else branch; ALL node, gap and block cursors of each shape are forwarded "
    "(expression cursors are outside the property)",
    "C06 primitives, oracle: statement identity is object identity of LoopIR nodes shared by the two trees; a rebuilt or "
    "copied statement is recognised by its class and its SrcInfo object (every statement of a generated procedure has "
    "its own)",
    "C06 primitives, reading of the property where the documentation is silent about the statement a primitive "
    "consumes: InvalidCursorError or any image (copy) of the same statement is accepted, never another statement.  "
    "This weak reading is used for: unroll_loop (the loop and its body), lift_scope (the enclosing scope, which is "
    "duplicated / rebuilt, and the statements of its branch that does not hold the lifted statement: they are "
    "re-inserted as values), specialize (the statements of the block: copied into every branch), split_write (the "
    "statement: documented as invalidated), merge_writes (both statements), unroll_buffer (the allocation), fission of "
    "an if (either copy).  Everything else that has an image in the result must forward to it: siblings, statements "
    "of moved / copied bodies, rebuilt ancestors, statements whose accesses are rewritten",
    "C06 primitives, blocks: a block cursor that contains a statement the primitive is applied to (or one above / "
    "below it) must resolve and contain nothing foreign (a statement the primitive relocated or created may stand "
    "strictly inside it - the reading of contracts/c06_forwarding.py for moves and inserts); blocks of untouched "
    "statements must forward to exactly their statements; documented block forwardings (fuse, mult_loops, divide_loop "
    "body, specialize, split_write, replace, extract_subproc) are stated as their own clause",
    "C06 primitives: only the outcomes of a Check_* call after which the primitive goes on are explored (a failure "
    "that is an immediate SchedulingError leaves nothing to forward); a primitive that finds nothing to do returns P "
    "itself with the identity function - the clause on cursors of other procedures is then not demanded (observation: "
    "such a forwarding function accepts every cursor)",
    "C06 primitives: DoSimplify / _DoNormalize are run on procedures with concrete literals, their expression "
    "simplifier (map_e: C12) natively; the forwarding checked for simplify is the composition of the two provenance "
    "steps (normalise, simplify) as Procedure.forward applies it",
]


# ----------------------------------------------------------------------------
# the clauses

class Spec:
    """what the documentation says about the statements a primitive is applied to.
    focus(a)        statements of P the primitive is applied to (they, what is above and what is below them are
                    `touched`: block cursors containing one of them are only checked for soundness)
    may_vanish(a)   statements that may be reported invalid although an image exists (documentation silent)
    expect(a, rec)  [(statement of P, node of ir it must forward to | INVALID)]   documented behaviour
    expect_blocks(a, rec) [(statements of P, statements of ir)]  documented block forwarding"""

    def __init__(self, call, focus, may_vanish=None, expect=None, expect_blocks=None, modules=(LS,), stands_for=None):
        self.call, self.focus = call, focus
        # [(statement of ir, statements of P it stands for)] for a statement the primitive builds out of several
        self.stands_for = stands_for or (lambda a, rec: [])
        self.may_vanish = may_vanish or (lambda a: [])
        self.expect = expect or (lambda a, rec: [])
        self.expect_blocks = expect_blocks or (lambda a, rec: [])
        self.modules = modules


def positional(*names):
    return lambda R, fn, a: R.call(fn, *[getattr(a, n) for n in names])


def install(c, spec, checks=(), both=(), once=()):
    for m in NATIVE_MODULES:
        c.native_modules.add(m)
    c.rlimit = RLIMIT
    use_checks(c, *checks, both=both, once=once)
    c.entry = lambda g, it, fn, a: drive(Runner(it), fn, a, spec.call)

    def native(g, fn, a):
        with FG.native_checks(c, g, spec.modules):
            return drive(Runner(None), fn, a, spec.call)
    c.native_entry = native

    def per(kind, f):
        def clause(a):
            r = a.result
            if r.exc is not None:
                return True
            if not hasattr(r, "stands_for"):
                try:
                    r.stands_for = spec.stands_for(a, r)
                except Exception:
                    r.stands_for = []
            return all(f(a, r, pr, out, exc) for pr, out, exc in r.results if pr.kind == kind)
        return clause

    @c.ensures("the primitive returns (ir, fwd) or refuses with SchedulingError")
    def _(a):
        return a.result.exc is None or isinstance(a.result.exc, SchedulingError)

    @c.ensures("forwarding yields a cursor or raises InvalidCursorError, never another exception")
    def _(a):
        r = a.result
        return r.exc is not None or all(exc is None or isinstance(exc, InvalidCursorError) for _, _, exc in r.results)

    def must_survive(a, r, s):
        return bool(images(r, s)[0]) and not in_list(s, spec.may_vanish(a))

    c.ensures("node cursor: the forwarded cursor is a node cursor of ir that resolves to a statement (never dangling)")(
        per("node", lambda a, r, pr, out, exc: exc is not None or FG.node_resolves(r, out)))
    c.ensures("node cursor: forwarded to the same statement (identical object, else its rebuilt / copied image); "
              "a statement that is gone is reported invalid; never a different statement")(
        per("node", lambda a, r, pr, out, exc: exc is not None or not FG.node_resolves(r, out)
            or FG.node_same(r, pr.stmts[0], out)))
    c.ensures("node cursor: a statement carried over by the rewrite is not reported invalid")(
        per("node", lambda a, r, pr, out, exc: exc is None or not must_survive(a, r, pr.stmts[0])))

    @c.ensures("the statement(s) the primitive is applied to forward as documented")
    def _(a):
        r = a.result
        if r.exc is not None:
            return True
        try:
            wanted = spec.expect(a, r)
        except Exception:
            return False            # the documented image cannot even be located in ir
        for s, want in wanted:
            for pr, out, exc in r.results:
                if pr.kind == "node" and pr.stmts[0] is s:
                    if want is INVALID:
                        if exc is None:
                            return False
                    elif exc is not None or not FG.node_resolves(r, out) or strict_resolve(r.ir, out._path) is not want:
                        return False
        return True

    c.ensures("gap cursor: keeps its side and follows its anchor statement (same clauses as the node cursor)")(
        per("gap", lambda a, r, pr, out, exc: exc is not None or (
            isinstance(out, IC.Gap) and out._root is r.ir and out._type is pr.cur._type
            and FG.node_resolves(r, out._anchor) and FG.node_same(r, pr.stmts[0], out._anchor))))
    c.ensures("gap cursor: not reported invalid when its anchor statement is carried over")(
        per("gap", lambda a, r, pr, out, exc: exc is None or not must_survive(a, r, pr.stmts[0])))

    def touched(a):
        return a.ghost.w.old.family(spec.focus(a))

    c.ensures("block cursor: the forwarded block exists in ir (anchor, attribute, range): never dangling")(
        per("block", lambda a, r, pr, out, exc: exc is not None or FG.block_resolves(r, out)))
    c.ensures("block cursor: the forwarded block contains nothing foreign")(
        per("block", lambda a, r, pr, out, exc: exc is not None or not FG.block_resolves(r, out)
            or FG.block_nothing_foreign(r, pr.stmts, out, touched(a))))
    c.ensures("block cursor: a block of statements the rewrite does not touch forwards to exactly these statements")(
        per("block", lambda a, r, pr, out, exc: any(in_list(s, touched(a)) for s in pr.stmts) or (
            exc is None and FG.block_resolves(r, out) and FG.block_exact(r, pr.stmts, out))))

    @c.ensures("block cursors forward as documented")
    def _(a):
        r = a.result
        if r.exc is not None:
            return True
        try:
            wanted = spec.expect_blocks(a, r)
        except Exception:
            return False
        for olds, news in wanted:
            for pr, out, exc in r.results:
                if pr.kind == "block" and len(pr.stmts) == len(olds) and all(x is y for x, y in zip(pr.stmts, olds)):
                    if exc is not None or not FG.block_resolves(r, out):
                        return False
                    got = FG.block_stmts(r, out)
                    if len(got) != len(news) or not all(x is y for x, y in zip(got, news)):
                        return False
        return True

    # (a primitive that finds nothing to do returns P itself with the identity: see the report, observation O1)
    c.ensures("a cursor of another procedure (or of ir itself) is rejected with InvalidCursorError")(
        per("foreign", lambda a, r, pr, out, exc: r.ir is a.ghost.w.proc or isinstance(exc, InvalidCursorError)))
    return c


def prim(qualname, file=F):
    return contract("C06", file, qualname, name=f"{file}::{qualname} [forwarding]")


def at_old_path(a, rec, s):
    """the statement of ir at the path s had in P"""
    return strict_resolve(rec.ir, a.ghost.w.old.path_of(s))


def g_ctx(g, choices=("top", "in_for", "in_orelse")):
    return g.choose(list(choices), "context")


# ----------------------------------------------------------------------------
# cut_loop   (tests/test_cursors.py::test_cut_loop_forwarding: the loop forwards to the first loop, its body to
#             the body of the first loop)

c_cut = prim("DoCutLoop")

@c_cut.inputs
def _(g):
    w = World(g)
    loop = for_("loop", w.I, w.lit("lo"), w.lit("hi"),
                [reduce_("b0", w.X, [rd(w.I)]), assign("b1", w.Y, [cst(0)], 2.0)])
    w.close([loop], g_ctx(g))
    return {"loop_c": w.cur(loop), "cut_point": w.lit("cut"), "__ghost__": {"w": w, "loop": loop}}

install(c_cut, Spec(positional("loop_c", "cut_point"), focus=lambda a: [a.ghost.loop],
                    expect=lambda a, rec: [(a.ghost.loop, at_old_path(a, rec, a.ghost.loop))]
                    + [(s, at_old_path(a, rec, s)) for s in a.ghost.loop.body]),
        checks=("Check_CompareExprs",))


def first_image(rec, s):
    ims = images(rec, s)[0]
    return ims[0] if ims else INVALID


def loop_body(w, reads_i=True, nested=False, it=None, buf=None, tag="b"):
    """body of a loop over `it`: a statement that reads the iterator, one that does not, optionally a nested
    loop with a statement that reads both iterators"""
    it = it or w.I
    buf = buf or w.X
    body = [reduce_(tag + "0", buf, [rd(it)] if reads_i else [cst(0)]), assign(tag + "1", w.Y, [cst(0)], 2.0)]
    if nested:
        body.append(for_(tag + "inner", w.J, cst(0), cst(4), [reduce_(tag + "2", w.W, [rd(it)], 3.0)]))
    return body


# ----------------------------------------------------------------------------
# divide_loop   (tests/test_forwarding.py::test_divide_loop: "Loop always forwards to the outermost loop of the main
#                loop nest; loop body forwards to the main loop nest's body")

c_div = prim("DoDivideLoop")

@c_div.inputs
def _(g):
    w = World(g)
    tail, perfect = g.choose([("guard", False), ("cut", False), ("cut_and_guard", False), ("guard", True)], "tail")
    loop = for_("loop", w.I, w.lit("lo"), w.lit("hi"), loop_body(w, nested=True))
    w.close([loop], g_ctx(g))
    return {"loop_cursor": w.cur(loop), "quot": g.pos("quot"), "outer_iter": "io", "inner_iter": "ii", "tail": tail,
            "perfect": perfect, "__ghost__": {"w": w, "loop": loop}}


def _div_expect(a, rec):
    w, loop = a.ghost.w, a.ghost.loop
    outer = at_old_path(a, rec, loop)
    out = [(loop, outer if isinstance(outer, LoopIR.For) and outer.iter.name() == "io" else None)]
    # every statement of the body: its image in the main nest (which precedes the tail loop)
    out += [(s, first_image(rec, s)) for s in w.old.descendants(loop)]
    return out

def _div_blocks(a, rec):
    # "Loop body forwards to the main loop nest's body"
    return [(a.ghost.loop.body, [first_image(rec, s) for s in a.ghost.loop.body])]

install(c_div, Spec(positional("loop_cursor", "quot", "outer_iter", "inner_iter", "tail", "perfect"),
                    focus=lambda a: [a.ghost.loop], expect=_div_expect, expect_blocks=_div_blocks),
        checks=("Check_IsDivisible",))


# ----------------------------------------------------------------------------
# divide_with_recompute (same forwarding structure: the loop becomes the outer loop)

c_dwr = prim("DoDivideWithRecompute")

@c_dwr.inputs
def _(g):
    w = World(g)
    loop = for_("loop", w.I, w.lit("lo"), w.lit("hi"), loop_body(w, nested=True))
    w.close([loop], g_ctx(g, ("top", "in_for")))
    oh = w.lit("outer_hi")
    s = g.pos("stride")
    if g.choose(["expr", "e / stride"], "outer_hi.form") == "e / stride":
        oh = bop("/", oh, cst(s))
    return {"loop_cursor": w.cur(loop), "outer_hi": oh, "outer_stride": s, "iter_o": "io", "iter_i": "ii",
            "__ghost__": {"w": w, "loop": loop}}

install(c_dwr, Spec(positional("loop_cursor", "outer_hi", "outer_stride", "iter_o", "iter_i"),
                    focus=lambda a: [a.ghost.loop], expect=_div_expect, expect_blocks=_div_blocks),
        checks=("Check_IsIdempotent", "Check_IsPositiveExpr", "Check_IsNonNegativeExpr"))


# ----------------------------------------------------------------------------
# shift_loop  (test_shift_loop_forwarding: the loop and its body statements keep their places)

c_shift = prim("DoShiftLoop")

@c_shift.inputs
def _(g):
    w = World(g)
    loop = for_("loop", w.I, w.lit("lo"), w.lit("hi"), loop_body(w, nested=True))
    w.close([loop], g_ctx(g))
    return {"loop_c": w.cur(loop), "new_lo": w.lit("new_lo"), "__ghost__": {"w": w, "loop": loop}}

install(c_shift, Spec(positional("loop_c", "new_lo"), focus=lambda a: [a.ghost.loop],
                      expect=lambda a, rec: [(s, at_old_path(a, rec, s))
                                             for s in [a.ghost.loop] + a.ghost.w.old.descendants(a.ghost.loop)]),
        checks=("Check_IsNonNegativeExpr",))


# ----------------------------------------------------------------------------
# join_loops: the first loop stays (its bound changes), the second loop and its body are gone

c_join = prim("DoJoinLoops")

@c_join.inputs
def _(g):
    w = World(g)
    i2 = Sym("i")            # LoopIR_Compare matches iterators by name
    l1 = for_("loop1", w.I, w.lit("lo1"), w.lit("hi1"), [reduce_("a0", w.X, [rd(w.I)]), assign("a1", w.Y, [cst(0)], 2.0)])
    l2 = for_("loop2", i2, w.lit("lo2"), w.lit("hi2"), [reduce_("c0", w.X, [rd(i2)]), assign("c1", w.Y, [cst(0)], 2.0)])
    focus = [l1, l2]
    w.close(focus, g_ctx(g))
    return {"loop1_c": w.cur(l1), "loop2_c": w.cur(l2), "__ghost__": {"w": w, "l1": l1, "l2": l2}}

install(c_join, Spec(positional("loop1_c", "loop2_c"), focus=lambda a: [a.ghost.l1, a.ghost.l2],
                     expect=lambda a, rec: [(a.ghost.l1, at_old_path(a, rec, a.ghost.l1)), (a.ghost.l2, INVALID)]
                     + [(s, at_old_path(a, rec, s)) for s in a.ghost.l1.body]
                     + [(s, INVALID) for s in a.ghost.l2.body]),
        checks=("Check_ExprEqvInContext",))


# ----------------------------------------------------------------------------
# mult_loops  (test_mult_loop: the body of the inner loop forwards to the body of the product loop)

c_prod = prim("DoProductLoop")

@c_prod.inputs
def _(g):
    w = World(g)
    hi_i = g.choose(["const", "arg"], "hi_i.kind")
    b0, b1 = reduce_("b0", w.X, [rd(w.I), rd(w.J)]), assign("b1", w.Y, [rd(w.J), rd(w.I)], 2.0)
    inner = for_("inner", w.J, w.lit("lo_i"), w.lit("hi_i") if hi_i == "const" else rd(w.M), [b0, b1])
    body = [inner] + ([assign("extra", w.W, [cst(0)], 4.0)] if g.choose([False, True], "second statement") else [])
    outer = for_("outer", w.I, w.lit("lo_o"), w.lit("hi_o"), body)
    w.close([outer], g_ctx(g), xdims=2)
    return {"outer_loop_c": w.cur(outer), "new_name": "k", "__ghost__": {"w": w, "outer": outer, "inner": inner}}


def _prod_expect(a, rec):
    outer = at_old_path(a, rec, a.ghost.outer)
    out = [(a.ghost.outer, outer), (a.ghost.inner, INVALID)]
    if isinstance(outer, LoopIR.For):
        out += [(s, outer.body[k] if k < len(outer.body) else None) for k, s in enumerate(a.ghost.inner.body)]
    return out

install(c_prod, Spec(positional("outer_loop_c", "new_name"), focus=lambda a: [a.ghost.outer], expect=_prod_expect,
                     expect_blocks=lambda a, rec: [(a.ghost.inner.body, at_old_path(a, rec, a.ghost.outer).body)]))


# ----------------------------------------------------------------------------
# unroll_loop: the loop is replaced by copies of its body (documentation silent: the loop and its body may be
# reported invalid or forward to a copy; the siblings after it shift by the number of copies)

c_unr = prim("DoUnroll")

@c_unr.inputs
def _(g):
    w = World(g)
    kind = g.choose(["const", "arg"], "bounds.kind")
    lo = w.lit("lo")
    hi = w.lit("hi") if kind == "const" else rd(w.M)
    if kind == "const":
        g.assume(S.And(hi.val - lo.val >= 0, hi.val - lo.val <= 3))
    loop = for_("loop", w.I, lo, hi, loop_body(w))
    w.close([loop], g_ctx(g))
    return {"c_loop": w.cur(loop), "__ghost__": {"w": w, "loop": loop}}

install(c_unr, Spec(positional("c_loop"), focus=lambda a: [a.ghost.loop],
                    may_vanish=lambda a: [a.ghost.loop] + a.ghost.w.old.descendants(a.ghost.loop)))
c_unr.note("trip count 0..3; may be reported invalid: the unrolled loop and its body")


# ----------------------------------------------------------------------------
# remove_loop: the loop is gone, its body statements are carried over (possibly under a new guard)

c_rm = prim("DoRemoveLoop")

@c_rm.inputs
def _(g):
    w = World(g)
    uses = g.choose([False, True], "body uses the iterator")
    loop = for_("loop", w.I, w.lit("lo"), w.lit("hi"), loop_body(w, reads_i=uses))
    w.close([loop], g_ctx(g))
    return {"loop": w.cur(loop), "unsafe_disable_check": False,
            "__ghost__": {"w": w, "loop_s": loop}}

install(c_rm, Spec(positional("loop", "unsafe_disable_check"), focus=lambda a: [a.ghost.loop_s],
                   expect=lambda a, rec: [(a.ghost.loop_s, INVALID)]),
        checks=("Check_IsIdempotent", "Check_CompareExprs"), both=("Check_CompareExprs",))


# ----------------------------------------------------------------------------
# add_loop: the statement is carried over inside the new loop (and guard)

c_add = prim("DoAddLoop")

@c_add.inputs
def _(g):
    w = World(g)
    kind = g.choose(["assign", "loop"], "statement")
    st = assign("st", w.X, [cst(0)]) if kind == "assign" else for_("st", w.I, cst(0), cst(4), loop_body(w))
    w.close([st], g_ctx(g))
    return {"stmt_cursor": w.cur(st), "var": "k", "hi": w.lit("hi"), "guard": g.choose([False, True], "guard"),
            "unsafe_disable_check": False, "__ghost__": {"w": w, "st": st}}

install(c_add, Spec(positional("stmt_cursor", "var", "hi", "guard", "unsafe_disable_check"),
                    focus=lambda a: [a.ghost.st]),
        checks=("Check_IsIdempotent", "Check_IsPositiveExpr"))


# ----------------------------------------------------------------------------
# fuse (loops)  (test_fuse_loops: both bodies are carried over, consecutive, into the first loop; the block of the
#                two loops forwards to the block of the fused loop)

c_fuse = prim("DoFuseLoop")

@c_fuse.inputs
def _(g):
    w = World(g)
    l1 = for_("loop1", w.I, w.lit("lo1"), w.lit("hi1"), loop_body(w, tag="a"))
    l2 = for_("loop2", w.J, w.lit("lo2"), w.lit("hi2"),
              [reduce_("c0", w.Y, [rd(w.J)], 5.0), assign("c1", w.W, [cst(1)], 6.0)])
    focus = [l1, l2]
    w.close(focus, g_ctx(g))
    return {"f_cursor": w.cur(l1), "s_cursor": w.cur(l2), "unsafe_disable_check": False,
            "__ghost__": {"w": w, "l1": l1, "l2": l2}}


def _fuse_expect(a, rec):
    l1, l2 = a.ghost.l1, a.ghost.l2
    fused = at_old_path(a, rec, l1)
    out = [(l1, fused), (l2, INVALID)]
    if isinstance(fused, LoopIR.For):
        both = l1.body + l2.body
        out += [(s, fused.body[k] if k < len(fused.body) else None) for k, s in enumerate(both)]
    return out

install(c_fuse, Spec(positional("f_cursor", "s_cursor", "unsafe_disable_check"),
                     focus=lambda a: [a.ghost.l1, a.ghost.l2], expect=_fuse_expect,
                     expect_blocks=lambda a, rec: [([a.ghost.l1, a.ghost.l2], [at_old_path(a, rec, a.ghost.l1)])]),
        checks=("Check_ExprEqvInContext", "Check_FissionLoop"))


# ----------------------------------------------------------------------------
# fuse (ifs): the second if is gone, the statements of both its branches are carried over into the first

c_fif = prim("DoFuseIf")

@c_fif.inputs
def _(g):
    w = World(g)
    e1, e2 = g.choose([False, True], "first has else"), g.choose([False, True], "second has else")
    A, B = [assign("A0", w.X, [cst(0)]), assign("A1", w.X, [cst(1)])], [assign("B0", w.X, [cst(2)])]
    C, D = [assign("C0", w.Y, [cst(0)]), assign("C1", w.Y, [cst(1)])], [assign("D0", w.Y, [cst(2)]), assign("D1", w.Y, [cst(3)])]
    if1, if2 = if_("if1", w.cond("c1"), A, B if e1 else []), if_("if2", w.cond("c2"), C, D if e2 else [])
    focus = [if1, if2]
    w.close(focus, g_ctx(g, ("top", "in_for")))
    return {"f_cursor": w.cur(if1), "s_cursor": w.cur(if2), "__ghost__": {"w": w, "if1": if1, "if2": if2}}

install(c_fif, Spec(positional("f_cursor", "s_cursor"), focus=lambda a: [a.ghost.if1, a.ghost.if2],
                    expect=lambda a, rec: [(a.ghost.if1, at_old_path(a, rec, a.ghost.if1)), (a.ghost.if2, INVALID)]),
        checks=("Check_ExprEqvInContext",))


# ----------------------------------------------------------------------------
# reorder_stmts: both statements are carried over, in the other order

c_ro = prim("DoReorderStmt")

@c_ro.inputs
def _(g):
    w = World(g)
    kind = g.choose(["assigns", "loops"], "statements")
    if kind == "assigns":
        A, B = assign("A", w.X, [cst(0)]), assign("B", w.Y, [cst(0)], 2.0)
    else:
        A = for_("A", w.I, cst(0), cst(4), loop_body(w, tag="a"))
        B = for_("B", w.J, cst(0), cst(4), [reduce_("c0", w.Y, [rd(w.J)], 5.0)])
    focus = [A, B]
    w.close(focus, g_ctx(g))
    return {"f_cursor": w.cur(A), "s_cursor": w.cur(B), "__ghost__": {"w": w, "A": A, "B": B}}


def _ro_expect(a, rec):
    w, A, B = a.ghost.w, a.ghost.A, a.ghost.B
    return [(A, at_old_path(a, rec, B)), (B, at_old_path(a, rec, A))]

install(c_ro, Spec(positional("f_cursor", "s_cursor"), focus=lambda a: [a.ghost.A, a.ghost.B], expect=_ro_expect),
        checks=("Check_ReorderStmts",))


# ----------------------------------------------------------------------------
# lift_scope (documentation silent on forwarding).  The lifted statement, the statements inside it and the
# statements around are carried over; the enclosing scope is moved inside (for) or duplicated (if / else).

c_lift = prim("DoLiftScope")

@c_lift.inputs
def _(g):
    w = World(g)
    shape = g.choose(["if in if-body", "if in if-orelse", "for in if", "if in for", "for in for"], "shape")
    A = [assign("A0", w.X, [cst(0)]), assign("A1", w.X, [cst(1)])]
    B = [assign("B0", w.X, [cst(2)]), assign("B1", w.X, [cst(3)])]
    C = [assign("C0", w.Y, [cst(0)]), assign("C1", w.Y, [cst(1)])]
    if shape == "if in if-body":
        has_b, has_c = g.choose([False, True], "inner else"), g.choose([False, True], "outer else")
        inner = if_("inner", w.cond("ci"), A, B if has_b else [])
        outer = if_("outer", w.cond("co"), [inner], C if has_c else [])
    elif shape == "if in if-orelse":
        has_b = g.choose([False, True], "inner else")
        inner = if_("inner", w.cond("ci"), A, B if has_b else [])
        first = C if g.choose(["statements", "pass"], "outer body") == "statements" else [pass_("C0")]
        outer = if_("outer", w.cond("co"), first, [inner])
    elif shape == "for in if":
        inner = for_("inner", w.I, w.lit("lo"), w.lit("hi"), loop_body(w, tag="A"))
        outer = if_("outer", w.cond("co"), [inner], C if g.choose([False, True], "outer else") else [])
    elif shape == "if in for":
        has_b = g.choose([False, True], "inner else")
        inner = if_("inner", w.cond("ci"), A, B if has_b else [])
        outer = for_("outer", w.I, w.lit("lo"), w.lit("hi"), [inner])
    else:
        inner = for_("inner", w.J, w.lit("lo2"), w.lit("hi2"), loop_body(w, tag="A", it=w.J))
        outer = for_("outer", w.I, w.lit("lo"), w.lit("hi"), [inner])
    w.close([outer], g_ctx(g, ("top", "in_orelse")))
    return {"inner_c": w.cur(inner), "__ghost__": {"w": w, "outer": outer, "inner": inner, "shape": shape}}

def _lift_may_vanish(a):
    # documentation silent: the scope the statement is lifted out of is duplicated (if) or rebuilt around the
    # body; its *other* statements (the branch that does not hold the lifted statement) are re-inserted as values
    w, outer, inner = a.ghost.w, a.ghost.outer, a.ghost.inner
    keep = [inner] + w.old.descendants(inner)
    return [outer] + [s for s in w.old.descendants(outer) if not in_list(s, keep)]

install(c_lift, Spec(positional("inner_c"), focus=lambda a: [a.ghost.outer], may_vanish=_lift_may_vanish,
                     # the lifted statement takes the place of the scope it was in
                     expect=lambda a, rec: [(a.ghost.inner, at_old_path(a, rec, a.ghost.outer))]),
        checks=("Check_ReorderLoops", "Check_ExprEqvInContext"))


# ----------------------------------------------------------------------------
# fission: "into two copies; the first containing all statements before the cursor, and the second all
# statements after".  Every statement of the split body is carried over.

c_fis = prim("DoFissionAfterSimple")

@c_fis.inputs
def _(g):
    w = World(g)
    shape = g.choose(["for", "for in for", "if-body", "if-orelse", "for in if"], "shape")
    S3 = [reduce_("s0", w.X, [cst(0)]), reduce_("s1", w.Y, [cst(0)], 2.0), reduce_("s2", w.W, [cst(0)], 3.0)]
    n = 1
    if shape == "for":
        scope = for_("scope", w.I, w.lit("lo"), w.lit("hi"), S3)
        at = g.choose([0, 1], "after")       # API_scheduling.fission rejects a gap at the edge of the block
        target = S3[at]
        split = [scope]
    elif shape == "for in for":
        inner = for_("inner", w.J, w.lit("lo2"), w.lit("hi2"), S3)
        extra = [assign("e0", w.Z, [cst(3)], 9.0)] if g.choose([False, True], "statement after the inner loop") else []
        scope = for_("scope", w.I, w.lit("lo"), w.lit("hi"), [inner] + extra)
        at = g.choose([0, 1], "after")
        target = S3[at]
        n = g.choose([1, 2], "n_lifts")
        split = [inner] + ([scope] if n == 2 else [])
    elif shape == "if-body":
        other = [assign("o0", w.Z, [cst(3)], 9.0)] if g.choose([False, True], "other branch") else []
        scope = if_("scope", w.cond("c"), S3, other)
        target = S3[g.choose([0, 1], "after")]
        split = [scope]
    elif shape == "if-orelse":
        scope = if_("scope", w.cond("c"), [assign("o0", w.Z, [cst(3)], 9.0)], S3)
        target = S3[g.choose([0, 1], "after")]
        split = [scope]
    else:
        inner = for_("inner", w.J, w.lit("lo2"), w.lit("hi2"), S3)
        scope = if_("scope", w.cond("c"), [inner, assign("e0", w.Z, [cst(3)], 9.0)], [])
        target = S3[g.choose([0, 1], "after")]
        n = 2
        split = [inner, scope]
    w.close([scope], g_ctx(g, ("top", "in_for")))
    return {"stmt_cursor": w.cur(target), "n_lifts": n, "unsafe_disable_checks": False,
            "__ghost__": {"w": w, "scope": scope, "split": split, "shape": shape}}

# a split *loop* forwards to the first of its two copies (which keeps its place); for a split `if` the documentation
# is silent and either copy is accepted
install(c_fis, Spec(positional("stmt_cursor", "n_lifts", "unsafe_disable_checks"), focus=lambda a: [a.ghost.scope],
                    expect=lambda a, rec: [(s, at_old_path(a, rec, s)) for s in a.ghost.split
                                           if isinstance(s, LoopIR.For)]),
        checks=("Check_FissionLoop",))


# ----------------------------------------------------------------------------
# lift_alloc / sink_alloc: the allocation is carried over to its new place

c_la = prim("DoLiftAllocSimple")

@c_la.inputs
def _(g):
    w = World(g)
    T_ = Sym("t")
    al = alloc("al", T_, [w.lit("sz")] if g.choose([False, True], "tensor") else [])
    body = [assign("a0", w.X, [cst(0)]), al, assign("use", T_, [cst(0)] if al.type.shape() else []),
            assign("a1", w.X, [cst(1)])]
    shape = g.choose(["for", "if-body", "if-orelse", "for in for"], "shape")
    n = 1
    if shape == "for":
        scope = for_("scope", w.I, w.lit("lo"), w.lit("hi"), body)
    elif shape == "if-body":
        scope = if_("scope", w.cond("c"), body, [assign("o0", w.Z, [cst(3)], 9.0)])
    elif shape == "if-orelse":
        scope = if_("scope", w.cond("c"), [assign("o0", w.Z, [cst(3)], 9.0)], body)
    else:
        n = g.choose([1, 2, 3], "n_lifts")
        scope = for_("scope", w.I, w.lit("lo"), w.lit("hi"),
                     [assign("m0", w.Y, [cst(0)]), for_("mid", w.J, cst(0), cst(4), body), assign("m1", w.Y, [cst(1)])])
    w.close([scope], g_ctx(g, ("top", "in_orelse")))
    return {"alloc_cursor": w.cur(al), "n_lifts": n, "__ghost__": {"w": w, "scope": scope, "al": al}}

install(c_la, Spec(positional("alloc_cursor", "n_lifts"), focus=lambda a: [a.ghost.scope]))


c_sk = prim("DoSinkAlloc")

@c_sk.inputs
def _(g):
    w = World(g)
    T_ = Sym("t")
    al = alloc("al", T_, [])
    body = [assign("u0", T_, []), assign("u1", w.X, [cst(1)])]
    shape = g.choose(["for", "if", "if-else"], "shape")
    if shape == "for":
        scope = for_("scope", w.I, w.lit("lo"), w.lit("hi"), body)
    else:
        scope = if_("scope", w.cond("c"), body, [assign("e0", w.Z, [cst(3)], 9.0), assign("e1", w.Z, [cst(2)], 8.0)]
                    if shape == "if-else" else [])
    w.close([al, scope], g_ctx(g))
    return {"alloc_cursor": w.cur(al), "scope_cursor": w.cur(scope),
            "__ghost__": {"w": w, "scope": scope, "al": al}}

install(c_sk, Spec(positional("alloc_cursor", "scope_cursor"), focus=lambda a: [a.ghost.al, a.ghost.scope],
                   # the allocation forwards to the moved statement in the body (not to the copy in the else branch)
                   expect=lambda a, rec: [(a.ghost.al, at_old_path(a, rec, a.ghost.al).body[0])]))


# ----------------------------------------------------------------------------
# delete_buffer / reuse_buffer

c_db = prim("DoDeleteBuffer")

@c_db.inputs
def _(g):
    w = World(g)
    al = alloc("al", Sym("t"), [w.lit("sz")] if g.choose([False, True], "tensor") else [])
    where = g.choose(["block", "alone in a loop"], "where")
    if where == "block":
        w.close([al], g_ctx(g))
    else:
        w.close([for_("scope", w.I, w.lit("lo"), w.lit("hi"), [al])], g_ctx(g))
    return {"buf_cursor": w.cur(al), "__ghost__": {"w": w, "al": al}}

install(c_db, Spec(positional("buf_cursor"), focus=lambda a: [a.ghost.al], expect=lambda a, rec: [(a.ghost.al, INVALID)]),
        checks=("Check_IsDeadAfter",))


c_ru = prim("DoReuseBuffer")

@c_ru.inputs
def _(g):
    w = World(g)
    Bs, Rs = Sym("b"), Sym("r")
    alb, alr = alloc("alb", Bs), alloc("alr", Rs)
    nested = g.choose([False, True], "replaced buffer is declared in a loop")
    uses = [assign("w0", Rs, [], 1.0), assign("w1", w.X, [cst(0)], rdbuf(Rs, [])),
            for_("ul", w.J, cst(0), cst(4), [reduce_("w2", Rs, [], 2.0), assign("w3", w.Y, [rd(w.J)], rdbuf(Rs, []))])]
    if nested:
        focus = [alb, assign("ub", Bs, [], 0.0), for_("scope", w.I, w.lit("lo"), w.lit("hi"), [alr] + uses)]
    else:
        focus = [alb, assign("ub", Bs, [], 0.0), alr] + uses
    w.close(focus, g_ctx(g, ("top", "in_for")))
    return {"buf_cursor": w.cur(alb), "rep_cursor": w.cur(alr), "__ghost__": {"w": w, "alb": alb, "alr": alr}}

install(c_ru, Spec(positional("buf_cursor", "rep_cursor"), focus=lambda a: [a.ghost.alr],
                   expect=lambda a, rec: [(a.ghost.alr, INVALID)]),
        checks=("Check_IsDeadAfter",))


# ----------------------------------------------------------------------------
# bind_expr  (test_bind_expr_forwarding / test_lift_alloc_forwarding: the statement whose expression is bound is
#             carried over - rebuilt - behind the two new statements)

c_be = prim("DoBindExpr")
c_be.native_modules.add("exo.core.LoopIR_pprint")

@c_be.inputs
def _(g):
    w = World(g)
    shape = g.choose(["one", "two", "second in a loop", "second after a write"], "shape")
    e = lambda: rdbuf(w.Y, [cst(1)])
    s1 = assign("s1", w.X, [cst(0)], LoopIR.BinOp("*", e(), FG.fconst(2.0), T.f32, FG.ESRC))
    s2 = assign("s2", w.X, [cst(1)], e())
    if shape == "one":
        focus, curs = [s1], [s1]
    elif shape == "two":
        focus, curs = [s1, assign("mid", w.W, [cst(0)], 3.0), s2], [s1, s2]
    elif shape == "second in a loop":
        focus, curs = [s1, for_("lp", w.I, w.lit("lo"), w.lit("hi"), [assign("l0", w.W, [cst(0)], 3.0), s2])], [s1, s2]
    else:
        focus, curs = [s1, assign("wr", w.Y, [cst(1)], 3.0), s2], [s1, s2]
    w.close(focus, g_ctx(g))
    ecs = []
    for s in curs:
        c = w.cur(s)._child_node("rhs")
        ecs.append(c._child_node("lhs") if s is s1 else c)
    return {"new_name": "bound", "expr_cursors": ecs, "__ghost__": {"w": w, "focus": focus}}

install(c_be, Spec(lambda R, fn, a: R.call(fn, a.new_name, list(a.expr_cursors)), focus=lambda a: a.ghost.focus),
        checks=("Check_Aliasing",))


# ----------------------------------------------------------------------------
# buffer dimension rewrites: the allocation and every statement that accesses the buffer are rebuilt in place
# (_replace_reads / _replace_writes); every statement cursor must survive at its place

def dim_world(g, w, rank, const_dims=False):
    Tb = Sym("t")
    al = alloc("al", Tb, [w.lit(f"d{k}") for k in range(rank)])
    fill = lambda first: [first] + [cst(k) for k in range(1, rank)]
    stmts = [al,
             assign("w0", Tb, fill(cst(0)), 1.0),
             assign("u0", w.W, [cst(0)], 7.0),
             for_("ul", w.J, cst(0), cst(4), [reduce_("w2", Tb, fill(rd(w.J)), 2.0),
                                              assign("w3", w.Y, [rd(w.J)], rdbuf(Tb, fill(rd(w.J)))),
                                              assign("u1", w.W, [cst(1)], 8.0)]),
             if_("ui", w.cond("c"), [assign("w4", w.X, [cst(0)], rdbuf(Tb, fill(cst(1))))],
                 [assign("w5", Tb, fill(cst(2)), rdbuf(Tb, fill(cst(3))))])]
    return al, stmts


def dim_contract(qualname, rank, mk_args, checks=()):
    c = prim(qualname)

    @c.inputs
    def _(g):
        w = World(g)
        al, stmts = dim_world(g, w, rank)
        w.close(stmts, g_ctx(g, ("top", "in_for")))
        return {"__args__": [w.cur(al)] + mk_args(g, w), "__ghost__": {"w": w, "al": al}}

    install(c, Spec(lambda R, fn, a: R.call(fn, *a.__args__), focus=lambda a: [a.ghost.al],
                    expect=lambda a, rec: [(s, at_old_path(a, rec, s)) for _, s in a.ghost.w.old.stmts]),
            checks=checks)
    return c


dim_contract("DoExpandDim", 1, lambda g, w: [w.lit("alloc_dim"), bop("+", rd(w.M), w.lit("ofs"))],
             checks=("Check_IsPositiveExpr", "Check_Bounds"))
dim_contract("DoResizeDim", 2, lambda g, w: [g.choose([0, 1], "dim_idx"), w.lit("size"), w.lit("offset")],
             checks=("Check_IsPositiveExpr", "Check_Bounds"))
dim_contract("DoDivideDim", 2, lambda g, w: [g.choose([0, 1], "dim_idx"), g.pos("quotient")],
             checks=("Check_IsDivisible",))
dim_contract("DoRearrangeDim", 2, lambda g, w: [[1, 0]])
dim_contract("DoMultiplyDim", 2, lambda g, w: list(g.choose([(0, 1), (1, 0)], "dims")))


# ----------------------------------------------------------------------------
# eliminate_dead_code  (test_eliminate_dead_code_forwarding*: the if / the loop is reported invalid, the statements
# of the branch that is kept are carried over, those of the other branch are reported invalid)

c_dc = prim("DoEliminateDeadCode")

@c_dc.inputs
def _(g):
    w = World(g)
    kind = g.choose(["if", "if-else", "loop"], "statement")
    if kind == "loop":
        st = for_("st", w.I, w.lit("lo"), w.lit("hi"), loop_body(w))
    else:
        st = if_("st", w.cond("c"), [assign("t0", w.X, [cst(0)]), assign("t1", w.X, [cst(1)])],
                 [assign("e0", w.Y, [cst(0)]), assign("e1", w.Y, [cst(1)]), assign("e2", w.Y, [cst(2)])]
                 if kind == "if-else" else [])
    w.close([st], g_ctx(g, ("top", "in_orelse")))
    return {"stmt_cursor": w.cur(st), "__ghost__": {"w": w, "st": st}}

install(c_dc, Spec(positional("stmt_cursor"), focus=lambda a: [a.ghost.st],
                   expect=lambda a, rec: [(a.ghost.st, INVALID)]),
        checks=("Check_ExprEqvInContext", "Check_CompareExprs"), both=("Check_ExprEqvInContext",))


# ----------------------------------------------------------------------------
# insert_pass / delete_pass

c_ip = prim("DoInsertPass")

@c_ip.inputs
def _(g):
    w = World(g)
    loop = for_("loop", w.I, w.lit("lo"), w.lit("hi"), loop_body(w))
    w.close([loop], g_ctx(g, ("top", "in_orelse")))
    anchor = w.stmt(g.choose(["pre1", "loop", "b0", "b1", "post1"], "anchor"))
    side = g.choose(["before", "after"], "side")
    gap = w.cur(anchor).before() if side == "before" else w.cur(anchor).after()
    return {"gap": gap, "__ghost__": {"w": w}}

install(c_ip, Spec(positional("gap"), focus=lambda a: [],
                   expect=lambda a, rec: [(s, first_image(rec, s)) for _, s in a.ghost.w.old.stmts]))


class ProcStub:
    """what DoDeletePass uses of an API Procedure"""
    def __init__(self, ir):
        self._loopir_proc = ir

    def _root(self):
        return IC.Cursor.create(self._loopir_proc)


c_dp = prim("DoDeletePass")

@c_dp.inputs
def _(g):
    w = World(g)
    shape = g.choose(["passes in blocks", "loops of passes", "no pass"], "shape")
    if shape == "passes in blocks":
        focus = [pass_("p0"), for_("lp", w.I, w.lit("lo"), w.lit("hi"),
                               [assign("l0", w.X, [cst(0)]), pass_("p1"), assign("l1", w.X, [cst(1)]), pass_("p2")]),
                 assign("mid", w.W, [cst(0)], 3.0), pass_("p3")]
    elif shape == "loops of passes":
        focus = [for_("lp", w.I, w.lit("lo"), w.lit("hi"), [for_("lq", w.J, cst(0), cst(2), [pass_("p0")])]),
                 assign("mid", w.W, [cst(0)], 3.0),
                 for_("lr", w.I, cst(0), cst(2), [assign("l0", w.X, [cst(0)]),
                                                  for_("ls", w.J, cst(0), cst(2), [pass_("p1"), pass_("p2")]),
                                                  assign("l1", w.X, [cst(1)])]),
                 if_("cf", w.cond("c"), [pass_("p3")], [assign("e0", w.Y, [cst(0)])])]
    else:
        focus = [assign("mid", w.W, [cst(0)], 3.0)]
    w.close(focus, g_ctx(g))
    return {"proc": ProcStub(w.proc), "__ghost__": {"w": w}}

install(c_dp, Spec(positional("proc"), focus=lambda a: a.ghost.w.focus))


# ----------------------------------------------------------------------------
# specialize  (test_specialize_forwarding: the block forwards to the block of the new if; its statements are
# copied into every branch: documentation silent, they may be reported invalid)

c_sp = prim("DoSpecialize")

@c_sp.inputs
def _(g):
    w = World(g)
    sts = [assign("s0", w.X, [cst(0)]), for_("s1", w.I, w.lit("lo"), w.lit("hi"), loop_body(w)),
           assign("s2", w.X, [cst(2)])]
    w.close(sts, g_ctx(g, ("top", "in_for")))
    lo, hi = g.choose([(0, 1), (0, 2), (1, 3), (0, 3), (2, 3)], "block")
    blk = w.cur(sts[0]).parent()._child_block(w.old.path_of(sts[0])[-1][0])
    base = w.old.path_of(sts[0])[-1][1]
    blk = blk[base + lo:base + hi]
    conds = [bop("<", w.nread(), w.lit("c1"))] + ([bop("==", w.nread(), w.lit("c2"))]
                                                   if g.choose([False, True], "two conditions") else [])
    return {"block_c": blk, "conds": conds, "__ghost__": {"w": w, "blk": sts[lo:hi]}}

install(c_sp, Spec(positional("block_c", "conds"), focus=lambda a: a.ghost.blk,
                   may_vanish=lambda a: a.ghost.w.old.family(a.ghost.blk)[:0] + a.ghost.blk
                   + [d for s in a.ghost.blk for d in a.ghost.w.old.descendants(s)],
                   expect_blocks=lambda a, rec: [(a.ghost.blk, [at_old_path(a, rec, a.ghost.blk[0])])]))


# ----------------------------------------------------------------------------
# simplify = _DoNormalize followed by DoSimplify (two provenance steps; the forwarding observed here is their
# composition, as Procedure.forward applies it).  Expressions are rewritten in place, constant branches are
# spliced, empty loops deleted: every surviving statement is carried over (test_simplify_forwarding: a statement
# inside a simplified loop; test_simplify_predicates_forwarding).  Literals are concrete here: the expression
# simplifier itself (map_e, the subject of C12) runs natively.

import exo.API as API

SIMP_NATIVE = ("exo.core.internal_cursors", "exo.frontend.pattern_match", "exo.rewrite.range_analysis", "exo.API",
               "exo.core.proc_eqv", "exo.API_cursors", "exo.core.LoopIR_pprint")


def simp_world(g, choose_preds=False):
    w = World(g)
    n = w.nread()
    hi = bop("+", bop("-", bop("*", n, cst(4)), bop("*", n, cst(4))), cst(8))
    cond_kind = g.choose(["true", "false", "opaque", "folds to true"], "cond")
    cond = {"true": LoopIR.Const(True, T.bool, FG.ESRC), "false": LoopIR.Const(False, T.bool, FG.ESRC),
            "opaque": bop("<", n, cst(3)), "folds to true": bop("<", cst(0), cst(1))}[cond_kind]
    has_else = g.choose([False, True], "else")
    iff = if_("iff", cond, [assign("t0", w.X, [bop("+", rd(w.I), cst(0))]), assign("t1", w.X, [cst(1)])],
              [assign("e0", w.Y, [bop("-", rd(w.I), rd(w.I))]), assign("e1", w.Y, [cst(1)])] if has_else else [])
    lp = for_("lp", w.I, cst(0), hi, [reduce_("b0", w.X, [bop("+", rd(w.I), bop("-", n, n))]), iff,
                                      assign("b1", w.Y, [cst(0)], 2.0)])
    dead = for_("dead", w.J, cst(2), bop("+", bop("-", n, n), cst(2)), [pass_("d0")])
    # (without a simplifiable assertion the last edit of the pass is the one on the last statement it changes)
    if not choose_preds or g.choose([True, False], "simplifiable assertion"):
        w.preds = [bop(">=", n, bop("+", cst(0), cst(1)))]
    # (index expressions are always rebuilt by the normaliser; the trailing `pass` makes the bound of `dead` the last
    # edit of the pass at the top level)
    w.close([lp, dead, pass_("last")], g_ctx(g, ("top", "in_for")), npre=1, npost=0)
    return w


def _simp_contract(qualname, cls_name, compose_with_provenance):
    c = prim(qualname)
    for m in SIMP_NATIVE:
        c.native_modules.add(m)
    c.native("_DoNormalize.map_e", "DoSimplify.map_e", "_DoNormalize.index_start", "DoSimplify.map_binop")

    @c.inputs
    def _(g):
        w = simp_world(g, choose_preds=not compose_with_provenance)
        return {"proc": API.Procedure(w.proc), "__ghost__": {"w": w}}

    def call(R, fn, a):
        obj = object.__new__(getattr(LS, cls_name))
        _, exc = R.call(fn, obj, a.proc)
        if exc is not None:
            return None, exc
        if compose_with_provenance:
            norm = obj.provenance
            if norm._provenance_eq_Procedure is not a.proc:
                return None, AssertionError("provenance of the normalised procedure is not the input")
            return (obj.ir, FG.Steps([norm._forward, obj.fwd])), None
        return (obj.ir, obj.fwd), None

    c.rlimit = RLIMIT
    c.entry = lambda g, it, fn, a: drive(Runner(it), fn, a, call)
    c.native_entry = lambda g, fn, a: drive(Runner(None), fn, a, call)
    spec = Spec(call, focus=lambda a: a.ghost.w.focus)
    saved = NATIVE_MODULES
    install_clauses(c, spec)
    return c


def install_clauses(c, spec):
    entry, native = c.entry, c.native_entry
    mods = set(c.native_modules)
    install(c, spec)
    c.entry, c.native_entry = entry, native
    c.native_modules.clear()
    c.native_modules.update(mods)


_simp_contract("_DoNormalize.__init__", "_DoNormalize", False)
_simp_contract("DoSimplify.__init__", "DoSimplify", True)


# ----------------------------------------------------------------------------
# inline / replace / extract_subproc on a front-end built procedure (typed for the real unifier); every statement
# gets its own SrcInfo afterwards

from exo import proc as _exo_proc
from exo.rewrite import LoopIR_unification as LU


@_exo_proc
def _cal(m: size, q: f32[m]):
    assert m > 1
    for k in seq(0, m):
        q[k] = 1.0
    q[0] = 2.0


@_exo_proc
def _host(n: size, x: f32[n], y: f32[n], z: f32[8]):
    assert n > 8
    z[0] = 0.0
    z[1] = 1.0
    for i in seq(0, n):
        x[i] = 1.0
    x[0] = 2.0
    _cal(n, y)
    z[2] = 2.0
    z[3] = 3.0


def relabel(ir, labels):
    """the same procedure with one SrcInfo object per statement (pre-order labels)"""
    it = iter(labels)

    def stmts(l):
        out = []
        for s in l:
            lab = next(it)
            kw = {"srcinfo": FG.si(lab)}
            for attr in ("body", "orelse"):
                if isinstance(getattr(s, attr, None), list):
                    kw[attr] = stmts(getattr(s, attr))
            out.append(s.update(**kw))
        return out
    return ir.update(body=stmts(ir.body))


class FrontWorld:
    """World built from a front-end procedure"""
    def __init__(self, ir, labels):
        self.proc = relabel(ir, labels)
        self.root = IC.Cursor.create(self.proc)
        self.old = FG.Index(self.proc)
        self.focus = []

    cur = World.cur
    stmt = World.stmt


HOST_LABELS = ["pre0", "pre1", "loop", "l0", "x0", "call", "post0", "post1"]

c_inl = prim("DoInline")

@c_inl.inputs
def _(g):
    w = FrontWorld(_host._loopir_proc, HOST_LABELS)
    return {"call": w.cur(w.stmt("call")), "__ghost__": {"w": w}}

install(c_inl, Spec(positional("call"), focus=lambda a: [a.ghost.w.stmt("call")],
                    expect=lambda a, rec: [(a.ghost.w.stmt("call"), INVALID)]))


c_rep = prim("DoReplace", file=FU)
c_rep.native_modules.add("exo.core.LoopIR_pprint")
c_rep.native("Unification.__init__", "Unification.result", "Get_Live_Variables")

@c_rep.inputs
def _(g):
    w = FrontWorld(_host._loopir_proc, HOST_LABELS)
    n = g.choose([2, 3, 4], "block length")          # DoReplace replaces the first len(subproc.body) statements
    blk = w.root.body()[2:2 + n]
    return {"subproc": _cal._loopir_proc, "block_cursor": blk,
            "__ghost__": {"w": w, "blk": [w.stmt("loop"), w.stmt("x0")]}}


def _the_call(a, rec):
    return [s for _, s in rec.new.stmts if isinstance(s, LoopIR.Call) and not in_list(s, [a.ghost.w.stmt("call")])]

install(c_rep, Spec(positional("subproc", "block_cursor"), focus=lambda a: a.ghost.blk,
                    expect=lambda a, rec: [(s, INVALID) for s in a.ghost.blk + [a.ghost.w.stmt("l0")]],
                    # the cursor to the replaced block forwards to the call
                    expect_blocks=lambda a, rec: [(a.ghost.blk, _the_call(a, rec))], modules=(LS, LU)),
        checks=("Check_Aliasing",))


c_es = prim("DoExtractSubproc")
c_es.native_modules.add("exo.core.LoopIR_pprint")

@c_es.inputs
def _(g):
    w = FrontWorld(_host._loopir_proc, HOST_LABELS)
    lo, hi = g.choose([(2, 3), (2, 4), (1, 5), (0, 8)], "block")
    return {"block": w.root.body()[lo:hi], "subproc_name": "sub", "include_asserts": g.choose([True, False], "asserts"),
            "__ghost__": {"w": w, "blk": list(w.proc.body[lo:hi])}}

install(c_es, Spec(positional("block", "subproc_name", "include_asserts"), focus=lambda a: a.ghost.blk,
                   # test_extract_subproc_forwarding: the block forwards to the block of the new call
                   expect_blocks=lambda a, rec: [(a.ghost.blk, [s for _, s in rec.new.stmts
                                                               if isinstance(s, LoopIR.Call) and s.f.name == "sub"])]),
        checks=("Check_Aliasing",))


# ----------------------------------------------------------------------------
# split_write (docstring: "cursors to the statement ... get invalidated; blocks containing the statement will forward
# to a new block containing the resulting block"), merge_writes, inline_assign

c_sw = prim("DoSplitWrite")

@c_sw.inputs
def _(g):
    w = World(g)
    mk = g.choose([assign, reduce_], "statement")
    st = mk("st", w.X, [cst(0)], LoopIR.BinOp("+", rdbuf(w.Y, [cst(0)]), rdbuf(w.Y, [cst(1)]), T.f32, FG.ESRC))
    w.close([st], g_ctx(g))
    return {"sc": w.cur(st), "__ghost__": {"w": w, "st": st}}


def _sw_blocks(a, rec):
    w, st = a.ghost.w, a.ghost.st
    p = w.old.path_of(st)
    lst = strict_resolve(rec.ir, p[:-1]) if len(p) > 1 else rec.ir
    new = getattr(lst, p[-1][0])
    k = p[-1][1]
    old = getattr(strict_resolve(w.proc, p[:-1]) if len(p) > 1 else w.proc, p[-1][0])
    out = []
    for lo in range(0, k + 1):
        for hi in range(k + 1, len(old) + 1):
            out.append((old[lo:hi], new[lo:hi + 1]))
    return out

install(c_sw, Spec(positional("sc"), focus=lambda a: [a.ghost.st], expect=lambda a, rec: [(a.ghost.st, INVALID)],
                   may_vanish=lambda a: [a.ghost.st], expect_blocks=_sw_blocks))


c_mw = prim("DoMergeWrites")

@c_mw.inputs
def _(g):
    w = World(g)
    s1 = assign("s1", w.X, [cst(0)], rdbuf(w.Y, [cst(0)]))
    s2 = g.choose([assign, reduce_], "second")("s2", w.X, [cst(0)], rdbuf(w.Y, [cst(1)]))
    w.close([s1, s2], g_ctx(g))
    return {"c1": w.cur(s1), "c2": w.cur(s2), "__ghost__": {"w": w, "s1": s1, "s2": s2}}

# documentation silent: the first write is deleted; the second is kept (assign) or replaced by the merged write
install(c_mw, Spec(positional("c1", "c2"), focus=lambda a: [a.ghost.s1, a.ghost.s2],
                   may_vanish=lambda a: [a.ghost.s1, a.ghost.s2],
                   # the merged write (second statement a reduction) stands for both statements
                   stands_for=lambda a, rec: [(at_old_path(a, rec, a.ghost.s1), [a.ghost.s1, a.ghost.s2])]
                   if at_old_path(a, rec, a.ghost.s1) is not a.ghost.s2 else []),
        checks=("Check_ExprEqvInContext",))


c_ia = prim("DoInlineAssign")
c_ia.native_modules.add("exo.core.LoopIR_pprint")

@c_ia.inputs
def _(g):
    w = World(g)
    Tb = Sym("t")
    # (the inlined buffer must be a temporary allocated in the same block before the assignment)
    s1 = assign("s1", Tb, [], rdbuf(w.Y, [cst(0)]))
    uses = [assign("u0", w.X, [cst(0)], rdbuf(Tb, [])),
            for_("ul", w.J, cst(0), cst(4), [assign("u1", w.X, [rd(w.J)], rdbuf(Tb, [])), assign("u2", w.W, [cst(1)], 8.0)])]
    w.close([alloc("alt", Tb), assign("m0", w.W, [cst(0)], 3.0), s1] + uses, g_ctx(g), npost=1)
    return {"c1": w.cur(s1), "__ghost__": {"w": w, "s1": s1}}

install(c_ia, Spec(positional("c1"), focus=lambda a: [a.ghost.s1], expect=lambda a, rec: [(a.ghost.s1, INVALID)]),
        checks=("Check_CompareExprs",))


# ----------------------------------------------------------------------------
# unroll_buffer (test_unroll_buffer_forwarding: the statements that access the buffer are carried over; two
# attributes - name and idx - of every access are replaced, i.e. _replace_helper composes two edits per access)

c_ub = prim("DoUnrollBuffer")

@c_ub.inputs
def _(g):
    w = World(g)
    Tb = Sym("t")
    rank = g.choose([1, 2], "rank")
    al = alloc("al", Tb, [2] + [4] * (rank - 1))
    tail = [cst(3)] * (rank - 1)
    stmts = [al, assign("w0", Tb, [cst(0)] + tail, 1.0), assign("u0", w.W, [cst(0)], 7.0),
             for_("ul", w.J, cst(0), cst(4), [reduce_("w2", Tb, [cst(1)] + tail, 2.0),
                                              assign("w3", w.Y, [rd(w.J)], rdbuf(Tb, [cst(1)] + tail))]),
             assign("w4", w.X, [cst(0)], LoopIR.BinOp("+", rdbuf(Tb, [cst(0)] + tail), rdbuf(Tb, [cst(1)] + tail),
                                                      T.f32, FG.ESRC))]
    w.close(stmts, g_ctx(g, ("top", "in_for")))
    return {"alloc_cursor": w.cur(al), "dim": 0, "__ghost__": {"w": w, "al": al}}

install(c_ub, Spec(positional("alloc_cursor", "dim"), focus=lambda a: [a.ghost.al], may_vanish=lambda a: [a.ghost.al]))
c_ub.note("may be reported invalid: the allocation (replaced by one allocation per used slice)")


# ----------------------------------------------------------------------------
# non-vacuity guard (engine, reported under `bounded`, never counted as discharged): every contract above has shapes
# on which the real primitive SUCCEEDS natively, and on those native runs every clause evaluates to True as well
# (random concrete shapes / literal values; Check_* outcomes random).

ENGINES = ["contracts.c06_primitives:run_nonvacuity"]


def run_nonvacuity(tier="quick", seed=0):
    import random, time
    from pyvc.sym import ConcreteCtx, set_ctx, PathInfeasible, Unsupported
    from pyvc.run import G, load_target, repo_root
    from pyvc.interp import Interp, Policy, SourceIndex
    from pyvc.contract import REGISTRY, Args
    t0 = time.time()
    res = dict(obligations=0, discharged=0, functions=[], assumptions=[], samples=[], violations=[],
               undecided=[], bounded=[], clauses={}, solver_time_s=0.0)
    tries = 60 if tier == "thorough" else 12
    rng = random.Random(seed)
    for cid, c in list(REGISTRY.items()):
        if c.prop != "C06" or not cid.endswith("[forwarding]"):
            continue
        ok_runs, failed = 0, []
        # the probe is random: keep going (up to `max_tries`) until the primitive has succeeded at least once, so
        # that an unlucky stream of literals is not mistaken for a contract that excludes everything
        max_tries = 40 * tries
        k = -1
        while k + 1 < tries or (ok_runs == 0 and k + 1 < max_tries):
            k += 1
            ctx = ConcreteCtx(rng=random.Random(rng.random()), lo=0, hi=(0, 1, 6)[k % 3])
            old = set_ctx(ctx)
            try:
                g = G(ctx)
                kind, fn, rest = load_target(c, Interp(Policy(), SourceIndex()), repo_root())
                argd = dict(c.gen(g))
                ghost = argd.pop("__ghost__", {})
                a = Args(**argd)
                a.ghost, a.g = Args(**ghost), g
                a.result = c.native_entry(g, fn, a)
                if a.result.exc is None:
                    ok_runs += 1
                    for lab, f in c.post:
                        if not bool(f(a)):
                            failed.append(lab)
            except (PathInfeasible, Unsupported):
                pass
            except Exception as e:
                failed.append(f"native run crashed: {type(e).__name__}")
            finally:
                set_ctx(old)
        res["bounded"].append(dict(target=cid, bound=f"{k + 1} random concrete shapes, native run", cases=ok_runs,
                                   failed=len(failed)))
        if ok_runs == 0:
            res["undecided"].append(f"{cid}: the primitive never succeeded on {k + 1} random shapes (vacuous contract?)")
    res["solver_time_s"] = round(time.time() - t0, 2)
    return res


# ----------------------------------------------------------------------------
# stage_mem: accesses of the block are redirected to the new buffer (two attributes per access), a load nest and a
# store nest are inserted around the block (with bounds guards), the allocation before them.  Documentation
# silent on forwarding; every statement is carried over (rebuilt where it accesses the buffer).

@_exo_proc
def _sm(n: size, x: f32[n], y: f32[n], z: f32[8]):
    assert n > 1100
    z[0] = 0.0
    z[1] = 1.0
    for i in seq(0, 1001):
        y[i] = x[i] + y[i]
        y[i] += 1.0
    x[0] = y[100]
    z[2] = 2.0


SM_LABELS = ["pre0", "pre1", "loop", "l0", "l1", "x0", "post0"]

c_sm = prim("DoStageMem")
c_sm.native_modules.add("exo.core.LoopIR_pprint")

@c_sm.inputs
def _(g):
    w = FrontWorld(_sm._loopir_proc, SM_LABELS)
    loop = w.stmt("loop")
    how = g.choose(["interval around the loop", "interval around two statements", "point inside the loop",
                    "point, reduce only"], "window")
    accum = False
    if how == "interval around the loop":
        blk, win = w.cur(loop).as_block(), [(cst(g.int("w_lo")), cst(g.int("w_hi")))]
    elif how == "interval around two statements":
        blk, win = w.cur(loop).as_block().expand(0, 1), [(cst(g.int("w_lo")), cst(g.int("w_hi")))]
    elif how == "point inside the loop":
        blk, win = w.cur(loop).body(), [rd(loop.iter)]
    else:
        blk, win, accum = w.cur(w.stmt("l1")).as_block(), [rd(loop.iter)], True
    return {"block_cursor": blk, "buf_name": "y", "w_exprs": win, "new_name": "y_tmp", "use_accum_zero": accum,
            "__ghost__": {"w": w, "blk": [strict_resolve(w.proc, c._path) for c in blk]}}

install(c_sm, Spec(positional("block_cursor", "buf_name", "w_exprs", "new_name", "use_accum_zero"),
                   focus=lambda a: a.ghost.blk),
        checks=("Check_Bounds", "Check_Access_In_Window", "Check_ExprEqvInContext", "Check_BufferReduceOnly"),
        both=("Check_Access_In_Window", "Check_ExprEqvInContext"), once=("Check_Access_In_Window", "Check_ExprEqvInContext"))


# ----------------------------------------------------------------------------
# known finding F50 (add_loop with guard=True): witness class

def _inputs_of(c, model, choices):
    """re-run the contract's generator on the counterexample's shape and values"""
    from pyvc.sym import ConcreteCtx
    from pyvc.run import G
    ctx = ConcreteCtx(values=model, choices=choices)
    old = S.set_ctx(ctx)
    try:
        return c.gen(G(ctx))
    finally:
        S.set_ctx(old)


def f50_guarded_add_loop(c, model, choices):
    """F50: add_loop(..., guard=True) builds `for k: if k == 0: s` with ONE wrap edit, so every cursor to s (and
    below s) is forwarded one level short: to the new guard, or to a dangling path"""
    return bool(_inputs_of(c, model, choices).get("guard"))


# ----------------------------------------------------------------------------
# further primitives that compose several edits (documentation silent on forwarding: nothing is consumed, every
# statement is carried over)

dim_contract("DoSetTypAndMem", 1, lambda g, w: [T.f64])        # set_precision: type of the allocation and of every access


c_lc = prim("DoLiftConstant")

@c_lc.inputs
def _(g):
    w = World(g)
    two = lambda: FG.fconst(2.0)
    mul = lambda e: LoopIR.BinOp("*", two(), e, T.f32, FG.ESRC)
    a0 = assign("a0", w.X, [cst(0)], 0.0)
    nested = g.choose([False, True], "second reduce in an if")
    r1 = reduce_("r1", w.X, [cst(0)], mul(rdbuf(w.W, [rd(w.I)])))
    loop = for_("loop", w.I, w.lit("lo"), w.lit("hi"),
                [reduce_("r0", w.X, [cst(0)], mul(rdbuf(w.Y, [rd(w.I)]))), assign("u0", w.Z, [cst(3)], 9.0),
                 if_("cf", w.cond("c"), [r1], [assign("e0", w.Z, [cst(2)], 8.0)]) if nested else r1])
    w.close([a0, loop], g_ctx(g))
    return {"assign_c": w.cur(a0), "loop_c": w.cur(loop), "__ghost__": {"w": w, "a0": a0, "loop": loop}}

install(c_lc, Spec(positional("assign_c", "loop_c"), focus=lambda a: [a.ghost.a0, a.ghost.loop],
                   expect=lambda a, rec: [(s, at_old_path(a, rec, s))
                                          for s in [a.ghost.a0, a.ghost.loop] + a.ghost.w.old.descendants(a.ghost.loop)]),
        checks=("Check_ExprEqvInContext",))


@_exo_proc
def _iw(n: size, x: f32[n, 16], y: f32[16], z: f32[8]):
    assert n > 8
    z[0] = 0.0
    z[1] = 1.0
    win = x[2, 0:16]
    win[0] = 1.0
    for i in seq(0, 16):
        win[i] += y[i]
        y[i] = win[i]
    z[2] = 2.0
    z[3] = 3.0


c_iw = prim("DoInlineWindow")

@c_iw.inputs
def _(g):
    w = FrontWorld(_iw._loopir_proc, ["pre0", "pre1", "win", "w0", "loop", "l0", "l1", "post0", "post1"])
    return {"window_cursor": w.cur(w.stmt("win")), "__ghost__": {"w": w}}

install(c_iw, Spec(positional("window_cursor"), focus=lambda a: [a.ghost.w.stmt("win")],
                   expect=lambda a, rec: [(a.ghost.w.stmt("win"), INVALID)]))


c_bc = prim("DoBindConfig")
c_bc.native_modules.add("exo.core.LoopIR_pprint")

@c_bc.inputs
def _(g):
    w = World(g)
    Sc = Sym("s")
    w.extra_args = [TG.buf_arg(Sc, [])]
    st = assign("st", w.X, [cst(0)], LoopIR.BinOp("*", rdbuf(Sc, []), FG.fconst(2.0), T.f32, FG.ESRC))
    where = g.choose(["block", "in a loop"], "where")
    focus = [st] if where == "block" else [for_("lp", w.I, w.lit("lo"), w.lit("hi"),
                                                [assign("l0", w.W, [cst(0)], 3.0), st, assign("l1", w.W, [cst(1)], 4.0)])]
    w.close(focus, g_ctx(g))
    from exo.core.configs import Config
    from exo.core.LoopIR import UAST
    cfgobj = g.ghost.setdefault("cfgobj", Config("CfgC06", [("a", UAST.F32())], False))
    ec = w.cur(st)._child_node("rhs")._child_node("lhs")
    return {"config": cfgobj, "field": "a", "expr_cursor": ec, "__ghost__": {"w": w, "st": st}}

install(c_bc, Spec(positional("config", "field", "expr_cursor"), focus=lambda a: [a.ghost.st]),
        checks=("Check_DeleteConfigWrite", "Check_Aliasing"))
