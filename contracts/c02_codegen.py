"""C02 - generated C computes what the procedure means (index arithmetic part).

Contracts on src/exo/backend/LoopIR_compiler.py: lift_to_cir, simplify_cir,
tensor_strides, get_strides, get_idx_offset, new_varname.  The emitted C text
of comp_cir / comp_e is validated by contracts/c02_ctext.py (ENGINES below).
Oracle: `ev` (floor semantics) and row-major layout.
"""
from __future__ import annotations
from collections import ChainMap
from pyvc.contract import contract
from pyvc import sym as S
from pyvc.sym import And, Or, Not, Implies, Ite
from pyvc.interp import Opaque
from contracts.ghost import ev, rho, opaque_expr, SRC, ev_binop
from contracts.c13_range import env_sound, g_env_for, _env_obj
from exo.core.LoopIR import LoopIR, T, CIR
from exo.core.prelude import Sym
from exo.backend import LoopIR_compiler as LC

F = "src/exo/backend/LoopIR_compiler.py"
ENGINES = ["contracts.c02_ctext:run"]
ASSUMPTIONS = [
    "index values and products of extents fit the C integer type used (machine arithmetic treated as mathematical outside exo_floor_div)",
    "exo_floor_div(a, b) is floor division for b > 0 (proved separately: contracts/c08_floor_div.py)",
    "statement-level lowering (comp_s), precision casts, memory macros and the C compiler are not covered",
]

# ----------------------------------------------------------------------------
# ghost: value of a CIR expression

def stride_val(name, dim):
    ctx = S.cur()
    tab = ctx.ghost.setdefault("stride", {})
    k = (id(name), dim)
    if k not in tab:
        tab[k] = ctx.fresh_int(f"stride_{name.name()}_{dim}")
    return tab[k]


class OpaqueCIR(CIR.expr, Opaque):
    _pyvc_sort = CIR.expr

    def __init__(self, name, evv, flag, not_ctors):
        object.__setattr__(self, "_pyvc_name", name)
        object.__setattr__(self, "_pyvc_ev", evv)
        object.__setattr__(self, "_pyvc_not", tuple(not_ctors))
        object.__setattr__(self, "is_non_neg", flag)

    def __repr__(self):
        return f"<opaque CIR {self._pyvc_name}>"

    __hash__ = lambda self: id(self)
    __eq__ = lambda a, b: a is b


def opaque_cir(g, name, not_ctors=(CIR.Const, CIR.USub)):
    v = g.int("cv_" + name)
    flag = g.choose([False, True], name + ".nn")
    if flag:
        g.assume(v >= 0)
    if g.concrete:
        s = Sym(name)
        g.ghost.setdefault("rho", {})[id(s)] = (s, v)
        return CIR.Read(s, flag)
    return OpaqueCIR(name, v, flag, not_ctors)


def cev(e):
    if isinstance(e, OpaqueCIR):
        return e._pyvc_ev
    if isinstance(e, CIR.Read):
        return rho(e.name)
    if isinstance(e, CIR.Const):
        return e.val
    if isinstance(e, CIR.Stride):
        return stride_val(e.name, e.dim)
    if isinstance(e, CIR.USub):
        return -cev(e.arg)
    if isinstance(e, CIR.BinOp):
        return ev_binop(e.op, cev(e.lhs), cev(e.rhs))
    raise AssertionError(f"cev: {type(e).__name__}")


def flags_ok(e):
    """every node flagged non-negative really is (whole tree)"""
    if isinstance(e, OpaqueCIR):
        return True          # its own flag was assumed when it was created
    if isinstance(e, (CIR.Const, CIR.Stride)):
        return True
    if isinstance(e, CIR.Read):
        return Implies(e.is_non_neg, cev(e) >= 0) if e.is_non_neg is not False else True
    if isinstance(e, CIR.USub):
        return And(flags_ok(e.arg), Implies(e.is_non_neg, cev(e) >= 0))
    if isinstance(e, CIR.BinOp):
        return And(flags_ok(e.lhs), flags_ok(e.rhs), Implies(e.is_non_neg, cev(e) >= 0))
    raise AssertionError


def consts_integral(e):
    if isinstance(e, CIR.Const):
        from pyvc.interp import py_isinstance
        return py_isinstance(e.val, int)
    if isinstance(e, CIR.USub):
        return consts_integral(e.arg)
    if isinstance(e, CIR.BinOp):
        return consts_integral(e.lhs) and consts_integral(e.rhs)
    return True


# ----------------------------------------------------------------------------
# lift_to_cir

def make_lift_contract(prop, name=None):
    c = contract(prop, F, "lift_to_cir", name=name)
    return c

clc = make_lift_contract("C02")

def _g_lift_expr(g):
    k = g.choose(["Read", "Const", "USub", "BinOp+", "BinOp-", "BinOp*", "BinOp/", "BinOp%"], "expr")
    # the front end types compound expressions too (e.g. `N - 8` is a `size`):
    # the type must not influence the non-negativity flag
    ty = g.choose([T.index, T.size], "type")
    if k == "Read":
        return LoopIR.Read(g.ghost["sym"], [], ty, SRC)
    if k == "Const":
        return LoopIR.Const(g.int("c"), T.int, SRC)
    if k == "USub":
        return LoopIR.USub(opaque_expr(g, "arg", not_ctors=()), ty, SRC)
    op = k[5:]
    rhs = LoopIR.Const(g.pos("d"), T.int, SRC) if op in ("/", "%") else opaque_expr(g, "rhs", not_ctors=())
    return LoopIR.BinOp(op, opaque_expr(g, "lhs", not_ctors=()), rhs, ty, SRC)

@clc.inputs
def _(g):
    sym = Sym("s")
    g.ghost["sym"] = sym
    env = g_env_for(g, sym)
    return {"e": _g_lift_expr(g), "range_env": _env_obj(g, env)}

@clc.requires
def _(a):
    return env_sound(dict(a.range_env.env))

@clc.ensures("lifted expression has the same value")
def _(a):
    return cev(a.result) == ev(a.e)

@clc.ensures("a node is flagged non-negative only if it is")
def _(a):
    return flags_ok(a.result)

def _lift_rec(g, a):
    if isinstance(a.e, LoopIR.Const):
        return CIR.Const(a.e.val)
    return opaque_cir(g, "l_" + getattr(a.e, "_pyvc_name", "e"), not_ctors=())

clc.callee("lift_to_cir", result=_lift_rec, ensures=lambda a: cev(a.result) == ev(a.e),
           assumed=False, note="induction hypothesis")
clc.callee("IndexRangeEnvironment.check_expr_bound",
           result=lambda g, a: g.bool("nonneg"),
           requires=lambda a: env_sound(dict(a.self.env)),
           ensures=lambda a: Implies(a.result, {"<": ev(a.expr0) < ev(a.expr1), "<=": ev(a.expr0) <= ev(a.expr1),
                                                "==": ev(a.expr0) == ev(a.expr1)}[a.op]),
           assumed=False, note="proved under C13")


# ----------------------------------------------------------------------------
# simplify_cir

csc = contract("C02", F, "simplify_cir")

def _g_cir(g):
    k = g.choose(["Read", "Const", "Stride", "USub", "BinOp+", "BinOp-", "BinOp*", "BinOp/", "BinOp%"], "cir")
    if k == "Read":
        return CIR.Read(Sym("x"), False)
    if k == "Const":
        return CIR.Const(g.int("c"))
    if k == "Stride":
        return CIR.Stride(Sym("w"), 0)
    if k == "USub":
        return CIR.USub(opaque_cir(g, "arg", not_ctors=()), False)
    op = k[5:]
    def operand(nm):
        if g.choose(["opaque", "literal"], nm + ".kind") == "literal":
            return CIR.Const(g.int(nm + "_c"))
        return opaque_cir(g, nm, not_ctors=())
    lhs = operand("lhs")
    rhs = CIR.Const(g.pos("d")) if op in ("/", "%") else operand("rhs")
    e = CIR.BinOp(op, lhs, rhs, g.choose([False, True], "nn"))
    return e

@csc.inputs
def _(g):
    return {"e": _g_cir(g)}

@csc.requires
def _(a):
    return flags_ok(a.e)

@csc.ensures("simplified expression has the same value")
def _(a):
    return cev(a.result) == cev(a.e)

@csc.ensures("only integer constants are produced")
def _(a):
    return consts_integral(a.result)

@csc.ensures("non-negativity flags stay truthful")
def _(a):
    return flags_ok(a.result)

def _simp_rec(g, a):
    """Induction hypothesis: what simplify_cir may return for a sub-expression.
    Products and sums are spelled out as shapes so that rules which look one
    level into a simplified operand are followed instead of being undecided."""
    if isinstance(a.e, (CIR.Const, CIR.Read, CIR.Stride)):
        return a.e
    k = g.choose(["const", "usub", "other", "const*e", "e*const", "e+e"], "rec")
    if k == "const":
        return CIR.Const(g.int("rc"))
    if k == "usub":
        return CIR.USub(opaque_cir(g, "ru", not_ctors=()), False)
    if k == "other":
        return opaque_cir(g, "ro", not_ctors=(CIR.Const, CIR.USub, CIR.BinOp))
    leaf = lambda nm: opaque_cir(g, nm, not_ctors=(CIR.Const, CIR.USub, CIR.BinOp))
    if k == "const*e":
        return CIR.BinOp("*", CIR.Const(g.int("rk")), leaf("rm"), False)
    if k == "e*const":
        return CIR.BinOp("*", leaf("rm"), CIR.Const(g.int("rk")), False)
    return CIR.BinOp("+", leaf("rp"), leaf("rq"), False)

csc.callee("simplify_cir", result=_simp_rec,
           ensures=lambda a: And(cev(a.result) == cev(a.e), flags_ok(a.result)),
           assumed=False, note="induction hypothesis")
csc.raises(AssertionError, when=lambda a: False, label="no assertion failure on well-typed input")


# ----------------------------------------------------------------------------
# strides and offsets (row-major)

def mk_compiler(g, known=None):
    o = object.__new__(LC.Compiler)
    o.range_env = _env_obj(g, {})
    o._known_strides = known or {}
    return o

def _dims(g, n):
    return [opaque_expr(g, f"n{i}", not_ctors=()) for i in range(n)]

def prod(xs):
    r = 1
    for x in xs:
        r = r * x
    return r

cts = contract("C02", F, "Compiler.tensor_strides")

@cts.inputs
def _(g):
    n = g.choose([1, 2, 3, 4], "rank")
    return {"self": mk_compiler(g), "shape": _dims(g, n)}

@cts.ensures("strides are the row-major products of the trailing extents")
def _(a):
    n = len(a.shape)
    ok = [len(a.result) == n]
    for k in range(n):
        ok.append(cev(a.result[k]) == prod([ev(d) for d in a.shape[k + 1:]]))
    return And(ok)

_LIFT_CALLEE = dict(result=lambda g, a: opaque_cir(g, "lift_" + getattr(a.e, "_pyvc_name", "e"), not_ctors=()),
                    ensures=lambda a: cev(a.result) == ev(a.e), assumed=False, note="proved above")
cts.callee("lift_to_cir", **_LIFT_CALLEE)


cgo = contract("C02", F, "Compiler.get_idx_offset")

@cgo.inputs
def _(g):
    n = g.choose([1, 2, 3], "rank")
    name = Sym("buf")
    kind = g.choose(["tensor", "window", "window_known_stride"], "kind")
    dims = _dims(g, n)
    typ = T.Tensor(dims, kind != "tensor", T.f32)
    known = {}
    if kind == "window_known_stride":
        known[(name, n - 1)] = CIR.Const(1)
    idx = [opaque_cir(g, f"i{k}", not_ctors=()) for k in range(n)]
    return {"self": mk_compiler(g, known), "name": name, "typ": typ, "idx": idx,
            "__ghost__": {"kind": kind, "dims": dims}}

@cgo.ensures("offset is the sum of index times stride")
def _(a):
    n = len(a.idx)
    tot = 0
    for k in range(n):
        if a.ghost.kind == "tensor":
            st = prod([ev(d) for d in a.ghost.dims[k + 1:]])
        elif a.ghost.kind == "window_known_stride" and k == n - 1:
            st = 1
        else:
            st = stride_val(a.name, k)
        tot = tot + cev(a.idx[k]) * st
    return cev(a.result) == tot

cgo.callee("lift_to_cir", **_LIFT_CALLEE)


# ----------------------------------------------------------------------------
# new_varname: C names of live symbols are pairwise distinct

cnv = contract("C02", F, "Compiler.new_varname", kind="bounded")

_NAMES = ["x", "x_1", "x_2", "y"]

@cnv.inputs
def _(g):
    # a scope chain with up to three symbols already named, then one more
    o = object.__new__(LC.Compiler)
    o.names, o.env, o.envtyp, o.mems = ChainMap(), ChainMap(), ChainMap(), {}
    n = g.choose([0, 1, 2, 3], "live")
    hist = []
    for i in range(n):
        nm = g.choose(_NAMES, f"name{i}")
        if g.choose([False, True], f"scope{i}"):
            o.names, o.env = o.names.new_child(), o.env.new_child()
        hist.append(Sym(nm))
    return {"self": o, "symbol": Sym(g.choose(_NAMES, "new")), "typ": T.f32,
            "__ghost__": {"hist": hist}}

def _run_hist(it_call, a):
    for s in a.ghost.hist:
        it_call(s)

cnv.entry = lambda g, it, fn, a: ([it.call(fn, [a.self, s, T.f32]) for s in a.ghost.hist],
                                  it.call(fn, [a.self, a.symbol, a.typ]))[1]
cnv.native_entry = lambda g, fn, a: ([fn(a.self, s, T.f32) for s in a.ghost.hist],
                                     fn(a.self, a.symbol, a.typ))[1]

@cnv.ensures("the new C name differs from the C name of every live symbol")
def _(a):
    others = [a.self.env[s] for s in a.ghost.hist]
    return a.result not in others and a.self.env[a.symbol] == a.result

cnv.note("names are concrete strings: all sequences of up to 3 prior declarations over "
         "{x, x_1, x_2, y} with arbitrary scope pushes (bounded in length)")


# ----------------------------------------------------------------------------
# get_strides on a derived window (created by a window statement / expression)
#
# Dimension i of a window over x with index pattern idx is the i-th *interval*
# dimension of x; its stride is x's stride in that dimension.  A result entry
# is either the run-time field CIR.Stride(name, i) (filled by
# window_struct_fields with exactly that stride, see the C-text engine) or a
# constant, which must then equal that stride given the stride assertions.

cgs = contract("C02", F, "Compiler.get_strides", name=F + "::Compiler.get_strides[derived window]")

@cgs.inputs
def _(g):
    import itertools
    x, y = Sym("x"), Sym("y")
    rank = 3
    pats = [p for p in itertools.product("PI", repeat=rank) if "I" in p]
    pat = g.choose(pats, "window pattern")
    dims = [LoopIR.Const(8, T.int, SRC) for _ in range(rank)]
    src_t = T.Tensor(dims, True, T.f32)
    idx, kept = [], []
    for d, k in enumerate(pat):
        if k == "P":
            idx.append(LoopIR.Point(LoopIR.Const(1, T.int, SRC), SRC))
        else:
            idx.append(LoopIR.Interval(LoopIR.Const(0, T.int, SRC), LoopIR.Const(4, T.int, SRC), SRC))
            kept.append(d)
    as_t = T.Tensor([LoopIR.Const(4, T.int, SRC) for _ in kept], True, T.f32)
    wt = T.Window(src_t, as_t, x, idx)
    # stride assertions on the source: any subset of its dimensions
    known = {}
    for d in range(rank):
        if g.choose([False, True], f"assert stride(x,{d})"):
            c = g.int(f"sx{d}")
            known[(x, d)] = CIR.Const(c)
            g.assume(stride_val(x, d) == c)
    # the window's run-time stride fields hold the source's strides of the kept dims
    tab = g.ctx.ghost.setdefault("stride", {})
    for i, d in enumerate(kept):
        tab[(id(y), i)] = stride_val(x, d)
    return {"self": mk_compiler(g, known), "name": y, "typ": wt, "__ghost__": {"kept": kept, "x": x}}

@cgs.ensures("every stride of the window equals the source's stride of the corresponding interval dimension")
def _(a):
    ok = [len(a.result) == len(a.ghost.kept)]
    for i, d in enumerate(a.ghost.kept):
        ok.append(cev(a.result[i]) == stride_val(a.ghost.x, d))
    return And(ok)
