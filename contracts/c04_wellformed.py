"""C04 - scheduling never breaks safety or well-formedness.

Three groups of contracts on src/exo/rewrite/LoopIR_scheduling.py (and DoReplace
in LoopIR_unification.py).  The real `Do*` source is interpreted by pyvc on real
front-end built procedures whose integer literals (extents, indices, quotients,
offsets) are symbolic; the cursor library and the pattern matcher run natively
(C06 / C16), the `Check_*` analyses are replaced by ghost recorders whose success
postcondition is assumed (their own soundness is C03 / C09 / C13).

(A) index remaps, for ALL values: divide_dim, mult_dim, fold, unroll_buffer,
    resize_dim, expand_dim, rearrange_dim - value of every remapped index
    (oracle: `ev`, floor semantics), range, injectivity, new shape, and the
    frame (nothing but the buffer's type and its accesses changes).
(B) call protocol: Check_Bounds(final ir, new allocation, rest of block) on
    every normal return of expand_dim / resize_dim / fold / stage_mem;
    Check_Aliasing on the result of bind_expr / bind_config / call_eqv /
    replace / extract_subproc; the call-site check of insert_noop_call (F23).
(C) well-scopedness of the results of the allocation-moving and block-copying
    rewrites (ghost checker `scope_report` over the real result tree).

Unbounded: all integer values.  Bounded: the procedures (fixed family below),
ranks <= 3, every dimension position.
"""
from __future__ import annotations
from pyvc.contract import contract
from pyvc import sym as S
from pyvc.sym import And, Or, Not, Implies
from contracts.ghost import ev, rho, opaque_expr
from contracts.frame_ghost import (same, same_proc, rebuild, rebuild_proc, walk, nodes_of, cursor_to, fields, is_node,
                                   with_symbolic_literals, first_difference, scope_report,
                                   events, Events, patched, SRC, find_alloc, find_loop, find_stmt, find_arg)
from exo import proc, DRAM, instr, config
from exo.core.LoopIR import LoopIR, T
from exo.core.prelude import Sym
from exo.core import internal_cursors as IC
from exo.rewrite.new_eff import SchedulingError
from exo.rewrite import LoopIR_scheduling as LS
import exo.API as API

FS = "src/exo/rewrite/LoopIR_scheduling.py"
FU = "src/exo/rewrite/LoopIR_unification.py"

NATIVE = ("exo.core.internal_cursors", "exo.frontend.pattern_match", "exo.core.proc_eqv", "exo.API_cursors")

ASSUMPTIONS = [
    "C04: the cursor library and the pattern matcher run natively on the concrete trees (C06 / C16)",
    "C04: a Check_* call that returns normally establishes its documented condition (Check_ExprBound: `expr op value` "
    "holds in the context; Check_Bounds: every access of the allocation in the block is inside it; Check_Aliasing: no "
    "call passes one buffer twice); their soundness is the subject of C03",
    "C04: Alpha_Rename and SubstArgs are executed (natively), not assumed; their results are checked by the scoping "
    "oracle on every run",
    "C04: procedures are a fixed family (contracts/c04_wellformed.py); ranks <= 3; all integer literals, quotients, "
    "sizes and offsets symbolic unless the rewrite itself requires a literal",
    "C04: 'reads no uninitialised value' (data-flow) is not covered",
]


# ----------------------------------------------------------------------------
# Check_* stubs (symbolic run: callee contracts; replay: monkey-patched recorders)

def _cmp(op, v, w):
    return {"<": v < w, "<=": v <= w, ">": v > w, ">=": v >= w, "==": v == w}[op]


def _expr_bound_post(a):
    """success postcondition of Check_ExprBound(proc, stmts, expr, op, value)"""
    try:
        return _cmp(a.op, ev(a.expr), a.value)
    except AssertionError:
        return True


def _stub_raise(exc):
    """raise `exc` as an exception of the program under verification (symbolic run) or natively (replay)"""
    from pyvc.interp import ProgExc, _ACTIVE
    if _ACTIVE:
        raise ProgExc(exc)
    raise exc


def _eqv_in_context(g, a):
    # insert_safety_guards asks whether a guard condition is provable; one answer per path (ghost flag)
    if g.ghost.get("guards", "provable") == "unprovable":
        _stub_raise(SchedulingError("stub: not provable"))
    return None


CHECKS = {
    # name: (parameters logged, value returned)
    "Check_ExprBound": (["proc", "stmts", "expr", "op", "value"], lambda g, a: None),
    "Check_Bounds": (["proc", "alloc_stmt", "block"], lambda g, a: None),
    "Check_Aliasing": (["proc"], lambda g, a: None),
    "Check_IsDeadAfter": (["proc", "stmts", "bufname", "ndim"],
                          lambda g, a: _dead_after(g, a) if g.ghost.get("dead_model") else None),
    "Check_IsIdempotent": (["proc", "stmts"], lambda g, a: None),
    "Check_IsNonNegativeExpr": (["proc", "stmts", "expr"], lambda g, a: None),
    "Check_BufferReduceOnly": (["proc", "stmts", "buf", "ndim"], lambda g, a: None),
    "Check_DeleteConfigWrite": (["proc", "stmts"], lambda g, a: frozenset()),
    "Check_ExtendEqv": (["proc", "stmts0", "stmts1", "cfg_mod"], lambda g, a: frozenset()),
    "Check_ExprEqvInContext": (["proc", "expr0", "stmts0", "expr1"], _eqv_in_context),
    "Check_Access_In_Window": (["proc", "access_cursor", "w_exprs", "block_cursor"],
                               lambda g, a: g.ghost.get("in_window", True)),
}


def with_checks(c, *names, posts=None):
    """declare the named Check_* functions as recorded callees of contract c"""
    posts = posts or {}
    for nm in names:
        params, ret = CHECKS[nm]

        def result(g, a, nm=nm, params=params, ret=ret):
            events(g).add(nm, **{p: getattr(a, p, None) for p in params})
            return ret(g, a)
        post = posts.get(nm, _expr_bound_post if nm == "Check_ExprBound" else None)
        c.callee(nm, result=result, ensures=post, assumed=True,
                 note=f"{nm}: recorded; success postcondition assumed (C03)")
    c._checks = list(names)
    return c


def native_with_checks(c, call, module=LS):
    """replay entry: the real function runs natively with recorders in place of the Check_* functions"""
    def entry(g, fn, a):
        ev_ = events(g)
        stubs = {}
        for nm in getattr(c, "_checks", []):
            params, ret = CHECKS[nm]

            def stub(*args, nm=nm, params=params, ret=ret, **kw):
                import types
                rec = dict(zip(params, args))
                rec.update(kw)
                ev_.add(nm, **{p: rec.get(p) for p in params})
                return ret(g, types.SimpleNamespace(**rec))
            if hasattr(module, nm):
                stubs[nm] = stub
        with patched(module, stubs):
            return call(fn, a)
    return entry


def do_contract(qualname, file=FS, name=None, checks=(), module=LS, posts=None):
    c = contract("C04", file, qualname, name=name)
    c.native_modules.update(NATIVE)
    with_checks(c, *checks, posts=posts)
    c._module = module
    return c


def plain_call(c, params):
    """default replay: positional call of the real function with the recorded stubs"""
    c.native_entry = native_with_checks(c, lambda fn, a: fn(*[getattr(a, p) for p in params]),
                                        module=c._module)


def _reset(g):
    g.ghost.pop("events", None)


# ----------------------------------------------------------------------------
# frame helper: two trees equal except for the idx lists of the accesses of one buffer
# (and, optionally, the declaration of that buffer)

def is_access(n, name):
    return isinstance(n, (LoopIR.Read, LoopIR.WindowExpr, LoopIR.Assign, LoopIR.Reduce)) and n.name is name


def accesses(p, name):
    return [n for _, n in walk(p) if is_access(n, name)]


def same_except_accesses(new, old, name, decl_free=True, rename=None):
    """field-wise equality of two procedures where, at accesses of `name`, the fields idx (and name/type when
    `rename`) are not compared, and the type of the declaration of `name` is not compared"""
    def go(a, b):
        if a is b:
            return True
        if isinstance(a, list) or isinstance(b, list):
            if not (isinstance(a, list) and isinstance(b, list)) or len(a) != len(b):
                return False
            cs = [go(x, y) for x, y in zip(a, b)]
            return False if any(c is False for c in cs) else And(cs)
        if is_node(a) and is_node(b) and not isinstance(a, LoopIR.proc):
            if type(a) is not type(b):
                return False
            skip = {"srcinfo"}
            if is_access(b, name):
                skip |= {"idx"} | ({"name", "type"} if rename else set())
            if decl_free and isinstance(b, LoopIR.Alloc) and b.name is name:
                skip |= {"type"}
            cs = [go(getattr(a, f), getattr(b, f)) for f in fields(a) if f not in skip]
            return False if any(c is False for c in cs) else And(cs)
        return same(a, b)
    cs = [go(getattr(new, f), getattr(old, f)) for f in ("name", "args", "preds", "body", "instr")]
    return False if any(c is False for c in cs) else And(cs)


def paired_accesses(new, old, name, new_name=None):
    """accesses of `name` in old paired with the nodes at the same position in new"""
    want = [(p, n) for p, n in walk(old) if is_access(n, name)]
    got = dict(walk(new))
    out = []
    for p, n in want:
        m = got.get(p)
        if m is None or type(m) is not type(n):
            return None
        out.append((n, m))
    return out


def idx_vals(idx):
    """values of an access' indices; window coordinates give (lo, hi) pairs"""
    out = []
    for i in idx:
        if isinstance(i, LoopIR.Interval):
            out.append((ev(i.lo), ev(i.hi)))
        elif isinstance(i, LoopIR.Point):
            out.append(ev(i.pt))
        else:
            out.append(ev(i))
    return out


def vals_equal(x, y):
    if isinstance(x, tuple) != isinstance(y, tuple):
        return False
    if isinstance(x, tuple):
        return And(x[0] == y[0], x[1] == y[1])
    return x == y


# ----------------------------------------------------------------------------
# (A) index remaps
# ----------------------------------------------------------------------------

@proc
def _dim3(n: size, x: f32[n], y: f32[n]):
    assert n > 1100
    buf: f32[1001, 1002, 1003]
    other: f32[1001]
    for i in seq(0, 1001):
        for j in seq(0, 1002):
            for k in seq(0, 1003):
                buf[i, j, k] = x[i] + other[i]
                buf[i, j, k] += buf[104, j, 105] * y[k]
                other[i] = buf[i + 106 - 106, j, k]
    y[0] = buf[0, 1, 2]


@proc
def _dim2n(n: size, m: size, x: f32[n], y: f32[n]):
    buf: f32[n, m]
    for i in seq(0, n):
        for j in seq(0, m):
            buf[i, j] = x[i]
            y[i] += buf[i, j]


def _alloc_setup(g, P, positive=()):
    ir, leaves = with_symbolic_literals(g, P._loopir_proc, positive=positive)
    al = find_alloc(ir, "buf")
    return ir, leaves, al, cursor_to(ir, al)


# ---- divide_dim

cdd = do_contract("DoDivideDim", checks=("Check_ExprBound",))


@cdd.inputs
def _(g):
    _reset(g)
    pn = g.choose(["dim3", "dim2n"], "proc")
    ir, leaves, al, cur = _alloc_setup(g, {"dim3": _dim3, "dim2n": _dim2n}[pn], positive=(1001, 1002, 1003))
    d = g.choose(list(range(len(al.type.hi))), "dim_idx")
    q = g.pos("quotient")
    return {"alloc_cursor": cur, "dim_idx": d, "quotient": q, "__ghost__": {"ir": ir, "al": al}}


plain_call(cdd, ["alloc_cursor", "dim_idx", "quotient"])


def _new_alloc(ir, name):
    return [s for s in nodes_of(ir, LoopIR.Alloc) if s.name is name]


@cdd.ensures("new shape is [.., N/q, q, ..]: the two new extents multiply to the old one, the second is the quotient")
def _(a):
    ir, _ = a.result
    al, d, q = a.ghost.al, a.dim_idx, a.quotient
    new = _new_alloc(ir, al.name)
    if len(new) != 1:
        return False
    hi, old = new[0].type.hi, al.type.hi
    if len(hi) != len(old) + 1:
        return False
    N = ev(old[d])
    keep = And([same(x, y) for x, y in zip(hi[:d], old[:d])] + [same(x, y) for x, y in zip(hi[d + 2:], old[d + 1:])])
    return And(keep, ev(hi[d + 1]) == q, ev(hi[d]) * q == N, ev(hi[d]) == S.floordiv(N, q),
               isinstance(new[0].type.type, type(al.type.type)), new[0].mem is al.mem)


@cdd.ensures("every access buf[.., i, ..] becomes buf[.., i / q, i % q, ..]; other indices keep their position")
def _(a):
    ir, _ = a.result
    al, d, q = a.ghost.al, a.dim_idx, a.quotient
    prs = paired_accesses(ir, a.ghost.ir, al.name)
    if prs is None or not prs:
        return False
    cs = []
    for old, new in prs:
        if len(new.idx) != len(old.idx) + 1:
            return False
        i = ev(old.idx[d])
        cs.append(And(ev(new.idx[d]) == S.floordiv(i, q), ev(new.idx[d + 1]) == S.mod(i, q)))
        cs += [same(x, y) for x, y in zip(new.idx[:d], old.idx[:d])]
        cs += [same(x, y) for x, y in zip(new.idx[d + 2:], old.idx[d + 1:])]
    return And(cs)


@cdd.ensures("an index inside the old extent is mapped inside the new extents")
def _(a):
    ir, _ = a.result
    al, d, q = a.ghost.al, a.dim_idx, a.quotient
    if len(_new_alloc(ir, al.name)) != 1 or len(_new_alloc(ir, al.name)[0].type.hi) != len(al.type.hi) + 1:
        return False
    new = _new_alloc(ir, al.name)[0]
    N = ev(al.type.hi[d])
    cs = []
    for old, nw in (paired_accesses(ir, a.ghost.ir, al.name) or [(None, None)]):
        if old is None:
            return False
        i = ev(old.idx[d])
        hi_v, lo_v = ev(nw.idx[d]), ev(nw.idx[d + 1])
        cs.append(Implies(And(0 <= i, i < N),
                          And(0 <= hi_v, hi_v < ev(new.type.hi[d]), 0 <= lo_v, lo_v < ev(new.type.hi[d + 1]))))
    return And(cs)


@cdd.ensures("nothing but the buffer's type and the index lists of its accesses changes")
def _(a):
    ir, _ = a.result
    return same_except_accesses(ir, a.ghost.ir, a.ghost.al.name)


cdd.raises(SchedulingError, label="SchedulingError (not divisible / passed as argument / windowed) is a rejection")


def _coords_equal(n1, n2):
    return And([vals_equal(x, y) for x, y in zip(idx_vals(n1.idx), idx_vals(n2.idx))])


def injective_on_accesses(new_ir, old_ir, name):
    """any two accesses of the buffer that denote the same cell after the rewrite denoted the same cell before
    (the index values of the procedure's accesses are arbitrary integers, so this is injectivity of the remap)"""
    prs = paired_accesses(new_ir, old_ir, name)
    if prs is None:
        return False
    cs = []
    for x in range(len(prs)):
        for y in range(x + 1, len(prs)):
            (o1, n1), (o2, n2) = prs[x], prs[y]
            if len(n1.idx) != len(n2.idx) or len(o1.idx) != len(o2.idx):
                continue
            cs.append(Implies(_coords_equal(n1, n2), _coords_equal(o1, o2)))
    return And(cs)


@cdd.ensures("the remap is injective: accesses of different cells stay accesses of different cells")
def _(a):
    ir, _ = a.result
    return injective_on_accesses(ir, a.ghost.ir, a.ghost.al.name)


# ---- mult_dim

cmd = do_contract("DoMultiplyDim")


@cmd.inputs
def _(g):
    _reset(g)
    ir, leaves, al, cur = _alloc_setup(g, _dim3, positive=(1001, 1002, 1003))
    hi_idx, lo_idx = g.choose([(0, 1), (1, 0), (0, 2), (2, 0), (1, 2), (2, 1)], "hi_idx,lo_idx")
    return {"alloc_cursor": cur, "hi_idx": hi_idx, "lo_idx": lo_idx, "__ghost__": {"ir": ir, "al": al}}


plain_call(cmd, ["alloc_cursor", "hi_idx", "lo_idx"])


def _md_positions(n, hi_idx, lo_idx):
    """positions of the surviving dimensions: old index -> new index (lo_idx disappears)"""
    return {k: (k if k < lo_idx else k - 1) for k in range(n) if k != lo_idx}


@cmd.ensures("new shape: the product of the two extents at the position of hi_idx, lo_idx dropped, others kept")
def _(a):
    ir, _ = a.result
    al, h, l = a.ghost.al, a.hi_idx, a.lo_idx
    new = _new_alloc(ir, al.name)
    if len(new) != 1:
        return False
    hi, old = new[0].type.hi, al.type.hi
    if len(hi) != len(old) - 1:
        return False
    pos = _md_positions(len(old), h, l)
    cs = [ev(hi[pos[h]]) == ev(old[h]) * ev(old[l])]
    cs += [same(hi[pos[k]], old[k]) for k in pos if k != h]
    return And(cs)


@cmd.ensures("every access buf[.., hi, .., lo, ..] becomes buf[.., c*hi + lo, ..] (c the extent of lo_idx); "
             "other indices keep their relative position")
def _(a):
    ir, _ = a.result
    al, h, l = a.ghost.al, a.hi_idx, a.lo_idx
    c_ = ev(al.type.hi[l])
    prs = paired_accesses(ir, a.ghost.ir, al.name)
    if not prs:
        return False
    cs = []
    for old, new in prs:
        if len(new.idx) != len(old.idx) - 1:
            return False
        pos = _md_positions(len(old.idx), h, l)
        cs.append(ev(new.idx[pos[h]]) == c_ * ev(old.idx[h]) + ev(old.idx[l]))
        cs += [same(new.idx[pos[k]], old.idx[k]) for k in pos if k != h]
    return And(cs)


@cmd.ensures("indices inside the old extents are mapped inside the new extent: 0 <= c*hi + lo < c*H")
def _(a):
    ir, _ = a.result
    al, h, l = a.ghost.al, a.hi_idx, a.lo_idx
    if len(_new_alloc(ir, al.name)) != 1 or len(_new_alloc(ir, al.name)[0].type.hi) != len(al.type.hi) - 1:
        return False
    new = _new_alloc(ir, al.name)[0]
    pos = _md_positions(len(al.type.hi), h, l)
    H, c_ = ev(al.type.hi[h]), ev(al.type.hi[l])
    cs = []
    for old, nw in (paired_accesses(ir, a.ghost.ir, al.name) or [(None, None)]):
        if old is None:
            return False
        hv, lv = ev(old.idx[h]), ev(old.idx[l])
        v = ev(nw.idx[pos[h]])
        S.cut(Implies(And(0 <= hv, hv < H, 0 <= lv, lv < c_), c_ * hv + lv <= c_ * (H - 1) + (c_ - 1)),
              "c*hi + lo <= c*(H-1) + c-1")
        cs.append(Implies(And(0 <= hv, hv < H, 0 <= lv, lv < c_), And(0 <= v, v < ev(new.type.hi[pos[h]]))))
    return And(cs)


@cmd.ensures("the remap is injective on in-range low indices: different cells stay different")
def _(a):
    ir, _ = a.result
    al, h, l = a.ghost.al, a.hi_idx, a.lo_idx
    c_ = ev(al.type.hi[l])
    prs = paired_accesses(ir, a.ghost.ir, al.name)
    if prs is None:
        return False
    cs = []
    for x in range(len(prs)):
        for y in range(x + 1, len(prs)):
            (o1, n1), (o2, n2) = prs[x], prs[y]
            l1, l2 = ev(o1.idx[l]), ev(o2.idx[l])
            inr = And(0 <= l1, l1 < c_, 0 <= l2, l2 < c_)
            cs.append(Implies(And(inr, _coords_equal(n1, n2)), _coords_equal(o1, o2)))
    return And(cs)


@cmd.ensures("nothing but the buffer's type and the index lists of its accesses changes")
def _(a):
    ir, _ = a.result
    return same_except_accesses(ir, a.ghost.ir, a.ghost.al.name)


cmd.raises(SchedulingError, label="SchedulingError (non-literal extent / passed as argument / windowed) is a rejection")


# ---- procedures with windows and a callee

@proc
def _wcallee(z: [f32][4]):
    z[0] = 0.0


@proc
def _rs(n: size, x: f32[n], y: f32[n]):
    assert n > 1100
    buf: f32[1001, 1002]
    u: f32
    for i in seq(0, 1001):
        for j in seq(0, 1002):
            buf[i, j] = x[i]
            y[j] += buf[i, j]
    w = buf[100:104, 105]
    w[1] = buf[106, 107]
    _wcallee(buf[108, 109:113])
    u = w[0]
    y[0] = u


def check_bounds_protocol(a, ir, name):
    """Check_Bounds was called, every call was on the FINAL ir, with the NEW allocation (the Alloc node of `name`
    in the final ir, or an equal one) and with the statements that follow it in its block, and it was the last
    Check_* call to see a procedure (nothing was edited afterwards)"""
    calls = events(a.g).calls("Check_Bounds")
    if not calls:
        return False
    allocs = [(p, s) for p, s in walk(ir) if isinstance(s, LoopIR.Alloc) and s.name is name]
    if len(allocs) != 1:
        return False
    path, al = allocs[0]
    blk = dict(walk(ir)).get(path[:-2]) if len(path) > 2 else ir
    rest = getattr(blk, path[-2])[path[-1] + 1:]
    cs = []
    for c in calls:
        if c["proc"] is not ir:
            return False
        blk_arg = c["block"]
        if len(blk_arg) != len(rest) or any(x is not y for x, y in zip(blk_arg, rest)):
            return False
        cs.append(same(c["alloc_stmt"], al))
    return And(cs)


# ---- resize_dim

def _idx_expr(g, kind, name):
    if kind == "literal":
        return LoopIR.Const(g.int(name), T.int, SRC)
    return opaque_expr(g, name, not_ctors=())


crs = do_contract("DoResizeDim", checks=("Check_ExprBound", "Check_Bounds"))


@crs.inputs
def _(g):
    _reset(g)
    ir, leaves, al, cur = _alloc_setup(g, _rs, positive=(1001, 1002))
    d = g.choose([0, 1], "dim_idx")
    size = _idx_expr(g, g.choose(["literal", "expr"], "size"), "size")
    off = _idx_expr(g, g.choose(["literal", "expr"], "offset"), "offset")
    return {"alloc_cursor": cur, "dim_idx": d, "size": size, "offset": off, "__ghost__": {"ir": ir, "al": al}}


plain_call(crs, ["alloc_cursor", "dim_idx", "size", "offset"])


def _shift_ok(new, old, d, f):
    """index lists agree except at d, where new = f(old) (points, interval ends alike)"""
    if len(new.idx) != len(old.idx):
        return False
    cs = []
    for k, (x, y) in enumerate(zip(idx_vals(new.idx), idx_vals(old.idx))):
        if isinstance(x, tuple) != isinstance(y, tuple):
            return False
        if k != d:
            cs.append(same(new.idx[k], old.idx[k]))
        elif isinstance(x, tuple):
            cs.append(And(x[0] == f(y[0]), x[1] == f(y[1])))
        else:
            cs.append(x == f(y))
    return And(cs)


@crs.ensures("the extent of that dimension becomes `size` (which was checked positive); other extents kept")
def _(a):
    ir, _ = a.result
    al, d = a.ghost.al, a.dim_idx
    new = _new_alloc(ir, al.name)
    if len(new) != 1 or len(new[0].type.hi) != len(al.type.hi):
        return False
    pos = [c for c in events(a.g).calls("Check_ExprBound") if c["expr"] is a.size and c["op"] == ">" and c["value"] == 0]
    return And([same(x, y) for k, (x, y) in enumerate(zip(new[0].type.hi, al.type.hi)) if k != d]
               + [new[0].type.hi[d] is a.size, len(pos) >= 1])


@crs.ensures("every access (read, write, reduce, window point and interval) is shifted by -offset in that dimension only")
def _(a):
    ir, _ = a.result
    prs = paired_accesses(ir, a.ghost.ir, a.ghost.al.name)
    if not prs:
        return False
    off = ev(a.offset)
    return And([_shift_ok(n, o, a.dim_idx, lambda v: v - off) for o, n in prs])


@crs.ensures("nothing but the buffer's type and the index lists of its accesses changes")
def _(a):
    ir, _ = a.result
    return same_except_accesses(ir, a.ghost.ir, a.ghost.al.name)


@crs.ensures("Check_Bounds was called on the final procedure, the new allocation and the rest of its block")
def _(a):
    ir, _ = a.result
    return check_bounds_protocol(a, ir, a.ghost.al.name)


# ---- expand_dim

cex = do_contract("DoExpandDim", checks=("Check_ExprBound", "Check_Bounds"))


@cex.inputs
def _(g):
    _reset(g)
    ir, leaves = with_symbolic_literals(g, _rs._loopir_proc, positive=(1001, 1002))
    al = find_alloc(ir, g.choose(["buf", "u"], "buffer"))
    dim = _idx_expr(g, g.choose(["literal", "expr"], "alloc_dim"), "alloc_dim")
    ix = _idx_expr(g, g.choose(["literal", "expr"], "indexing"), "indexing")
    return {"alloc_cursor": cursor_to(ir, al), "alloc_dim": dim, "indexing": ix, "__ghost__": {"ir": ir, "al": al}}


plain_call(cex, ["alloc_cursor", "alloc_dim", "indexing"])


@cex.ensures("the new extent (checked positive) is prepended to the shape; base type and memory kept")
def _(a):
    ir, _ = a.result
    al = a.ghost.al
    new = _new_alloc(ir, al.name)
    if len(new) != 1 or not isinstance(new[0].type, T.Tensor):
        return False
    hi = new[0].type.hi
    old = al.type.hi if isinstance(al.type, T.Tensor) else []
    pos = [c for c in events(a.g).calls("Check_ExprBound") if c["expr"] is a.alloc_dim and c["op"] == ">" and c["value"] == 0]
    return len(hi) == len(old) + 1 and hi[0] is a.alloc_dim and And([same(x, y) for x, y in zip(hi[1:], old)]) \
        and new[0].type.is_window is False and same(new[0].type.type, al.type.basetype()) and new[0].mem is al.mem \
        and len(pos) >= 1


@cex.ensures("every access gets the indexing expression prepended (a point coordinate for windows); old indices kept")
def _(a):
    ir, _ = a.result
    prs = paired_accesses(ir, a.ghost.ir, a.ghost.al.name)
    if not prs:
        return False
    cs = []
    for o, n in prs:
        if len(n.idx) != len(o.idx) + 1:
            return False
        first = n.idx[0]
        if isinstance(n, LoopIR.WindowExpr):
            if not isinstance(first, LoopIR.Point):
                return False
            first = first.pt
        cs.append(first is a.indexing)
        cs += [same(x, y) for x, y in zip(n.idx[1:], o.idx)]
    return And(cs)


@cex.ensures("nothing but the buffer's type and the index lists of its accesses changes")
def _(a):
    ir, _ = a.result
    return same_except_accesses(ir, a.ghost.ir, a.ghost.al.name)


@cex.ensures("Check_Bounds was called on the final procedure, the new allocation and the rest of its block")
def _(a):
    ir, _ = a.result
    return check_bounds_protocol(a, ir, a.ghost.al.name)


cex.raises(SchedulingError, label="SchedulingError (scalar passed to a call) is a rejection")


# ---- fold (circular buffer)

cfo = do_contract("DoFoldBuffer", checks=("Check_Bounds",))
cfo.callee("CheckFoldBuffer.do_stmts", result=lambda g, a: events(g).add("CheckFoldBuffer", stmts=a.stmts), assumed=True,
           note="access-window analysis of fold: recorded, not executed (its soundness is not part of this contract; "
                "the Check_Bounds call on the result is what the property relies on)")


@cfo.inputs
def _(g):
    _reset(g)
    ir, leaves, al, cur = _alloc_setup(g, _rs, positive=(1001, 1002))
    return {"alloc_cursor": cur, "dim_idx": g.choose([0, 1], "dim_idx"), "new_size": g.pos("new_size"),
            "__ghost__": {"ir": ir, "al": al}}


def _native_fold(fn, a):
    with patched(LS.CheckFoldBuffer, {"do_stmts": lambda self, stmts: None}):
        return fn(a.alloc_cursor, a.dim_idx, a.new_size)


cfo.native_entry = native_with_checks(cfo, _native_fold)


@cfo.ensures("the extent of that dimension becomes the literal new size; other extents kept")
def _(a):
    ir, _ = a.result
    al, d = a.ghost.al, a.dim_idx
    new = _new_alloc(ir, al.name)
    if len(new) != 1 or len(new[0].type.hi) != len(al.type.hi):
        return False
    return And([same(x, y) for k, (x, y) in enumerate(zip(new[0].type.hi, al.type.hi)) if k != d]
               + [isinstance(new[0].type.hi[d], LoopIR.Const), ev(new[0].type.hi[d]) == a.new_size])


@cfo.ensures("every index of that dimension becomes i % size, which lies in [0, size); other indices kept")
def _(a):
    ir, _ = a.result
    prs = paired_accesses(ir, a.ghost.ir, a.ghost.al.name)
    if not prs:
        return False
    sz, d = a.new_size, a.dim_idx
    cs = [_shift_ok(n, o, d, lambda v: S.mod(v, sz)) for o, n in prs]
    for o, n in prs:
        v = idx_vals(n.idx)[d]
        for x in (v if isinstance(v, tuple) else (v,)):
            cs.append(And(0 <= x, x < sz))
    return And(cs)


@cfo.ensures("nothing but the buffer's type and the index lists of its accesses changes")
def _(a):
    ir, _ = a.result
    return same_except_accesses(ir, a.ghost.ir, a.ghost.al.name)


@cfo.ensures("Check_Bounds was called on the final procedure, the new allocation and the rest of its block")
def _(a):
    ir, _ = a.result
    return check_bounds_protocol(a, ir, a.ghost.al.name)


# ---- unroll_buffer

@proc
def _ub(n: size, x: f32[n], y: f32[n]):
    assert n > 1100
    buf: f32[3, 1002]
    one: f32[1]
    for j in seq(0, 1002):
        buf[0, j] = x[j]
        buf[2, j] = buf[0, j]
        y[j] += buf[2, 105]
    w = buf[0, 100:104]
    w[1] = 1.0
    one[0] = 2.0
    y[1] = one[0]
    _wcallee(buf[2, 109:113])


@proc
def _ub_mid(n: size, x: f32[n], y: f32[n]):
    assert n > 1100
    buf: f32[1001, 2, 1003]
    for i in seq(0, 1001):
        for k in seq(0, 1003):
            buf[i, 1, k] = x[i]
            y[k] += buf[i, 1, k] + buf[i, 0, 106]
            buf[i, 0, k] = 0.0


cub = do_contract("DoUnrollBuffer")


@cub.inputs
def _(g):
    _reset(g)
    pn, bn, dim = g.choose([("ub", "buf", 0), ("ub", "one", 0), ("ub_mid", "buf", 1)], "proc,buffer,dim")
    P = {"ub": _ub, "ub_mid": _ub_mid}[pn]
    ir, leaves = with_symbolic_literals(g, P._loopir_proc, only=set(range(100, 2000)), positive=(1001, 1002, 1003))
    al = find_alloc(ir, bn)
    return {"alloc_cursor": cursor_to(ir, al), "dim": dim, "__ghost__": {"ir": ir, "al": al}}


plain_call(cub, ["alloc_cursor", "dim"])


def _ub_pairs(a):
    """(old access, node at the same place in the result)"""
    ir, _ = a.result
    want = [(p, n) for p, n in walk(a.ghost.ir) if is_access(n, a.ghost.al.name)]
    got = dict(walk(ir))
    # the single Alloc is replaced by k Allocs: statement positions after it in the same block shift by k - 1
    apath = [p for p, n in walk(a.ghost.ir) if n is a.ghost.al][0]
    k = len([s for s in nodes_of(ir, LoopIR.Alloc) if s.name.name().startswith(a.ghost.al.name.name() + "_")])
    out = []
    for p, n in want:
        q = list(p)
        if len(p) >= len(apath) and tuple(p[:len(apath) - 1]) == tuple(apath[:-1]) and p[len(apath) - 1] > apath[-1]:
            q[len(apath) - 1] = p[len(apath) - 1] + k - 1
        m = got.get(tuple(q))
        if m is None or type(m) is not type(n):
            return None
        out.append((n, m))
    return out


@cub.ensures("a constant index c selects the c-th new buffer: equal constants give the same buffer, different "
             "constants different buffers, the name records the constant, 0 <= c < extent")
def _(a):
    prs = _ub_pairs(a)
    if not prs:
        return False
    d, base = a.dim, a.ghost.al.name.name()
    size = a.ghost.al.type.hi[d].val
    chosen = {}
    for o, n in prs:
        ix = o.idx[d]
        c_ = ix.pt.val if isinstance(ix, LoopIR.Point) else ix.val
        if not (0 <= c_ < size) or n.name.name() != f"{base}_{c_}":
            return False
        if chosen.setdefault(c_, n.name) is not n.name:
            return False
    return len(set(map(id, chosen.values()))) == len(chosen)


@cub.ensures("that dimension is removed from every access and from the type of every new buffer consistently")
def _(a):
    ir, _ = a.result
    prs = _ub_pairs(a)
    d, al = a.dim, a.ghost.al
    cs = []
    for o, n in prs:
        if len(n.idx) != len(o.idx) - 1:
            return False
        cs += [same(x, y) for x, y in zip(n.idx, o.idx[:d] + o.idx[d + 1:])]
    names = {id(n.name): n.name for _, n in prs}
    allocs = [s for s in nodes_of(ir, LoopIR.Alloc) if id(s.name) in names]
    if len(allocs) != len(names) or any(s.name is al.name for s in nodes_of(ir, LoopIR.Alloc)):
        return False
    rest = al.type.hi[:d] + al.type.hi[d + 1:]
    for s in allocs:
        if rest:
            if not isinstance(s.type, T.Tensor) or len(s.type.hi) != len(rest):
                return False
            cs += [same(x, y) for x, y in zip(s.type.hi, rest)] + [same(s.type.type, al.type.type)]
        else:
            cs.append(same(s.type, al.type.type))
        cs.append(s.mem is al.mem)
    return And(cs)


@cub.ensures("the result is well scoped: every new buffer is declared exactly once, before its uses")
def _(a):
    ir, _ = a.result
    return scope_report(ir).ok(unique_binders=True)


cub.raises(SchedulingError, label="SchedulingError (non-constant access / windowed dimension / scalar) is a rejection")


# ---- rearrange_dim on an allocation, every permutation of three dimensions

@proc
def _rd(n: size, x: f32[n], y: f32[n]):
    assert n > 1100
    buf: f32[1001, 1002, 1003]
    for i in seq(0, 1001):
        for j in seq(0, 1002):
            for k in seq(0, 1003):
                buf[i, j, k] = x[i]
                y[k] += buf[i, j, k] * buf[104, 105, 106]
    w = buf[100, 101:103, 107]
    w[1] = 1.0


from contracts.frame_ghost import rearrange_expected

crd = do_contract("DoRearrangeDim")


@crd.inputs
def _(g):
    _reset(g)
    ir, leaves, al, cur = _alloc_setup(g, _rd, positive=(1001, 1002, 1003))
    perm = g.choose([[0, 1, 2], [0, 2, 1], [1, 0, 2], [1, 2, 0], [2, 0, 1], [2, 1, 0]], "permutation")
    return {"decl_cursor": cur, "permute_vector": perm, "__ghost__": {"ir": ir, "al": al}}


plain_call(crd, ["decl_cursor", "permute_vector"])


@crd.ensures("shape and every access (read, write, reduce, window) are permuted by the same permutation; "
             "nothing else changes")
def _(a):
    ir, _ = a.result
    return same_proc(ir, rearrange_expected(a.ghost.ir, a.ghost.al.name, a.permute_vector))


# ---- stage_mem: call protocol and scoping

@proc
def _sm(n: size, x: f32[n], y: f32[n]):
    assert n > 1100
    for i in seq(0, 1001):
        y[i] = x[i] + y[i]
        y[i] += 1.0
    x[0] = y[100]


csm = do_contract("DoStageMem", checks=("Check_Bounds", "Check_Access_In_Window", "Check_ExprEqvInContext",
                                        "Check_BufferReduceOnly"))


@csm.inputs
def _(g):
    _reset(g)
    ir, leaves = with_symbolic_literals(g, _sm._loopir_proc, only=set(range(100, 2000)), positive=(1001,))
    loop = find_loop(ir, "i")
    how = g.choose(["interval around the loop", "point inside the loop", "point, reduce only",
                    "interval, not accessed there"], "window")
    g.ghost["guards"] = g.choose(["provable", "unprovable"], "bounds guards")
    g.ghost["in_window"] = how != "interval, not accessed there"
    accum = False
    if how.startswith("interval"):
        blk = cursor_to(ir, loop).as_block()
        w = [(LoopIR.Const(g.int("w_lo"), T.int, SRC), LoopIR.Const(g.int("w_hi"), T.int, SRC))]
    elif how == "point inside the loop":
        blk = cursor_to(ir, loop).body()
        w = [LoopIR.Read(loop.iter, [], T.index, SRC)]
    else:
        blk = cursor_to(ir, loop.body[1]).as_block()
        w = [LoopIR.Read(loop.iter, [], T.index, SRC)]
        accum = True
    return {"block_cursor": blk, "buf_name": "y", "w_exprs": w, "new_name": "y_tmp", "use_accum_zero": accum,
            "__ghost__": {"ir": ir, "how": how}}


plain_call(csm, ["block_cursor", "buf_name", "w_exprs", "new_name", "use_accum_zero"])


def _uses(stmts, name):
    return any(getattr(n, "name", None) is name for _, n in walk(list(stmts))
               if isinstance(n, (LoopIR.Read, LoopIR.WindowExpr, LoopIR.Assign, LoopIR.Reduce, LoopIR.StrideExpr)))


@csm.ensures("Check_Bounds was called on the final procedure, the new allocation and every following statement of "
             "its block that touches the staging buffer")
def _(a):
    ir, _ = a.result
    calls = events(a.g).calls("Check_Bounds")
    allocs = [(p, s) for p, s in walk(ir) if isinstance(s, LoopIR.Alloc) and s.name.name() == a.new_name]
    if not calls or len(allocs) != 1:
        return False
    path, al = allocs[0]
    blk = dict(walk(ir)).get(path[:-2]) if len(path) > 2 else ir
    rest = getattr(blk, path[-2])[path[-1] + 1:]
    for c in calls:
        b = c["block"]
        if c["proc"] is not ir or c["alloc_stmt"] is not al:
            return False
        if len(b) > len(rest) or any(x is not y for x, y in zip(b, rest)):
            return False
        if _uses(rest[len(b):], al.name):
            return False
    return True


@csm.ensures("the result is well scoped (staging buffer and copy loops declared once, every use in scope)")
def _(a):
    ir, _ = a.result
    return scope_report(ir).ok(unique_binders=True)


csm.raises(SchedulingError, when=lambda a: a.ghost.how == "interval, not accessed there",
           label="SchedulingError only if the buffer is not accessed inside the window")


# ----------------------------------------------------------------------------
# (B) Check_Aliasing on the result of the rewrites that create / change calls or bind expressions
# ----------------------------------------------------------------------------

@config
class Cfg04:
    a: f32


@proc
def _sub(n: size, p: f32[n], q: f32[n]):
    for i in seq(0, n):
        q[i] = p[i]


_sub_eqv = API.Procedure(_sub._loopir_proc.update(name="sub_eqv"), _provenance_eq_Procedure=_sub)


@proc
def _be(n: size, x: f32[n], y: f32[n], s: f32):
    assert n > 4
    for i in seq(0, n):
        y[i] = x[i] * 2.0 + s
        y[i] += x[i] * 2.0
    _sub(n, x, y)
    for k in seq(0, n):
        y[k] = x[k]


ALIAS_NATIVE = NATIVE + ("exo.core.LoopIR_pprint", "exo.core.LoopIR")


def aliasing_checked_on(a, ir):
    """Check_Aliasing was called on the final procedure"""
    return any(c["proc"] is ir for c in events(a.g).calls("Check_Aliasing"))


def _concrete_ir(g, P):
    _reset(g)
    return P._loopir_proc


# ---- bind_expr

cbe = do_contract("DoBindExpr", checks=("Check_Aliasing",))
cbe.native_modules.update(ALIAS_NATIVE)


@cbe.inputs
def _(g):
    ir = _concrete_ir(g, _be)
    muls = [n for n in nodes_of(ir, LoopIR.BinOp) if n.op == "*"]
    which = g.choose(["first", "both"], "expressions")
    cs = [cursor_to(ir, m) for m in (muls[:1] if which == "first" else muls[:2])]
    return {"new_name": "bound", "expr_cursors": cs, "__ghost__": {"ir": ir}}


cbe.native_entry = native_with_checks(cbe, lambda fn, a: fn(a.new_name, list(a.expr_cursors)))


@cbe.ensures("Check_Aliasing is run on the resulting procedure")
def _(a):
    ir, _ = a.result
    return aliasing_checked_on(a, ir)


@cbe.ensures("the result is well scoped (the new scalar is declared once, before its uses)")
def _(a):
    ir, _ = a.result
    return scope_report(ir).ok(unique_binders=True)


# ---- bind_config

cbc = do_contract("DoBindConfig", checks=("Check_Aliasing", "Check_DeleteConfigWrite"))
cbc.native_modules.update(ALIAS_NATIVE)


@cbc.inputs
def _(g):
    ir = _concrete_ir(g, _be)
    rd = [n for n in nodes_of(ir, LoopIR.Read) if n.name.name() == "s"][0]
    return {"config": Cfg04, "field": "a", "expr_cursor": cursor_to(ir, rd), "__ghost__": {"ir": ir}}


plain_call(cbc, ["config", "field", "expr_cursor"])


@cbc.ensures("Check_Aliasing is run on the resulting procedure")
def _(a):
    ir, _, _ = a.result
    return aliasing_checked_on(a, ir)


# ---- call_eqv

ccs = do_contract("DoCallSwap", checks=("Check_Aliasing", "Check_ExtendEqv"))
ccs.native_modules.update(ALIAS_NATIVE)


@ccs.inputs
def _(g):
    ir = _concrete_ir(g, _be)
    call = nodes_of(ir, LoopIR.Call)[0]
    return {"call_cursor": cursor_to(ir, call), "new_subproc": _sub_eqv._loopir_proc, "__ghost__": {"ir": ir}}


plain_call(ccs, ["call_cursor", "new_subproc"])


@ccs.ensures("Check_Aliasing is run on the resulting procedure")
def _(a):
    ir, _, _ = a.result
    return aliasing_checked_on(a, ir)


@ccs.ensures("only the callee of that call changes")
def _(a):
    ir, _, _ = a.result
    call = nodes_of(a.ghost.ir, LoopIR.Call)[0]
    want = rebuild_proc(a.ghost.ir, lambda n: n.update(f=a.new_subproc) if n is call else None)
    return same_proc(ir, want)


# ---- replace

import exo.rewrite.LoopIR_unification as LU

crp = do_contract("DoReplace", file=FU, checks=("Check_Aliasing",), module=LU)
crp.native_modules.update(ALIAS_NATIVE)
crp.native("Unification.__init__", "Unification.result", "Get_Live_Variables")


@crp.inputs
def _(g):
    ir = _concrete_ir(g, _be)
    loop = find_loop(ir, "k")
    return {"subproc": _sub._loopir_proc, "block_cursor": cursor_to(ir, loop).as_block(), "__ghost__": {"ir": ir}}


plain_call(crp, ["subproc", "block_cursor"])


@crp.ensures("Check_Aliasing is run on the resulting procedure")
def _(a):
    ir, _ = a.result
    return aliasing_checked_on(a, ir)


@crp.ensures("the block is replaced by one call to the given procedure; the result is well scoped")
def _(a):
    ir, _ = a.result
    calls = [c for c in nodes_of(ir, LoopIR.Call) if c.f is a.subproc]
    return len(calls) == 2 and scope_report(ir).ok(unique_binders=True)


# ---- extract_subproc

ces = do_contract("DoExtractSubproc", checks=("Check_Aliasing",))
ces.native_modules.update(ALIAS_NATIVE)


@ces.inputs
def _(g):
    ir = _concrete_ir(g, _be)
    loop = find_loop(ir, g.choose(["i", "k"], "loop"))
    what = g.choose(["loop", "body"], "block")
    blk = cursor_to(ir, loop).as_block() if what == "loop" else cursor_to(ir, loop).body()
    return {"block": blk, "subproc_name": "extracted", "include_asserts": g.choose([True, False], "asserts"),
            "__ghost__": {"ir": ir}}


plain_call(ces, ["block", "subproc_name", "include_asserts"])


@ces.ensures("no aliasing is introduced: Check_Aliasing saw the block (as part of the procedure it is cut from) and "
             "the new call passes pairwise distinct symbols, each declared by the new procedure")
def _(a):
    ir, _, sub = a.result
    seen = any(c["proc"] is a.ghost.ir or c["proc"] is ir for c in events(a.g).calls("Check_Aliasing"))
    calls = [c for c in nodes_of(ir, LoopIR.Call) if c.f is sub]
    if len(calls) != 1 or not seen:
        return False
    args = calls[0].args
    names = [e.name for e in args]
    return all(isinstance(e, LoopIR.Read) and len(e.idx) == 0 for e in args) \
        and len(set(map(id, names))) == len(names) and len(names) == len(sub.args)


@ces.ensures("both the remaining procedure and the extracted one are well scoped")
def _(a):
    ir, _, sub = a.result
    return scope_report(ir).ok() and scope_report(sub).ok()


# ----------------------------------------------------------------------------
# (C) well-scopedness of the results of the allocation-moving / block-copying rewrites
# ----------------------------------------------------------------------------
# Input procedures come from the front end: every symbol has exactly one binder.  Clause 1: every use lies in the
# scope of exactly one declaration and nothing is re-declared inside its own scope.  Clause 2 (copying rewrites):
# binders stay globally unique, i.e. every copied block went through Alpha_Rename.

LOOPIR_NATIVES = ("Alpha_Rename.__init__", "Alpha_Rename.result", "SubstArgs.__init__", "SubstArgs.result",
                  "LoopIR_Dependencies.__init__", "LoopIR_Dependencies.result", "get_reads_of_stmts",
                  "get_writes_of_stmts", "get_reads_of_expr", "is_const_zero", "_FV")


def scope_contract(qualname, checks=(), name=None):
    c = do_contract(qualname, checks=checks, name=name)
    c.native(*LOOPIR_NATIVES)
    return c


def uses_in_scope(ir):
    r = scope_report(ir)
    return not r.unbound and not r.shadow


def binders_unique(ir):
    return not scope_report(ir).duplicate


def _lits(g, P, **kw):
    _reset(g)
    ir, _ = with_symbolic_literals(g, P._loopir_proc, only=set(range(100, 2000)), **kw)
    return ir


# ---- sink_alloc

@proc
def _sk_for(n: size, x: f32[n]):
    assert n > 1100
    t: f32[100]
    for i in seq(0, n):
        t[0] = x[i]
        x[i] = t[0] + 1.0
    x[0] = 0.0


@proc
def _sk_if(n: size, y: f32[4]):
    t: f32
    if n > 1002:
        t = 1.0
        y[0] = t
    y[2] = 0.0


@proc
def _sk_if_else_free(n: size, y: f32[4]):
    t: f32
    if n > 1002:
        t = 1.0
        y[0] = t
    else:
        y[1] = 2.0


@proc
def _sk_if_else_used(n: size, y: f32[4]):
    t: f32
    if n > 1002:
        t = 1.0
        y[0] = t
    else:
        t = 2.0
        y[1] = t


SINK_PROCS = {"for": _sk_for, "if": _sk_if, "if / else not using the buffer": _sk_if_else_free,
              "if / else using the buffer": _sk_if_else_used}

csk = scope_contract("DoSinkAlloc")


@csk.inputs
def _(g):
    kind = g.choose(sorted(SINK_PROCS), "scope")
    ir = _lits(g, SINK_PROCS[kind])
    al = find_alloc(ir, "t")
    scope = ir.body[1]
    return {"alloc_cursor": cursor_to(ir, al), "scope_cursor": cursor_to(ir, scope),
            "__ghost__": {"ir": ir, "al": al, "kind": kind}}


plain_call(csk, ["alloc_cursor", "scope_cursor"])

SINK_SCOPE_CLAUSE = "every use of a variable lies in the scope of exactly one declaration"


@csk.ensures(SINK_SCOPE_CLAUSE)
def _(a):
    ir, _ = a.result
    return uses_in_scope(ir)


@csk.ensures("no symbol is declared twice")
def _(a):
    ir, _ = a.result
    return binders_unique(ir)


@csk.ensures("the allocation now opens the body of the scope statement and is gone from the enclosing block")
def _(a):
    ir, _ = a.result
    sc = ir.body[0]
    return isinstance(sc, (LoopIR.For, LoopIR.If)) and isinstance(sc.body[0], LoopIR.Alloc) \
        and sc.body[0].name is a.ghost.al.name and len(ir.body) == len(a.ghost.ir.body) - 1


def f20_alloc_used_in_else(c, values, choices):
    """witness class of known finding F20: the scope is an If whose else branch uses the sunk buffer, and the ONLY
    scoping violations of the real result are uses of that buffer's symbol inside the else branch of that If
    (the else copy of the allocation is alpha-renamed, the uses are not substituted).  Anything else - another
    symbol, another place, a re-declaration - is not this finding and is reported as a violation."""
    from pyvc.sym import ConcreteCtx
    from pyvc.run import G
    ctx = ConcreteCtx(values=values, choices=choices)
    old = S.set_ctx(ctx)
    try:
        g = G(ctx)
        argd = c.gen(g)
        gh = argd["__ghost__"]
        if gh["kind"] != "if / else using the buffer":
            return False
        ir, _ = LS.DoSinkAlloc(argd["alloc_cursor"], argd["scope_cursor"])
        rep = scope_report(ir)
        if rep.shadow or rep.duplicate or not rep.unbound:
            return False
        return all(s is gh["al"].name and w.startswith("body[0].orelse[") for s, w in rep.unbound)
    finally:
        S.set_ctx(old)


# ---- lift_alloc (simple)

@proc
def _la(n: size, x: f32[n]):
    assert n > 1100
    for i in seq(0, n):
        if i < 1000:
            t: f32[1001]
            t[0] = x[i]
            x[i] = t[0]


@proc
def _la_dep(n: size, x: f32[n]):
    assert n > 1100
    for i in seq(0, n):
        for j in seq(0, 100):
            t: f32[i + 1]
            t[0] = x[i]
            x[i] = t[0]


cla = scope_contract("DoLiftAllocSimple")


@cla.inputs
def _(g):
    pn = g.choose(["la", "la_dep"], "proc")
    ir = _lits(g, {"la": _la, "la_dep": _la_dep}[pn])
    al = find_alloc(ir, "t")
    return {"alloc_cursor": cursor_to(ir, al), "n_lifts": g.choose([1, 2, 3], "n_lifts"),
            "__ghost__": {"ir": ir, "al": al, "pn": pn}}


plain_call(cla, ["alloc_cursor", "n_lifts"])


@cla.ensures("every use of a variable lies in the scope of exactly one declaration (extents included)")
def _(a):
    ir, _ = a.result
    return uses_in_scope(ir)


@cla.ensures("no symbol is declared twice; the statement count is unchanged")
def _(a):
    ir, _ = a.result
    return binders_unique(ir) and len(nodes_of(ir, LoopIR.stmt)) == len(nodes_of(a.ghost.ir, LoopIR.stmt))


cla.raises(SchedulingError, when=lambda a: a.n_lifts == 3 or (a.ghost.pn == "la_dep" and a.n_lifts == 2),
           label="SchedulingError only when lifting past the root or past the loop the extent depends on")


# ---- autolift_alloc (DoLiftAlloc)

cll = scope_contract("DoLiftAlloc.__init__")


@cll.inputs
def _(g):
    ir = _lits(g, _la)
    al = find_alloc(ir, "t")
    P = API.Procedure(ir)
    return {"proc": P, "alloc_cursor": cursor_to(ir, al), "n_lifts": g.choose([1, 2], "n_lifts"),
            "mode": g.choose(["row", "col"], "mode"), "size": None, "keep_dims": g.choose([False, True], "keep_dims"),
            "__ghost__": {"ir": ir, "al": al}}


def _lift_alloc_entry(call):
    def run(fn, a):
        me = object.__new__(LS.DoLiftAlloc)
        call(fn, [me, a.proc, a.alloc_cursor, a.n_lifts, a.mode, a.size, a.keep_dims])
        return me.proc
    return run


cll.entry = lambda g, it, fn, a: _lift_alloc_entry(lambda f, args: it.call(f, args))(fn, a)
cll.native_entry = native_with_checks(cll, _lift_alloc_entry(lambda f, args: f(*args)))


@cll.ensures("every use of a variable lies in the scope of exactly one declaration")
def _(a):
    return uses_in_scope(a.result)


@cll.ensures("no symbol is declared twice; the buffer is still declared exactly once")
def _(a):
    return binders_unique(a.result) and len(_new_alloc(a.result, a.ghost.al.name)) == 1


# ---- delete_buffer

def _dead_after(g, a):
    """Check_IsDeadAfter succeeds only if nothing after `stmts` touches the buffer: modelled on the concrete tree
    (syntactic occurrence anywhere in the procedure outside `stmts` = the check fails)"""
    inside = {id(n) for _, n in walk(list(a.stmts))}
    for _, n in walk(a.proc):
        if id(n) not in inside and getattr(n, "name", None) is a.bufname and \
                isinstance(n, (LoopIR.Read, LoopIR.WindowExpr, LoopIR.Assign, LoopIR.Reduce, LoopIR.StrideExpr)):
            _stub_raise(SchedulingError("stub: buffer may be used afterwards"))
    return None


@proc
def _db(n: size, x: f32[n]):
    assert n > 1100
    for i in seq(0, n):
        dead: f32[100]
        live: f32
        live = x[i]
        x[i] = live


cdb = scope_contract("DoDeleteBuffer", checks=("Check_IsDeadAfter",))
CHECKS_DEAD = CHECKS["Check_IsDeadAfter"]


@cdb.inputs
def _(g):
    ir = _lits(g, _db)
    al = find_alloc(ir, g.choose(["dead", "live"], "buffer"))
    g.ghost["dead_model"] = True
    return {"buf_cursor": cursor_to(ir, al), "__ghost__": {"ir": ir, "al": al}}


plain_call(cdb, ["buf_cursor"])


@cdb.ensures("every use of a variable lies in the scope of exactly one declaration (nothing used the deleted buffer)")
def _(a):
    ir, _ = a.result
    return uses_in_scope(ir) and not _new_alloc(ir, a.ghost.al.name)


cdb.raises(SchedulingError, when=lambda a: a.ghost.al.name.name() == "live",
           label="SchedulingError only if the buffer is still used")


# ---- reuse_buffer

@proc
def _ru(a: f32, b: f32):
    aa: f32
    bb: f32
    aa = a
    bb = b
    for i in seq(0, 100):
        c: f32
        c = aa + bb
        b = c


@proc
def _ru_inner(a: f32, b: f32):
    for i in seq(0, 100):
        bb: f32
        bb = a
    c: f32
    c = 2.0
    b = c


@proc
def _ru_later(a: f32, b: f32):
    c: f32
    c = 2.0
    b = c
    bb: f32
    bb = a


REUSE_PROCS = {"declared before, enclosing block": _ru, "declared in an inner scope": _ru_inner,
               "declared later in the block": _ru_later}

cru = scope_contract("DoReuseBuffer", checks=("Check_IsDeadAfter",))


@cru.inputs
def _(g):
    kind = g.choose(sorted(REUSE_PROCS), "reused buffer")
    ir = _lits(g, REUSE_PROCS[kind])
    return {"buf_cursor": cursor_to(ir, find_alloc(ir, "bb")), "rep_cursor": cursor_to(ir, find_alloc(ir, "c")),
            "__ghost__": {"ir": ir, "kind": kind}}


plain_call(cru, ["buf_cursor", "rep_cursor"])


@cru.ensures("every use of a variable lies in the scope of exactly one declaration (the reused buffer is in scope "
             "wherever the eliminated one was used)")
def _(a):
    ir, _ = a.result
    return uses_in_scope(ir)


@cru.ensures("no symbol is declared twice; the eliminated buffer is gone")
def _(a):
    ir, _ = a.result
    return binders_unique(ir) and not [s for s in nodes_of(ir, LoopIR.Alloc) if s.name.name() == "c"]


cru.raises(SchedulingError, when=lambda a: a.ghost.kind != "declared before, enclosing block",
           label="SchedulingError only if the reused buffer is not in scope at the eliminated allocation")


# ---- inline (twice: the two copies of the callee body must not share binders)

@proc
def _inl_callee(m: size, z: [f32][m], r: f32):
    tmp: f32
    for q in seq(0, m):
        tmp = z[q]
        r += tmp


@proc
def _inl(n: size, x: f32[n], acc: f32):
    assert n > 1100
    _inl_callee(n, x[0:n], acc)
    _inl_callee(100, x[101:201], acc)


cin = scope_contract("DoInline")


@cin.inputs
def _(g):
    ir = _lits(g, _inl)
    return {"call": cursor_to(ir, nodes_of(ir, LoopIR.Call)[g.choose([0, 1], "first inlined call")]),
            "__ghost__": {"ir": ir}}


def _inline_twice(call):
    def run(fn, a):
        ir1, _ = call(fn, [a.call])
        rest = nodes_of(ir1, LoopIR.Call)
        ir2, _ = call(fn, [cursor_to(ir1, rest[0])])
        return ir1, ir2
    return run


cin.entry = lambda g, it, fn, a: _inline_twice(lambda f, args: it.call(f, args))(fn, a)
cin.native_entry = native_with_checks(cin, _inline_twice(lambda f, args: f(*args)))


@cin.ensures("after one and after two inlinings every use lies in the scope of exactly one declaration")
def _(a):
    ir1, ir2 = a.result
    return uses_in_scope(ir1) and uses_in_scope(ir2) and not nodes_of(ir2, LoopIR.Call)


@cin.ensures("the two inlined copies of the callee body have fresh binders (no symbol declared twice, none shared "
             "with the callee)")
def _(a):
    ir1, ir2 = a.result
    callee_binders = {s for s, _ in scope_report(_inl_callee._loopir_proc).binders}
    mine = [s for s, _ in scope_report(ir2).binders]
    return binders_unique(ir1) and binders_unique(ir2) and not (callee_binders & set(mine))


# ---- specialize

@proc
def _sp(n: size, x: f32[n]):
    assert n > 1100
    t: f32
    for i in seq(0, n):
        t = x[i]
        x[i] = t + 1.0
    x[0] = 0.0


csp = scope_contract("DoSpecialize")


@csp.inputs
def _(g):
    ir = _lits(g, _sp)
    nsz = find_arg(ir, "n").name
    k = g.choose([1, 2], "number of conditions")
    rd = LoopIR.Read(nsz, [], T.size, SRC)
    conds = [LoopIR.BinOp(op, rd, LoopIR.Const(g.int(f"c{j}"), T.int, SRC), T.bool, SRC)
             for j, op in zip(range(k), (">", "=="))]
    blk = cursor_to(ir, ir.body[0]).as_block().expand(0, 1)
    return {"block_c": blk, "conds": conds, "__ghost__": {"ir": ir, "k": k}}


plain_call(csp, ["block_c", "conds"])


@csp.ensures("every use of a variable lies in the scope of exactly one declaration")
def _(a):
    ir, _ = a.result
    return uses_in_scope(ir)


@csp.ensures("every branch is a copy with fresh binders (no symbol declared twice); one copy per condition plus one")
def _(a):
    ir, _ = a.result
    return binders_unique(ir) and len(nodes_of(ir, LoopIR.For)) == a.ghost.k + 1 \
        and len(nodes_of(ir, LoopIR.Alloc)) == a.ghost.k + 1


# ---- cut_loop

@proc
def _cl(n: size, x: f32[n]):
    assert n > 1100
    for i in seq(0, n):
        t: f32
        t = x[i]
        for j in seq(0, 100):
            x[i] += t


ccl = scope_contract("DoCutLoop", checks=("Check_ExprBound",))


@ccl.inputs
def _(g):
    ir = _lits(g, _cl)
    cut = LoopIR.Const(g.int("cut"), T.int, SRC)
    if g.choose(["literal", "n - literal"], "cut") != "literal":
        cut = LoopIR.BinOp("-", LoopIR.Read(find_arg(ir, "n").name, [], T.size, SRC), cut, T.index, SRC)
    return {"loop_c": cursor_to(ir, find_loop(ir, "i")), "cut_point": cut, "__ghost__": {"ir": ir}}


plain_call(ccl, ["loop_c", "cut_point"])


@ccl.ensures("every use of a variable lies in the scope of exactly one declaration")
def _(a):
    ir, _ = a.result
    return uses_in_scope(ir)


@ccl.ensures("the second loop is a copy with fresh binders (no symbol declared twice)")
def _(a):
    ir, _ = a.result
    return binders_unique(ir) and len([s for s in ir.body if isinstance(s, LoopIR.For)]) == 2


# ---- divide_loop (all tail strategies)

cdl = scope_contract("DoDivideLoop", checks=("Check_ExprBound",))


@proc
def _cl_ext(n: size, x: f32[n + 1]):
    assert n > 1100
    for i in seq(0, n):
        t: f32[i + 1]
        t[0] = x[i]
        for j in seq(0, 100):
            x[i] += t[0]


@cdl.inputs
def _(g):
    ir = _lits(g, g.choose([_cl, _cl_ext], "body (scalar temporary | temporary whose extent mentions the iterator)"))
    tail = g.choose(["guard", "cut", "cut_and_guard", "perfect"], "tail")
    return {"loop_cursor": cursor_to(ir, find_loop(ir, "i")), "quot": g.pos("quot"), "outer_iter": "io",
            "inner_iter": "ii", "tail": "guard" if tail == "perfect" else tail, "perfect": tail == "perfect",
            "__ghost__": {"ir": ir, "tail": tail}}


plain_call(cdl, ["loop_cursor", "quot", "outer_iter", "inner_iter", "tail", "perfect"])


@cdl.ensures("every use of a variable lies in the scope of exactly one declaration (the old iteration variable is "
             "gone, the tail copy uses its own binders)")
def _(a):
    ir, _ = a.result
    old_iter = find_loop(a.ghost.ir, "i").iter
    return uses_in_scope(ir) and not [n for n in nodes_of(ir, LoopIR.Read) if n.name is old_iter]


@cdl.ensures("the tail loop is a copy with fresh binders (no symbol declared twice)")
def _(a):
    ir, _ = a.result
    want = 2 if a.ghost.tail in ("cut", "cut_and_guard") else 1
    return binders_unique(ir) and len(_new_alloc_named(ir, "t")) == want


def _new_alloc_named(ir, nm):
    return [s for s in nodes_of(ir, LoopIR.Alloc) if s.name.name() == nm]


# ---- an index variable that is substituted away is substituted in allocation extents too (F70)
#
# `t: f32[i + 1]` next to `t[0] = x[i]`: whatever the rewrite turns the index `i` into, the extent must become that
# expression + 1 (rewrite-agnostic: the extent is compared with the index the same rewrite produced).

def extents_follow_indices(ir):
    ok = True
    for al in _new_alloc_named(ir, "t"):
        if not isinstance(al.type, T.Tensor):
            continue
        blk = _block_holding(ir, al)
        k = [id(s) for s in blk].index(id(al))
        asg = blk[k + 1]
        if not (isinstance(asg, LoopIR.Assign) and isinstance(asg.rhs, LoopIR.Read) and len(asg.rhs.idx) == 1):
            return False
        ext = al.type.hi[0]
        if not (isinstance(ext, LoopIR.BinOp) and ext.op == "+"):
            return False
        ok = And(ok, same(ext.lhs, asg.rhs.idx[0]))
    return ok


def _reads_syms(e):
    return sorted(id(r.name) for r in nodes_of(e, LoopIR.Read))


def _block_holding(ir, st):
    for _, n in walk(ir):
        for fld in ("body", "orelse"):
            blk = getattr(n, fld, None)
            if isinstance(blk, list) and any(x is st for x in blk):
                return blk
    raise AssertionError("statement not found")


@cdl.ensures("an allocation extent that mentions the divided iterator is rewritten like the index expressions")
def _(a):
    ir, _ = a.result
    return extents_follow_indices(ir)


csh = scope_contract("DoShiftLoop", checks=("Check_IsNonNegativeExpr",))


@csh.inputs
def _(g):
    ir = _lits(g, _cl_ext)
    return {"loop_c": cursor_to(ir, find_loop(ir, "i")), "new_lo": LoopIR.Const(g.nat("new_lo"), T.int, SRC),
            "__ghost__": {"ir": ir}}


plain_call(csh, ["loop_c", "new_lo"])


@csh.ensures("every use of a variable lies in the scope of exactly one declaration")
def _(a):
    ir, _ = a.result
    return uses_in_scope(ir) and binders_unique(ir)


@csh.ensures("an allocation extent that mentions the shifted iterator is rewritten like the index expressions")
def _(a):
    ir, _ = a.result
    return extents_follow_indices(ir)


cdr = scope_contract("DoDivideWithRecompute", checks=("Check_ExprBound", "Check_IsIdempotent"))


@proc
def _cl_rc(n: size, x: f32[8 * n + 4]):
    assert n > 1100
    for i in seq(0, 8 * n):
        t: f32[i + 1]
        t[0] = x[i]


@cdr.inputs
def _(g):
    ir = _lits(g, _cl_rc)
    n = find_arg(ir, "n").name
    return {"loop_cursor": cursor_to(ir, find_loop(ir, "i")), "outer_hi": LoopIR.Read(n, [], T.size, SRC),
            "outer_stride": 8, "iter_o": "io", "iter_i": "ii", "__ghost__": {"ir": ir}}


plain_call(cdr, ["loop_cursor", "outer_hi", "outer_stride", "iter_o", "iter_i"])


@cdr.ensures("every use of a variable lies in the scope of exactly one declaration (the old iteration variable is gone)")
def _(a):
    ir, _ = a.result
    old_iter = find_loop(a.ghost.ir, "i").iter
    return uses_in_scope(ir) and binders_unique(ir) and not [n for n in nodes_of(ir, LoopIR.Read) if n.name is old_iter]


@cdr.ensures("an allocation extent that mentions the divided iterator is rewritten like the index expressions")
def _(a):
    ir, _ = a.result
    return extents_follow_indices(ir)


# ----------------------------------------------------------------------------
# insert_noop_call: the new call site must satisfy the callee's contract (F23)
# ----------------------------------------------------------------------------

@instr("prefetch(&{A_data}, {hint});")
def _pf(A: [f32][1] @ DRAM, hint: size):
    assert hint < 8
    pass


@proc
def _nc(x: f32[8]):
    for i in seq(0, 8):
        x[i] = 1.0


def _noop_args(ir, off, hint):
    i_sym = find_loop(ir, "i").iter
    rd = LoopIR.Read(i_sym, [], T.index, SRC)
    lo = LoopIR.BinOp("+", rd, LoopIR.Const(off, T.int, SRC), T.index, SRC)
    hi = LoopIR.BinOp("+", rd, LoopIR.Const(off + 1, T.int, SRC), T.index, SRC)
    return [("x", [(lo, hi)]), LoopIR.Const(hint, T.int, SRC)]


# (1) protocol, all values: the effect check that `@proc` runs at definition time (callee assertions at every call
#     site, exo.frontend.boundscheck.CheckBounds) is run on the resulting procedure
cnp = do_contract("DoInsertNoopCall", name=FS + "::DoInsertNoopCall[call-site check]")
cnp.native_modules.update(("exo.frontend.typecheck",))
cnp.callee("CheckBounds.__init__", result=lambda g, a: events(g).add("CheckBounds", proc=a.proc), assumed=True,
           note="CheckBounds: recorded; success = callee assertions hold at every call site (C03)")


@cnp.inputs
def _(g):
    _reset(g)
    ir = _nc._loopir_proc
    asg = find_stmt(ir, lambda s: isinstance(s, LoopIR.Assign))
    return {"gap": cursor_to(ir, asg).before(), "proc": _pf._loopir_proc,
            "args": _noop_args(ir, g.int("window_offset"), g.int("hint")), "__ghost__": {"ir": ir}}


def _native_noop(g, fn, a):
    ev_ = events(g)
    stubs = {}
    if hasattr(LS, "CheckBounds"):
        stubs["CheckBounds"] = lambda p: ev_.add("CheckBounds", proc=p)
    with patched(LS, stubs):
        return fn(a.gap, a.proc, a.args)


cnp.native_entry = _native_noop


@cnp.ensures("the callee's assertions are checked at the new call site: the definition-time effect check is run on "
             "the resulting procedure")
def _(a):
    ir, _ = a.result
    return any(c["proc"] is ir for c in events(a.g).calls("CheckBounds"))


@cnp.ensures("exactly one call to the given procedure is inserted at the gap; nothing else changes")
def _(a):
    ir, _ = a.result
    loop = ir.body[0]
    return len(loop.body) == 2 and isinstance(loop.body[0], LoopIR.Call) and loop.body[0].f is a.proc \
        and loop.body[1] is a.ghost.ir.body[0].body[0] and scope_report(ir).ok()


# (2) concrete witnesses (bounded): everything runs for real, including the checks.  Both halves of F23: a violated
#     callee assertion and a window argument outside its buffer.
cnb = contract("C04", FS, "DoInsertNoopCall", name=FS + "::DoInsertNoopCall[instances]", kind="bounded")
cnb.native_modules.update(NATIVE + ("exo.frontend.typecheck", "exo.frontend.boundscheck"))
cnb.native("CheckBounds.__init__")
cnb.bounded = "x: f32[8], window x[i+o : i+o+1] for o in {0, 20}, hint in {3, 9} against `assert hint < 8`"


@cnb.inputs
def _(g):
    ir = _nc._loopir_proc
    asg = find_stmt(ir, lambda s: isinstance(s, LoopIR.Assign))
    off = g.choose([0, 20], "window offset")
    hint = g.choose([3, 9], "hint")
    return {"gap": cursor_to(ir, asg).before(), "proc": _pf._loopir_proc, "args": _noop_args(ir, off, hint),
            "__ghost__": {"off": off, "hint": hint}}


NOOP_ASSERT_CLAUSE = "accepted only if the callee's assertion (hint < 8) holds at the call site"
NOOP_WINDOW_CLAUSE = "accepted only if the window argument lies inside the buffer (x has 8 elements)"


@cnb.ensures(NOOP_ASSERT_CLAUSE)
def _(a):
    return a.ghost.hint < 8


@cnb.ensures(NOOP_WINDOW_CLAUSE)
def _(a):
    return 0 <= a.ghost.off and 7 + a.ghost.off + 1 <= 8


cnb.raises(SchedulingError, when=lambda a: a.ghost.hint >= 8 or a.ghost.off != 0,
           label="SchedulingError only for a violated assertion or an out-of-bounds window")


# F23 is a KNOWN FINDING (known_findings.json).  Re-running CheckBounds on the result repairs the assertion half, but
# together with the F8 repair (CheckBounds checks a window's extent where it is used / passed) it makes
# tests/test_schedules.py::test_insert_noop_call fail: that test inserts prefetch(x[1:2], ..) with x: i8[n], n >= 1.
# The three witness classes below are exactly the three refuted clauses; a violation of any OTHER kind (the check made
# on a stale procedure, more than one call inserted, a rejected valid call ...) is not matched and is reported.

def _f23_concrete(c, values, choices):
    from pyvc.sym import ConcreteCtx
    from pyvc.run import G
    ctx = ConcreteCtx(values=values, choices=choices)
    old = S.set_ctx(ctx)
    try:
        g = G(ctx)
        return g, c.gen(g)
    finally:
        S.set_ctx(old)


def f23_no_call_site_check(c, values, choices):
    """DoInsertNoopCall makes NO call-site check at all (not: a check on the wrong procedure)"""
    from pyvc.sym import ConcreteCtx
    from pyvc.run import G
    ctx = ConcreteCtx(values=values, choices=choices)
    old = S.set_ctx(ctx)
    try:
        g = G(ctx)
        argd = c.gen(g)
        a = type("A", (), {k: v for k, v in argd.items() if k != "__ghost__"})()
        _native_noop(g, LS.DoInsertNoopCall, a)
        return not events(g).calls("CheckBounds")
    finally:
        S.set_ctx(old)


def f23_assertion_violated(c, values, choices):
    """the accepted call violates the callee's assertion and nothing else is wrong with the instance"""
    _, argd = _f23_concrete(c, values, choices)
    return argd["__ghost__"]["hint"] >= 8


def f23_window_out_of_bounds(c, values, choices):
    """the accepted call passes a window outside its buffer"""
    _, argd = _f23_concrete(c, values, choices)
    return argd["__ghost__"]["off"] != 0
