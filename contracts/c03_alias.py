"""C03 (e) - `Check_Aliasing` and the definition-time protocol.

  A   src/exo/rewrite/new_eff.py `_Check_Aliasing_Helper.do_s` / `Check_Aliasing`:
      a call that passes two numeric arguments whose ROOT buffers coincide -
      through any chain of window statements, by name or as a window expression,
      at any nesting depth - raises SchedulingError; a call whose roots are
      pairwise distinct does not.  Bounded: every combination of
      {two roots} x {alias chain depth 0..3} x {passed by name | as window
      expression} for each of two arguments x {call at top level | in a loop |
      under an if, aliases declared outside}, plus three-argument calls; the real
      function runs natively on the LoopIR the real parser/typechecker produce.
      (No integer is involved; the only unbounded dimension is the chain length,
      which the enumeration bounds by 3 - labelled `bounded`, never counted as
      discharged.)
  B   src/exo/API.py `Procedure.__init__`: a procedure given as UAST goes through
      TypeChecker, then CheckBounds and Check_Aliasing on the typechecked LoopIR,
      before it is registered; an exception of any of the three propagates.
"""
from __future__ import annotations
import itertools, os, traceback
from contracts.bounds_ghost import load_procs, accepted_by_front_end

FN = "src/exo/rewrite/new_eff.py"
T_AL = FN + "::Check_Aliasing+_Check_Aliasing_Helper.do_s [roots]"
T_API = "src/exo/API.py::Procedure.__init__ [definition-time checks]"

HEAD = "from __future__ import annotations\nfrom exo import proc\n"
CALLEE2 = '''
@proc
def two(a: [f32][2], b: [f32][2]):
    a[0] = b[0]

@proc
def three(a: [f32][2], b: [f32][2], c: [f32][2]):
    a[0] = b[0] + c[0]
'''


def chain(root, depth, tag):
    """statements declaring a chain of windows over `root`; returns (lines, last name)"""
    lines, cur, n = [], root, 16
    for k in range(depth):
        nm = f"{tag}{k}"
        lines.append(f"{nm} = {cur}[0:{n - 2}]")
        cur, n = nm, n - 2
    return lines, cur


def cases():
    forms = ("name", "wexpr")
    for place in ("top", "loop", "if"):
        for ra, rb in (("x", "x"), ("x", "y")):
            for da, db in itertools.product(range(4), repeat=2):
                for fa, fb in itertools.product(forms, repeat=2):
                    # by name needs an alias whose extent is 2: use depth >= 1 with a final [0:2] window
                    yield (ra, rb), (da, db), (fa, fb), place, "two"
    for roots in (("x", "y", "z"), ("x", "y", "x"), ("x", "y", "y"), ("x", "x", "z")):
        for depths in ((0, 1, 2), (2, 0, 1), (3, 3, 3)):
            yield roots, depths, ("wexpr", "name", "wexpr"), "top", "three"


def build(roots, depths, forms, place, callee):
    """the alias passed by name must have extent 2: end its chain with [0:2]"""
    decl, args = [], []
    for k, (r, d, f) in enumerate(zip(roots, depths, forms)):
        tag = "uvw"[k]
        ls, last = chain(r, d, tag)
        decl += ls
        if f == "name":
            nm = f"{tag}_last"
            decl.append(f"{nm} = {last}[0:2]")
            args.append(nm)
        else:
            args.append(f"{last}[0:2]")
    call = f"{callee}({', '.join(args)})"
    body = list(decl)
    if place == "top":
        body.append(call)
    elif place == "loop":
        body += ["for i in seq(0, 2):", "    " + call]
    else:
        body += ["if n > 1:", "    " + call, "else:", "    pass"]
    return HEAD + CALLEE2 + "\n@proc\ndef main(n: size, x: f32[16], y: f32[16], z: f32[16]):\n" + \
        "\n".join("    " + l for l in body) + "\n"


def check_case(roots, depths, forms, place, callee):
    """-> (expected_raise, raised, src)"""
    from exo.rewrite.new_eff import Check_Aliasing, SchedulingError
    src = build(roots, depths, forms, place, callee)
    mod = load_procs(src, checks=False)
    ir = mod.main._loopir_proc
    try:
        Check_Aliasing(ir)
        raised = False
    except SchedulingError:
        raised = True
    expected = len(set(roots)) < len(roots)
    return expected, raised, src


def api_protocol():
    """-> list of (name, ok, detail)"""
    import exo.API as API
    from exo.core.LoopIR import LoopIR, UAST
    out = []
    log = []
    real = (API.TypeChecker, API.CheckBounds, API.Check_Aliasing)

    class TCRec:
        def __init__(self, p):
            log.append(("TypeChecker", p))
            self.inner = real[0](p)

        def get_loopir(self):
            r = self.inner.get_loopir()
            log.append(("loopir", r))
            return r

    def cb(p):
        log.append(("CheckBounds", p))
        return real[1](p)

    def ca(p):
        log.append(("Check_Aliasing", p))
        return real[2](p)

    src = HEAD + "\n@proc\ndef main(x: f32[8]):\n    x[0] = 1.0\n"
    API.TypeChecker, API.CheckBounds, API.Check_Aliasing = TCRec, cb, ca
    try:
        mod = load_procs(src, checks=True)     # load_procs restores the two it saved = our recorders
    finally:
        API.TypeChecker, API.CheckBounds, API.Check_Aliasing = real
    kinds = [k for k, _ in log]
    out.append(("a UAST procedure is typechecked, bounds-checked and alias-checked, in this order, at definition",
                kinds == ["TypeChecker", "loopir", "CheckBounds", "Check_Aliasing"], str(kinds)))
    if kinds == ["TypeChecker", "loopir", "CheckBounds", "Check_Aliasing"]:
        ir = log[1][1]
        out.append(("CheckBounds and Check_Aliasing receive the typechecked LoopIR, which becomes the procedure",
                    log[2][1] is ir and log[3][1] is ir and mod.main._loopir_proc is ir and
                    isinstance(log[0][1], UAST.proc), ""))
    # an exception of each check propagates out of the decorator
    for which in ("CheckBounds", "Check_Aliasing"):
        class Boom(Exception):
            pass

        def boom(p):
            raise Boom()
        setattr(API, which, boom)
        try:
            try:
                # load_procs saves/restores the patched functions itself
                load_procs(src, checks=True)
                ok = False
            except Boom:
                ok = True
            except Exception:
                ok = False
        finally:
            API.TypeChecker, API.CheckBounds, API.Check_Aliasing = real
        out.append((f"a failing {which} aborts the definition", ok, ""))
    return out


REPLAY = '''#!/venv/bin/python
"""Replay for C03 / Check_Aliasing: {what}
exit 1 = the real code accepts a call that passes one buffer twice / violates the obligation."""
import sys
sys.path.insert(0, {verif!r})
from pyvc.run import ensure_repo_on_path
ensure_repo_on_path()
from contracts.c03_alias import replay
sys.exit(replay({kind!r}, {arg!r}))
'''


def replay(kind, arg):
    if kind == "alias":
        roots, depths, forms, place, callee = arg
        exp, got, src = check_case(tuple(roots), tuple(depths), tuple(forms), place, callee)
        print(src)
        print(f"roots coincide: {exp}; Check_Aliasing raised: {got}")
        if exp and not got:
            ok, msg = accepted_by_front_end(src)
            print("whole @proc pipeline:", "ACCEPTED" if ok else f"rejected ({msg})")
        print("verdict   :", "confirmed" if exp != got else "not-reproduced")
        return 1 if exp != got else 0
    bad = [n for n, ok, d in api_protocol() if not ok]
    for n in bad:
        print("violated:", n)
    print("verdict   :", "confirmed" if bad else "not-reproduced")
    return 1 if bad else 0


def run(tier="quick", seed=0):
    verif = os.path.dirname(os.path.dirname(os.path.abspath(__file__)))
    res = dict(obligations=0, discharged=0, functions=[T_AL, T_API], samples=[], violations=[], undecided=[],
               bounded=[], clauses={}, solver_time_s=0.0, assumptions=[
        "C03: Check_Aliasing is exercised on alias chains of depth <= 3 (bounded enumeration, not proof); "
        "LoopIR_Do's traversal reaches every statement (C09's traversal contract)"])
    n = bad = 0
    try:
        for case in cases():
            n += 1
            try:
                exp, got, src = check_case(*case)
            except Exception as e:
                res["undecided"].append(f"{T_AL}: case {case} crashed: {type(e).__name__}: {e}")
                continue
            if exp != got:
                bad += 1
                what = ("two arguments with the same root buffer are accepted" if exp else
                        "arguments with distinct root buffers are rejected")
                key = f"{T_AL} :: {what} [{case[3]}, {case[4]}]"
                if key not in res["clauses"]:
                    res["clauses"][key] = "refuted"
                    res["violations"].append(dict(obligation=key, confirmed=True, replay_script=REPLAY.format(
                        verif=verif, what=what, kind="alias", arg=[list(c) if isinstance(c, tuple) else c for c in case])))
        key = f"{T_AL} :: a call raises exactly when two numeric arguments share a root buffer"
        if bad == 0:
            res["clauses"][key] = "bounded-pass"
        res["bounded"].append(dict(target=T_AL, cases=n, failed=bad,
                                   bound="roots {same, different} x chain depth 0..3 per argument x {by name, window "
                                         "expression} x {top level, in a loop, under an if}; three-argument calls"))
    except Exception as e:
        res["undecided"].append(f"{T_AL}: engine crashed: " + "".join(traceback.format_exception(e))[-800:])
    try:
        for name, ok, detail in api_protocol():
            key = f"{T_API} :: {name}"
            res["obligations"] += 1
            res["clauses"][key] = "discharged" if ok else "refuted"
            if ok:
                res["discharged"] += 1
            else:
                res["violations"].append(dict(obligation=key, confirmed=True, replay_script=REPLAY.format(
                    verif=verif, what=name, kind="api", arg=None)))
    except Exception as e:
        res["undecided"].append(f"{T_API}: engine crashed: " + "".join(traceback.format_exception(e))[-800:])
    return res
