"""C02 (precision casts) / C15 - a literal written to a configuration field is
coerced to the precision of THAT FIELD.

`PrecisionAnalysis.map_s`, WriteConfig case: the right-hand side of
`Cfg.f = <R-typed expression>` must end up with the field's own type (so that
the emitted C stores a value of the field's precision), for every numeric field
type; an already concretely typed right-hand side is left alone.
"""
from __future__ import annotations
from pyvc.contract import contract
from exo.core.LoopIR import LoopIR, T, UAST
from exo.core.prelude import SrcInfo
from exo.core.configs import Config
from exo.backend import prec_analysis as PA

F_PREC = "src/exo/backend/prec_analysis.py"
SRC = SrcInfo("cfgprec", 0)

_FIELDS = [("f16", UAST.F16(), T.f16), ("f32", UAST.F32(), T.f32), ("f64", UAST.F64(), T.f64),
           ("i8", UAST.INT8(), T.int8), ("i32", UAST.INT32(), T.int32)]
_CFG = Config("CfgPrecVerif", [(n, u) for n, u, _ in _FIELDS], False)

ccp = contract("C02", F_PREC, "PrecisionAnalysis.map_s", name=F_PREC + "::PrecisionAnalysis.map_s[WriteConfig]")


@ccp.inputs
def _(g):
    i = g.choose(list(range(len(_FIELDS))), "field")
    name, _, ty = _FIELDS[i]
    rk = g.choose(["R literal", "R sum of literals", "typed literal"], "rhs")
    lit = LoopIR.Const(0.5, T.R, SRC)
    if rk == "R literal":
        rhs = lit
    elif rk == "R sum of literals":
        rhs = LoopIR.BinOp("+", lit, LoopIR.Const(1.5, T.R, SRC), T.R, SRC)
    else:
        rhs = LoopIR.Const(0.5, ty, SRC)
    o = PA.PrecisionAnalysis()
    o._types = {}
    o.default = g.choose([T.f32, T.f64], "default precision")
    return {"self": o, "s": LoopIR.WriteConfig(_CFG, name, rhs, SRC), "__ghost__": {"ty": ty}}


@ccp.ensures("the value written to a configuration field has the precision of that field")
def _(a):
    st = a.result[0] if a.result else a.s
    def all_typed(e):
        if isinstance(e, LoopIR.BinOp):
            return e.type == a.ghost.ty and all_typed(e.lhs) and all_typed(e.rhs)
        return e.type == a.ghost.ty
    return len(a.self._errors) == 0 and all_typed(st.rhs)
