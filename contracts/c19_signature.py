"""C19 - signature- and annotation-changing utilities keep the loop nest.

Frame contracts.  Oracle: field-wise equality of ADT nodes (`same`): the result
procedure must equal an *expected* procedure that is built from the input by an
independent generic map (`rebuild`, contracts/frame_ghost.py) changing ONLY the
fields the property documents.  The real rewriting code (API wrappers,
`DoPartialEval` on top of `LoopIR_Rewrite`, `DoRearrangeDim`, `DoSetTypAndMem`,
`DoParallelizeLoop`, and the helpers `_replace_reads/_writes/_pats/_helper`) is
interpreted by pyvc on real front-end built procedures whose integer literals
(and the partial-evaluation values) are symbolic; the cursor library and the
pattern matcher run natively on those trees (subjects of C06 / C16).

Unbounded: every integer literal of the procedures, the values bound by
partial_eval.  Bounded: the procedures themselves (a fixed family that contains
every syntactic position the property names: body, tensor extents, predicates,
window expressions, call arguments, stride expressions), the argument subsets.
"""
from __future__ import annotations
from pyvc.contract import contract
from pyvc import sym as S
from pyvc.sym import And, Or, Not, Implies
from contracts.frame_ghost import (same, same_proc, rebuild, rebuild_proc, walk, nodes_of, cursor_to,
                                   with_symbolic_literals, first_difference, differing_fields,
                                   events, recorder, patched, SRC, rearrange_expected)
from exo import proc, DRAM, instr
from exo.core.LoopIR import LoopIR, T
from exo.core.prelude import Sym
from exo.core.memory import Memory
from exo.core import internal_cursors as IC
from exo.rewrite.new_eff import SchedulingError
import exo.API as API
import exo.API_scheduling as APIS

FA = "src/exo/API.py"
FS = "src/exo/rewrite/LoopIR_scheduling.py"
FAS = "src/exo/API_scheduling.py"

NATIVE = ("exo.core.internal_cursors", "exo.frontend.pattern_match", "exo.core.proc_eqv",
          "exo.API_cursors", "exo.frontend.parse_fragment")

ASSUMPTIONS = [
    "C19: the cursor library (exo.core.internal_cursors) and the pattern matcher (exo.frontend.pattern_match) "
    "run natively on the concrete trees; their own contracts are C06 / C16",
    "C19: the procedures are a fixed family (contracts/c19_signature.py) covering reads of arguments in the body, "
    "in tensor extents, in predicates, in window expressions, in call arguments and stride expressions; all integer "
    "literals and partial-evaluation values are symbolic",
    "C19: parse_fragment (add_assertion) is trusted to return the expression denoted by the string",
]


NOTES = ["observation (not an obligation): DoSetTypAndMem(cursor, win=False) tests `elif win:` and therefore returns "
         "None; set_window(p, x, False) raises TypeError (cannot unpack None) instead of clearing the window flag"]

# ----------------------------------------------------------------------------
# the procedures

@proc
def _callee(m: size, k: index, z: [f32][m]):
    assert k < m
    assert k >= 0
    z[k] = 0.0


@proc
def _pe(n: size, m: size, b: bool, k: index, x: f32[n, m], y: [f32][m]):
    assert n > 1002
    assert m <= n
    assert k < m
    assert k >= 0
    t: f32[n]
    for i in seq(0, n):
        t[i] = 1.0
        if b:
            x[i, k] = t[i]
        if i < m:
            y[i] = 2.0
    w = x[0:n, k]
    w[1001] = 3.0
    _callee(m, k, y)
    _callee(n, k, x[0:n, 0])
    for j in seq(k, m):
        y[j] += x[1000, j]


@proc
def _pe_b(b: bool, c: bool, n: size, x: f32[n]):
    assert b
    assert n > 1003
    if c:
        x[1000] = 1.0


PE_PROCS = {"pe": _pe, "pe_b": _pe_b}


def _sym_proc(g, P, **kw):
    """the Procedure's LoopIR with symbolic literals"""
    ir, leaves = with_symbolic_literals(g, P._loopir_proc, **kw)
    return ir, leaves


def _wrap(ir):
    """a Procedure object around `ir` without touching the equivalence tracker state
    more than @proc itself does"""
    return API.Procedure(ir)


# ----------------------------------------------------------------------------
# partial_eval

def pe_expected(p, env):
    """p with every Read of a bound argument replaced by the literal of the
    argument's declared kind, bound arguments dropped, nothing else touched"""
    kind = {a.name: a.type for a in p.args}

    def f(n):
        if isinstance(n, LoopIR.Read) and n.name in env:
            t = T.bool if isinstance(kind[n.name], T.Bool) else T.int
            return LoopIR.Const(env[n.name], t, n.srcinfo)
        return None

    q = rebuild_proc(p, f)
    return q.update(args=[a for a in q.args if a.name not in env])


def _bindable(a):
    return isinstance(a.type, (T.Size, T.Index, T.Bool, T.Int, T.Stride))


cpe = contract("C19", FA, "Procedure.partial_eval")
cpe.native_modules.update(NATIVE)


# argument subsets (by position among the bindable arguments); every argument is bound alone, all together,
# and in a few mixed groups, named and positionally
PE_SUBSETS = {"pe": [0b0001, 0b0010, 0b0100, 0b1000, 0b1111, 0b0101, 0b1010, 0b1011],
              "pe_b": [0b001, 0b010, 0b100, 0b111]}


@cpe.inputs
def _(g):
    pname = g.choose(sorted(PE_PROCS), "proc")
    ir, _ = _sym_proc(g, PE_PROCS[pname])
    P = _wrap(ir)
    cands = [a for a in ir.args if _bindable(a)]
    style = g.choose(["named", "positional"], "style")
    env = {}
    if style == "named":
        mask = g.choose(PE_SUBSETS[pname], "subset")
        for i, a in enumerate(cands):
            if mask >> i & 1:
                env[a.name] = g.bool("v_" + a.name.name()) if isinstance(a.type, T.Bool) \
                    else g.int("v_" + a.name.name())
    else:
        # positional binding covers a prefix of the signature
        nb = 0
        while nb < len(ir.args) and _bindable(ir.args[nb]):
            nb += 1
        k = g.choose(list(range(1, nb + 1)), "prefix")
        for a in ir.args[:k]:
            env[a.name] = g.bool("p_" + a.name.name()) if isinstance(a.type, T.Bool) \
                else g.int("p_" + a.name.name())
    return {"self": P, "__ghost__": {"env": env, "style": style, "ir": ir}}


def _pe_call(call, fn, a):
    env = a.ghost.env
    if a.ghost.style == "positional":
        return call(fn, [a.self] + [env[x.name] for x in a.ghost.ir.args[:len(env)]], {})
    return call(fn, [a.self], {k.name(): v for k, v in env.items()})


cpe.entry = lambda g, it, fn, a: _pe_call(lambda f, args, kw: it.call(f, args, kw), fn, a)
cpe.native_entry = lambda g, fn, a: _pe_call(lambda f, args, kw: f(*args, **kw), fn, a)


def _drop_true(preds):
    out = []
    for e in preds:
        if isinstance(e, LoopIR.Const) and e.val:
            continue          # a literally true assertion may be dropped
        out.append(e)
    return out


@cpe.ensures("exactly the bound arguments are removed from the signature (types of the others substituted)")
def _(a):
    want = pe_expected(a.ghost.ir, a.ghost.env)
    return same(a.result._loopir_proc.args, want.args)


@cpe.ensures("every read of a bound argument in the assertions became the literal; assertions otherwise unchanged")
def _(a):
    want = pe_expected(a.ghost.ir, a.ghost.env)
    return same(a.result._loopir_proc.preds, _drop_true(want.preds))


@cpe.ensures("every read of a bound argument in the body (accesses, extents, windows, call arguments, bounds, "
             "guards) became the literal of the right type; every other node unchanged")
def _(a):
    want = pe_expected(a.ghost.ir, a.ghost.env)
    return same(a.result._loopir_proc.body, want.body)


@cpe.ensures("name and instruction annotation unchanged; no read of a bound argument is left anywhere")
def _(a):
    r = a.result._loopir_proc
    left = [n for n in nodes_of(r, LoopIR.Read) if n.name in a.ghost.env]
    return same(r.name, a.ghost.ir.name) and same(r.instr, a.ghost.ir.instr) and not left


@cpe.ensures("the result is a new root of the equivalence tracker (the signature changed)")
def _(a):
    return a.result._provenance_eq_Procedure is None


# ---- partial_eval: what must be rejected

cpr = contract("C19", FA, "Procedure.partial_eval", name=FA + "::Procedure.partial_eval[rejects]")
cpr.native_modules.update(NATIVE)


@cpr.inputs
def _(g):
    ir, _ = _sym_proc(g, _pe)
    P = _wrap(ir)
    case = g.choose(["tensor argument", "float value", "string value", "None value", "too many positional",
                     "positional and named"], "case")
    n_ = ir.args[0].name.name()
    if case == "tensor argument":
        args, kw = [], {"x": g.int("v")}
    elif case == "float value":
        args, kw = [], {n_: 2.5}
    elif case == "string value":
        args, kw = [], {n_: "4"}
    elif case == "None value":
        args, kw = [], {n_: None}
    elif case == "too many positional":
        args, kw = [g.int(f"v{i}") for i in range(len(ir.args) + 1)], {}
    else:
        args, kw = [g.int("v0")], {"m": g.int("v1")}
    return {"self": P, "__ghost__": {"args": args, "kw": kw, "case": case}}


cpr.entry = lambda g, it, fn, a: it.call(fn, [a.self] + a.ghost.args, dict(a.ghost.kw))
cpr.native_entry = lambda g, fn, a: fn(a.self, *a.ghost.args, **a.ghost.kw)


@cpr.ensures("binding a numeric/tensor argument, or binding to a non-integer value, is rejected")
def _(a):
    return False          # any normal return is a violation


cpr.raises(SchedulingError, when=lambda a: a.ghost.case in ("tensor argument", "float value", "string value",
                                                            "None value"),
           label="SchedulingError only for a non-index argument or a non-integer value")
cpr.raises(TypeError, when=lambda a: a.ghost.case == "too many positional",
           label="TypeError only for too many positional values")
cpr.raises(ValueError, when=lambda a: a.ghost.case == "positional and named",
           label="ValueError only for mixed positional and named values")


# ----------------------------------------------------------------------------
# rearrange_dim / transpose: shared oracle (also used by C04)

def passed_to_callee(p, name):
    for c in nodes_of(p, LoopIR.Call):
        for e in c.args:
            if isinstance(e, (LoopIR.Read, LoopIR.WindowExpr)) and e.name is name:
                return True
    return False


def multi_interval_window(p, name):
    for w in nodes_of(p, LoopIR.WindowExpr):
        if w.name is name and sum(isinstance(i, LoopIR.Interval) for i in w.idx) >= 2:
            return True
    return False


from exo import config as _config


@_config
class CfgS19:
    s: stride


@proc
def _callee2(z: [f32][1008, 1009]):
    z[0, 0] = 0.0


@proc
def _tr(n: size, m: size, a: [f32][n, m], b: f32[n, m], c: [f32][m, n]):
    assert stride(a, 1) == 1
    assert stride(a, 0) == 1000
    assert stride(c, 1) == 1
    assert n > 1010
    assert m > 1010
    for i in seq(0, n):
        for j in seq(0, m):
            b[i, j] = a[i, j]
            a[i, j] += c[j, i]
            a[i, j] = b[i, j] * a[i, j]
    CfgS19.s = stride(a, 0)
    CfgS19.s = stride(c, 0)
    w = a[1001:1003, 1002]
    w[1] = 1.0
    v = a[1004, 0:m]
    v[1005] = a[1006, 1007]


@proc
def _callee3(k: size, z: [f32][k, k]):
    z[0, 0] = 0.0


@proc
def _tr_call(n: size, a: [f32][n, n], b: f32[n, n]):
    assert n > 1010
    b[0, 1] = a[1, 0]
    _callee3(n, a)


@proc
def _tr_callw(n: size, a: [f32][n, n], b: f32[n, n]):
    assert n > 1010
    b[0, 1] = a[1, 0]
    _callee2(a[0:1008, 0:1009])


@proc
def _tr_win(n: size, a: [f32][n, n], b: f32[n, n]):
    assert n > 1010
    w = a[0:1001, 1:1002]
    b[0, 1] = w[1, 0]


TR_PROCS = {"tr": _tr, "tr_call": _tr_call, "tr_callw": _tr_callw, "tr_win": _tr_win}

ctr = contract("C19", FA, "Procedure.transpose")
ctr.native_modules.update(NATIVE)


@ctr.inputs
def _(g):
    pname = g.choose(sorted(TR_PROCS), "proc")
    ir, _ = _sym_proc(g, TR_PROCS[pname])
    P = _wrap(ir)
    two_d = [k for k, a in enumerate(ir.args) if isinstance(a.type, T.Tensor) and len(a.type.hi) == 2]
    k = g.choose(two_d, "argument")
    return {"self": P, "arg_cursor": P.args()[k], "__ghost__": {"ir": ir, "name": ir.args[k].name}}


def _tr_want(a):
    return rearrange_expected(a.ghost.ir, a.ghost.name, [1, 0])


@ctr.ensures("the argument's shape is permuted; every other argument is unchanged")
def _(a):
    return same(a.result._loopir_proc.args, _tr_want(a).args)


@ctr.ensures("every stride(a, d) in the assertions is permuted like the accesses; assertions otherwise unchanged")
def _(a):
    return same(a.result._loopir_proc.preds, _tr_want(a).preds)


@ctr.ensures("every read, write, reduce, window expression and stride(a, d) in the body is permuted by the same "
             "permutation; nothing else changes")
def _(a):
    return same(a.result._loopir_proc.body, _tr_want(a).body)


@ctr.ensures("name and instruction annotation unchanged; new root of the equivalence tracker")
def _(a):
    r = a.result._loopir_proc
    return same(r.name, a.ghost.ir.name) and same(r.instr, a.ghost.ir.instr) \
        and a.result._provenance_eq_Procedure is None


ctr.raises(SchedulingError,
           when=lambda a: passed_to_callee(a.ghost.ir, a.ghost.name) or multi_interval_window(a.ghost.ir, a.ghost.name),
           label="SchedulingError only if the buffer is passed to a callee or windowed in both dimensions")


@ctr.ensures("a buffer that is passed to a callee is never transposed")
def _(a):
    return not passed_to_callee(a.ghost.ir, a.ghost.name)


# ----------------------------------------------------------------------------
# DoSetTypAndMem  (set_precision / set_window / set_memory)

class MemX19(DRAM):
    pass


@proc
def _st(n: size, x: f32[n], y: [f32][n], s: f32):
    assert n > 1010
    t: f32[n]
    u: f32
    for i in seq(0, n):
        t[i] = x[i] + s
        u = t[i]
        y[i] += u * t[i]
        if i < 1000:
            t[i] += x[1001]
    w = t[1002:1004]
    w[0] = u
    _callee(n, 1005, t[0:n])
    _callee(n, 1006, x)
    for j in par(0, n):
        x[j] = 0.0


def retype(t, base):
    if isinstance(t, T.Tensor):
        return t.update(type=base)
    if isinstance(t, T.Window):
        return t.update(src_type=t.src_type.update(type=base), as_tensor=t.as_tensor.update(type=base))
    return base


def settyp_expected(p, name, mode, val):
    def f(n):
        is_decl = isinstance(n, (LoopIR.fnarg, LoopIR.Alloc)) and n.name is name
        if mode == "mem":
            return n.update(mem=val) if is_decl else None
        if mode == "win":
            return n.update(type=n.type.update(is_window=val)) if is_decl else None
        # base type
        if is_decl:
            return n.update(type=retype(n.type, val))
        if isinstance(n, (LoopIR.Read, LoopIR.WindowExpr)) and n.name is name:
            return n.update(type=retype(n.type, val))       # indices hold no numeric reads
        if isinstance(n, (LoopIR.Assign, LoopIR.Reduce)) and n.name is name:
            return n.update(type=retype(n.type, val), rhs=rebuild(n.rhs, f))
        return None

    return rebuild_proc(p, f)


cst = contract("C19", FS, "DoSetTypAndMem")
cst.native_modules.update(NATIVE)


@cst.inputs
def _(g):
    ir, _ = _sym_proc(g, _st)
    mode = g.choose(["mem", "win", "basetyp"], "mode")
    if mode == "win":
        decls = [a for a in ir.args if isinstance(a.type, T.Tensor)]
    else:
        decls = [a for a in ir.args if a.type.is_numeric()] + nodes_of(ir, LoopIR.Alloc)
    d = g.choose(decls, "declaration")
    cur = cursor_to(ir, d)
    if mode == "mem":
        val, kw = MemX19, {"mem": MemX19}
    elif mode == "win":
        val = g.choose([True, False], "is_window")
        kw = {"win": val}
    else:
        val = g.choose([T.f64, T.f16, T.i8], "precision")
        kw = {"basetyp": val}
    return {"cursor": cur, **kw, "__ghost__": {"ir": ir, "name": d.name, "mode": mode, "val": val}}


@cst.ensures("the result differs from the input only in the documented annotation "
             "(mem: the declaration's memory; win: its is_window flag; basetyp: base types of the declaration and of "
             "the reads/writes of that name)")
def _(a):
    gh = a.ghost
    if a.result is None:
        # `win=False` is falsy: DoSetTypAndMem falls through all three cases and produces no procedure
        # (set_window(p, x, False) then dies with a TypeError in the API wrapper).  No procedure, no frame to check;
        # reported as an observation, see the module's NOTES.
        return gh.mode == "win" and gh.val is False
    ir, fwd = a.result
    return same_proc(ir, settyp_expected(gh.ir, gh.name, gh.mode, gh.val))


@cst.ensures("signature length, assertions, name and instruction annotation are unchanged")
def _(a):
    if a.result is None:
        return True
    ir, _ = a.result
    o = a.ghost.ir
    return len(ir.args) == len(o.args) and same(ir.preds, o.preds) and same(ir.name, o.name) and same(ir.instr, o.instr)


# ----------------------------------------------------------------------------
# DoParallelizeLoop

cpl = contract("C19", FS, "DoParallelizeLoop")
cpl.native_modules.update(NATIVE)


@cpl.inputs
def _(g):
    ir, _ = _sym_proc(g, g.choose([_st, _tr, _pe], "proc"))
    loop = g.choose(nodes_of(ir, LoopIR.For), "loop")
    return {"loop_cursor": cursor_to(ir, loop), "__ghost__": {"ir": ir, "loop": loop}}


@cpl.ensures("only loop_mode of that loop changes (to Par)")
def _(a):
    ir, _ = a.result
    lp = a.ghost.loop
    want = rebuild_proc(a.ghost.ir, lambda n: n.update(loop_mode=LoopIR.Par()) if n is lp else None)
    return same_proc(ir, want)


# ----------------------------------------------------------------------------
# rename / make_instr / add_assertion

def _tracker_links(g):
    return events(g).calls("derive_proc"), events(g).calls("decl_new_proc")


def _with_tracker_recorders(c):
    c.callee("derive_proc", result=recorder("derive_proc", ["orig_proc", "new_proc", "config_set"]), assumed=False,
             note="ghost recorder: the equivalence tracker's derive_proc (C11) is logged, not executed")
    c.callee("decl_new_proc", result=recorder("decl_new_proc", ["proc"]), assumed=False,
             note="ghost recorder: the equivalence tracker's decl_new_proc (C11) is logged, not executed")
    c.native_modules.update(m for m in NATIVE if m != "exo.core.proc_eqv")


def _native_tracked(call):
    """replay: the real wrapper runs natively with recorders around the tracker"""
    def entry(g, fn, a):
        ev = events(g)

        def derive(orig_proc, new_proc, config_set=frozenset()):
            ev.add("derive_proc", orig_proc=orig_proc, new_proc=new_proc, config_set=config_set)

        def decl(proc):
            ev.add("decl_new_proc", proc=proc)
        with patched(API, {"derive_proc": derive, "decl_new_proc": decl}):
            return call(fn, a)
    return entry


crn = contract("C19", FAS, "rename")
_with_tracker_recorders(crn)


@crn.inputs
def _(g):
    ir, _ = _sym_proc(g, g.choose([_st, _tr], "proc"))
    P = _wrap(ir)
    g.ghost.pop("events", None)
    return {"proc": P, "name": g.choose(["renamed", "x1"], "name"), "__ghost__": {"ir": ir}}


crn.entry = lambda g, it, fn, a: it.call(fn.func, [a.proc, a.name])
crn.native_entry = _native_tracked(lambda fn, a: fn(a.proc, a.name))


@crn.ensures("result equals the input except for the name")
def _(a):
    r = a.result._loopir_proc
    return same_proc(r, a.ghost.ir.update(name=a.name)) and r.name == a.name


@crn.ensures("the result is linked to the original as an equivalent procedure (no configuration caveat)")
def _(a):
    der, dec = _tracker_links(a.g)
    return len(der) == 1 and not dec and der[0]["orig_proc"] is a.ghost.ir \
        and der[0]["new_proc"] is a.result._loopir_proc and len(der[0]["config_set"]) == 0


cmi = contract("C19", FAS, "make_instr")
_with_tracker_recorders(cmi)


@cmi.inputs
def _(g):
    ir, _ = _sym_proc(g, g.choose([_st, _tr], "proc"))
    P = _wrap(ir)
    g.ghost.pop("events", None)
    return {"proc": P, "c_instr": "do_it({x_data});", "c_global": g.choose(["", "#include <x.h>"], "global"),
            "__ghost__": {"ir": ir}}


cmi.entry = lambda g, it, fn, a: it.call(fn.func, [a.proc, a.c_instr, a.c_global])
cmi.native_entry = _native_tracked(lambda fn, a: fn(a.proc, a.c_instr, a.c_global))


@cmi.ensures("result equals the input except for the instruction annotation, which carries the given strings")
def _(a):
    r = a.result._loopir_proc
    return same_proc(r, a.ghost.ir.update(instr=LoopIR.instr(c_instr=a.c_instr, c_global=a.c_global)))


@cmi.ensures("the result is linked to the original as an equivalent procedure")
def _(a):
    der, dec = _tracker_links(a.g)
    return len(der) == 1 and not dec and der[0]["orig_proc"] is a.ghost.ir \
        and der[0]["new_proc"] is a.result._loopir_proc and len(der[0]["config_set"]) == 0


caa = contract("C19", FA, "Procedure.add_assertion")
_with_tracker_recorders(caa)


@caa.inputs
def _(g):
    ir, _ = _sym_proc(g, g.choose([_st, _tr], "proc"))
    P = _wrap(ir)
    g.ghost.pop("events", None)
    return {"self": P, "assertion": g.choose(["n > 4", "n % 8 == 0"], "assertion"), "__ghost__": {"ir": ir}}


caa.native_entry = _native_tracked(lambda fn, a: fn(a.self, a.assertion))


@caa.ensures("result equals the input except that one assertion is appended")
def _(a):
    r, o = a.result._loopir_proc, a.ghost.ir
    if len(r.preds) != len(o.preds) + 1:
        return False
    return same_proc(r, o.update(preds=o.preds + [r.preds[-1]]))


@caa.ensures("the appended assertion is a boolean expression over the procedure's own symbols")
def _(a):
    r = a.result._loopir_proc
    p = r.preds[-1]
    syms = {x.name for x in r.args}
    return isinstance(p.type, T.Bool) and all(n.name in syms for n in nodes_of([p], LoopIR.Read))


@caa.ensures("no equivalence link to the original is created (the admissible inputs changed)")
def _(a):
    der, dec = _tracker_links(a.g)
    return not der and len(dec) == 1 and dec[0]["proc"] is a.result._loopir_proc \
        and a.result._provenance_eq_Procedure is None


# ----------------------------------------------------------------------------
# DoPartialEval.map_e, modularly: the only code partial evaluation adds to the generic traversal.
# For a read of a bound index/size/bool argument the result is the literal of the right type; for EVERY other
# expression the method delegates to LoopIR_Rewrite.map_e (whose traversal is exercised end-to-end above and has
# its own contract under C09).  The expression is schematic apart from its constructor.

from exo.rewrite import LoopIR_scheduling as LS

_N, _B, _X = Sym("n"), Sym("b"), Sym("x")
_TOKEN = LoopIR.Const(-1, T.int, SRC)

cme = contract("C19", FS, "DoPartialEval.map_e")
cme.callee("LoopIR_Rewrite.map_e", result=lambda g, a: g.ghost.__setitem__("delegated", a.e) or _TOKEN,
           assumed=False, note="generic traversal of LoopIR_Rewrite (exercised end-to-end by Procedure.partial_eval; "
                               "statement traversal under contract in C09)")


@cme.inputs
def _(g):
    env = {}
    if g.choose([True, False], "n bound"):
        env[_N] = g.int("vn")
    if g.choose([True, False], "b bound"):
        env[_B] = g.bool("vb")
    if not env:
        g.assume(False)
    k = g.choose(["size read", "index read", "bool read", "tensor read", "scalar read", "literal", "binop",
                  "usub", "stride", "window"], "e")
    rd_n = LoopIR.Read(_N, [], T.size, SRC)
    if k == "size read":
        e = rd_n
    elif k == "index read":
        e = LoopIR.Read(_N, [], T.index, SRC)
    elif k == "bool read":
        e = LoopIR.Read(_B, [], T.bool, SRC)
    elif k == "tensor read":
        e = LoopIR.Read(_X, [rd_n], T.f32, SRC)
    elif k == "scalar read":
        e = LoopIR.Read(_X, [], T.f32, SRC)
    elif k == "literal":
        e = LoopIR.Const(g.int("c"), T.int, SRC)
    elif k == "binop":
        e = LoopIR.BinOp("+", rd_n, LoopIR.Const(g.int("c"), T.int, SRC), T.index, SRC)
    elif k == "usub":
        e = LoopIR.USub(rd_n, T.index, SRC)
    elif k == "stride":
        e = LoopIR.StrideExpr(_X, 0, T.stride, SRC)
    else:
        e = LoopIR.WindowExpr(_X, [LoopIR.Interval(LoopIR.Const(0, T.int, SRC), rd_n, SRC)],
                              T.Window(T.Tensor([rd_n], False, T.f32), T.Tensor([rd_n], True, T.f32), _X, []), SRC)
    me = object.__new__(LS.DoPartialEval)
    me.env = env
    return {"self": me, "e": e, "__ghost__": {"kind": k, "env": env}}


@cme.ensures("a read of a bound size/index/bool argument becomes the literal of that value with the right type; "
             "every other expression is handed to the generic traversal unchanged")
def _(a):
    e, env, r = a.e, a.ghost.env, a.result
    if isinstance(e, LoopIR.Read) and len(e.idx) == 0 and e.name in env and not e.type.is_numeric():
        want = LoopIR.Const(env[e.name], T.bool if e.name is _B else T.int, SRC)
        return same(r, want) and "delegated" not in a.g.ghost
    return r is _TOKEN and a.g.ghost.get("delegated") is e
