"""C05 - replace only substitutes true instances of the callee: THE STRUCTURAL MATCHER.

Property sentences used (properties.jsonl, C05): "replace(p, block, f) succeeds only when the selected statements
are an instance of f's body: running f with the inferred arguments has exactly the effect of the replaced
statements, the inferred windows, sizes and strides satisfy f's signature ..., and inlining the new call gives back
an equivalent program"; mechanism "structural unification of callee body against the block with index holes,
buffer holes and window case variables (Unification, BufVar)".

What "instance" means here (the oracle `Oracle`, written from the sentence above, not from the code).  A *hole
assignment* sigma gives every index hole (index / size argument of the callee), every window symbol (lo / hi / pt of
every window case) and every case variable an integer for each valuation rho of the variables of the block; it maps
every callee buffer to ONE block buffer.  A callee node P *is* the block node B under sigma when
    they have the same constructor (Assign is not Reduce), the same operator, literal, configuration field,
    extern, callee procedure; index expressions have the same value (callee iterators identified with the block's
    iterators by the enclosing For pairs); a comparison of index expressions has the same truth value; loops have
    the same lower AND the same upper bound; an access x[p...] of a callee buffer denotes the location b[q...] of
    the block: sigma(x) is b and  coordinate d of the window (a point pt_d, or lo_k + p_k for the k-th interval
    dimension of the case sigma selects) equals q_d; every window dimension has the extent the callee declares.
Soundness of the matcher = for every sigma that satisfies the equations it collects, P is B under sigma.  The
equations are handed to UEq.problem.solve, whose contracts (contracts/c05_replace.py) say that a returned solution
satisfies every equation for all rho; BufVar.get_solution / from_ueq (below) turn that solution into the arguments.

Under contract here (src/exo/rewrite/LoopIR_unification.py), one shape per constructor pair, children SCHEMATIC
(arbitrary expression / statement, never inspected; the recursive calls are replaced by the contract itself =
structural induction), integer leaves symbolic:
  (M1) Unification.to_ueq        the affine expression has the value of the index expression (callee iterators
                                 renamed by idx_subst, block-side `/` `%` nodes by their symbol)
  (M2) Unification.from_ueq      the LoopIR expression read back has the value of the affine expression
  (M3) Unification.unify_affine_e  exactly one equation  value(callee expr) == value(block expr)
  (M4) comparision_to_unification_expr   `lhs op rhs`  <=>  0 < e  (0 == e for `==`)
  (M5) Unification.unify_e       per constructor pair: returns only if constructors / operators / literals agree and
                                 the equations added imply "pe is be under sigma"
  (M6) Unification.unify_accesses  buffer binding (a callee buffer is bound to ONE block buffer), per-dimension
                                 index equations, window case list, size equations
  (M7) BufVar.get_solution       the window expression built from a solution follows the SELECTED case
  (M8) Unification.unify_stmts   per statement pair; For: lo and hi as two equations, iterator binding in force for
                                 the body; If: condition and both branches; tail of the block
  (M9) unify_buf_name_no_win, unify_types, unify_bool_hole, unify_stride_hole  (a buffer / bool / stride argument
                                 is bound to ONE block buffer / expression; second occurrences are compared)
  (M10) Unification.__init__     protocol: holes = index arguments + every window symbol and case variable, knowns =
                                 indexable free variables of the block + mod-div symbols (never a callee symbol);
                                 the solver is asked about exactly the collected equations; the arguments are, in
                                 order, the read-back / window / bound expression of THEIR hole
ENGINE (bounded stand-in, contracts/replace_ghost.py): end-to-end translation validation of the real
replace + inline on concrete pairs, for all inputs; reported under `bounded`, never counted as discharged.

Unbounded: every integer (literals, coefficients, values of sub-expressions, window offsets), depth and content of
every child expression / statement (schematic + induction).  Bounded (stated): list lengths - blocks 0..2, indices
0..2 (callee) + 0..2 extra block indices, window coordinates 1..2, extern arguments 1 or 4, 2 collected equations
in (M10) - and the concrete callee signatures / blocks of (M10).

Genuine defects reported by these contracts on /repo 65ce5978 (both repaired with a validated patch, witness/):
  * unify_accesses, windowed path: a window argument was bound to the buffer of its first access only
    (clause BOUND; witness/F_C05_window_buffer_rebound.py; fixed in /repo 17f82caa);
  * unify_stride_hole: a second occurrence of a stride argument was never compared with the first
    (clause STRIDE_LBL; witness/F_C05_stride_hole_rebound.py).
"""
from __future__ import annotations
import itertools, os
import z3

from pyvc.contract import contract
from pyvc import sym as S
from pyvc.sym import And, Or, Not, Implies, Iff, SInt, SBool
from pyvc.interp import ProgExc, Opaque, construct_adt, deep_concrete
from contracts.ghost import _opaque_class, SRC, rho, opaque_expr, ev as bev_plain
from exo.core.LoopIR import LoopIR, T
from exo.core.prelude import Sym, SrcInfo
from exo.core.memory import DRAM

F = "src/exo/rewrite/LoopIR_unification.py"

ENGINES = ["contracts.replace_ghost:run"]

ASSUMPTIONS = [
    "C05 matcher: the callee handed to Unification is an alpha-renamed copy (DoReplace protocol, c05_replace.py): no "
    "symbol of the callee occurs in the block, so idx_subst (callee iterator -> block iterator) never renames a "
    "block-side variable",
    "C05 matcher: a mod/div symbol of _Find_Mod_Div_Symbols denotes the value of the block-side `/` or `%` node it "
    "was created for (node_syms / sym_nodes are inverse on the nodes found)",
    "C05 matcher: FreeVars (free variables of the block), Get_Live_Variables and _Find_Mod_Div_Symbols are run natively / "
    "given as inputs in the protocol contract of Unification.__init__; that they list the variables in scope and the "
    "mod-div nodes of the block is not covered by a contract (only by the bounded end-to-end engine)",
    "C05 matcher: loop modes (seq / par) are not compared by the matcher and are not part of the store semantics used "
    "here (a par loop that compiles is race-free, C09)",
    "C05 matcher: numeric precision and memory annotations of local allocations are not compared (real-number semantics)",
]

SRC2 = SrcInfo("ghost-block", 2)


def LU():
    import exo.rewrite.LoopIR_unification as m
    return m


def UEq():
    return LU().UEq


def UErr():
    return LU().UnificationError


def mk(cls, *args):
    """ADT node whose integer fields may be symbolic (no field validation)"""
    if all(deep_concrete(x) for x in args):
        return cls(*args)
    return construct_adt(cls, list(args), {})


# ======================================================================================================
# schematic leaves
# ======================================================================================================

OE_, OS_ = _opaque_class(LoopIR.expr), _opaque_class(LoopIR.stmt)


def OUE():
    return _opaque_class(UEq().expr)


def OUP():
    return _opaque_class(UEq().pred)


_FS = {}


def callee_proc(k):
    """two distinct argument-free procedures: concrete stand-ins of a schematic statement are calls of one of them
    (two such statements are instances of each other iff they call the same procedure)"""
    if k not in _FS:
        _FS[k] = LoopIR.proc(f"leaf{k}", [], [], [LoopIR.Pass(SRC)], None, SRC)
    return _FS[k]


def o_index(g, name, typ=None):
    """arbitrary index expression (symbolic) / a literal or a variable (concrete)"""
    return opaque_expr(g, name, typ or T.index)


def o_num(g, name, typ=None):
    """arbitrary numeric expression / a literal 0.0, 1.0 or 2.0"""
    typ = typ or T.f32
    if g.concrete:
        return LoopIR.Const(float(g.int("lit_" + name) % 3), typ, SRC)
    return OE_(name, None, typ, ())


def o_bool(g, name):
    if g.concrete:
        return LoopIR.Const(bool(g.int("lit_" + name) % 2), T.bool, SRC)
    return OE_(name, None, T.bool, ())


def o_stmt(g, name):
    if g.concrete:
        return LoopIR.Call(callee_proc(g.int("leaf_" + name) % 2), [], SRC)
    return OS_(name, None, None, ())


def o_uexpr(g, name):
    v = g.int("uev_" + name)
    if g.concrete:
        return UEq().Const(v)
    return OUE()(name, v, None, ())


# ======================================================================================================
# values
# ======================================================================================================

def uev(e):
    """value of an affine expression: every variable (hole, known, iterator) takes its value under rho"""
    U = UEq()
    if isinstance(e, Opaque):
        return e._pyvc_ev
    if isinstance(e, U.Const):
        return e.val
    if isinstance(e, U.Var):
        return rho(e.name)
    if isinstance(e, U.Add):
        return uev(e.lhs) + uev(e.rhs)
    if isinstance(e, U.Scale):
        return e.coeff * uev(e.e)
    raise AssertionError(f"uev: {type(e).__name__}")


def holds(p, case_val=None):
    """truth of a predicate of the equation system under rho; a case variable takes its value under rho"""
    U = UEq()
    if isinstance(p, Opaque):
        return p._pyvc_ev
    if isinstance(p, U.Eq):
        return uev(p.lhs) == uev(p.rhs)
    if isinstance(p, U.Conj):
        return And([holds(q) for q in p.preds])
    if isinstance(p, U.Disj):
        return Or([holds(q) for q in p.preds])
    if isinstance(p, U.Cases):
        cv = rho(p.case_var)
        return Or([And(cv == i, holds(q)) for i, q in enumerate(p.cases)])
    raise AssertionError(f"holds: {type(p).__name__}")


def all_hold(ps):
    return And([holds(p) for p in ps])


def ival(e, subst=None, node_syms=None):
    """value of an index expression; `subst` renames callee iterators (None on the block side); a block-side
    `/` / `%` node has the value of its mod-div symbol when it has one"""
    if isinstance(e, Opaque):
        return e._pyvc_ev
    if isinstance(e, (int, SInt, SBool)):
        return e
    if isinstance(e, LoopIR.Const):
        return e.val
    if isinstance(e, LoopIR.Read):
        assert len(e.idx) == 0
        n = e.name
        if subst is not None and n in subst:
            n = subst[n]
        return rho(n)
    if isinstance(e, LoopIR.USub):
        return -ival(e.arg, subst, node_syms)
    if isinstance(e, LoopIR.BinOp):
        if node_syms is not None and id(e) in node_syms:
            return rho(node_syms[id(e)])
        a, b = ival(e.lhs, subst, node_syms), ival(e.rhs, subst, node_syms)
        op = e.op
        if op == "+":
            return a + b
        if op == "-":
            return a - b
        if op == "*":
            return a * b
        if op == "/":
            return S.floordiv(a, b)
        if op == "%":
            return S.mod(a, b)
        return cmp_val(op, a, b)
    raise AssertionError(f"ival: {type(e).__name__}")


def cmp_val(op, a, b):
    return {"<": lambda: a < b, "<=": lambda: a <= b, ">": lambda: a > b, ">=": lambda: a >= b,
            "==": lambda: a == b}[op]()


def pval(e, me):
    return ival(e, me.idx_subst, None)


def bval(e, me):
    return ival(e, None, me.node_syms)


CMP = ["<", "<=", ">", ">=", "=="]


# ======================================================================================================
# the matcher object
# ======================================================================================================

def mk_matcher(**kw):
    me = object.__new__(LU().Unification)
    me.equations = []
    me.stmt_block = []
    me.index_holes = []
    me.buf_holes = {}
    me.bool_holes = {}
    me.stride_holes = {}
    me.buf_unknowns = {}
    me.FV = {}
    me.bbuf_types = {}
    me.node_syms = {}
    me.sym_nodes = {}
    me.idx_subst = {}
    for k, v in kw.items():
        setattr(me, k, v)
    return me


def added(a):
    return a.self.equations[a.ghost.n0:]


# ======================================================================================================
# (M1) Unification.to_ueq
# ======================================================================================================

c_to = contract("C05", F, "Unification.to_ueq")

IT_P, IT_B, HOLE, FREE = Sym("ip"), Sym("ib"), Sym("n_hole"), Sym("m")


def ih_to_ueq(g, a):
    """induction hypothesis / contract (M1) on a sub-expression"""
    if a.in_subproc and g.choose(["lowers", "uses / or %"], "ih.to_ueq") != "lowers":
        raise ProgExc(UErr()("a callee expression uses / or %"))
    v = pval(a.e, a.self) if a.in_subproc else bval(a.e, a.self)
    r = OUE()("lowered", g.int("uev_lowered"), None, ())
    g.assume(r._pyvc_ev == v)
    g.ghost.setdefault("to_ueq_calls", []).append((a.e, a.in_subproc, r))
    return r


c_to.callee("Unification.to_ueq", result=ih_to_ueq, assumed=False,
            note="induction hypothesis: contract (M1) on a sub-expression")

TO_SHAPES = ["callee iterator", "hole", "free variable", "Const", "USub", "+", "-", "c * e", "e * c", "e * e", "/", "%"]


@c_to.inputs
def _(g):
    k = g.choose(TO_SHAPES, "e")
    insp = g.choose([True, False], "in_subproc")
    node_syms, sym_nodes = {}, {}
    me = mk_matcher(idx_subst={IT_P: IT_B}, index_holes=[HOLE], node_syms=node_syms, sym_nodes=sym_nodes)
    rd = lambda s: LoopIR.Read(s, [], T.index, SRC)
    if k == "callee iterator":
        e = rd(IT_P)
    elif k == "hole":
        e = rd(HOLE)
    elif k == "free variable":
        e = rd(FREE)
    elif k == "Const":
        e = mk(LoopIR.Const, g.int("c"), T.int, SRC)
    elif k == "USub":
        e = LoopIR.USub(o_index(g, "arg"), T.index, SRC)
    elif k in ("+", "-", "e * e"):
        e = LoopIR.BinOp("*" if k == "e * e" else k, o_index(g, "l"), o_index(g, "r"), T.index, SRC)
    elif k == "c * e":
        e = LoopIR.BinOp("*", mk(LoopIR.Const, g.int("c"), T.int, SRC), o_index(g, "r"), T.index, SRC)
    elif k == "e * c":
        e = LoopIR.BinOp("*", o_index(g, "l"), mk(LoopIR.Const, g.int("c"), T.int, SRC), T.index, SRC)
    else:
        e = LoopIR.BinOp(k, o_index(g, "l"), mk(LoopIR.Const, g.pos("d"), T.int, SRC), T.index, SRC)
        if not insp:
            s = Sym("moddiv")
            node_syms[id(e)] = s
            sym_nodes[s] = e
    return {"self": me, "e": e, "in_subproc": insp, "__ghost__": {"kind": k}}


@c_to.requires
def _(a):
    # assumption (see ASSUMPTIONS): the mod-div symbol denotes its node
    cs = []
    for s, n in a.self.sym_nodes.items():
        cs.append(rho(s) == ival(n, None, None))
    # assumption (see ASSUMPTIONS): a callee iterator never occurs on the block side (alpha-renamed callee)
    if a.ghost.kind == "callee iterator" and not a.in_subproc:
        return False
    return And(cs)


@c_to.ensures("the affine expression has the value of the index expression (callee iterators renamed to the block's, "
              "a block-side / or % node replaced by its symbol)")
def _(a):
    want = pval(a.e, a.self) if a.in_subproc else bval(a.e, a.self)
    return uev(a.result) == want


@c_to.ensures("sub-expressions are lowered on the same side (in_subproc is passed down)")
def _(a):
    return all(insp == a.in_subproc for _, insp, _ in a.g.ghost.get("to_ueq_calls", []))


c_to.raises(UErr(), when=lambda a: a.in_subproc or a.ghost.kind in ("/", "%"),
            label="UnificationError only for a callee expression that uses / or %")
c_to.raises(AssertionError, when=lambda a: a.ghost.kind == "e * e",
            label="AssertionError only for a product of two non-literals (not affine)")
c_to.raises(KeyError, when=lambda a: False, label="no KeyError")


# ======================================================================================================
# (M2) Unification.from_ueq
# ======================================================================================================

c_from = contract("C05", F, "Unification.from_ueq")


def ih_from_ueq(g, a):
    if g.choose(["expression", "literal"], "ih.from_ueq") == "literal":
        r = mk(LoopIR.Const, g.int("read_back_lit"), T.int, SRC)
        g.assume(r.val == uev(a.e))
        return r
    typ = g.choose([T.index, T.int, T.size], "type of the sub-expression read back")
    r = OE_("read_back", g.int("ev_read_back"), typ, (LoopIR.Const,))
    g.assume(r._pyvc_ev == uev(a.e))
    return r


c_from.callee("Unification.from_ueq", result=ih_from_ueq, assumed=False,
              note="induction hypothesis: contract (M2) on a sub-expression")

FROM_SHAPES = ["Var free", "Var mod-div symbol", "Const", "Add", "Scale"]


@c_from.inputs
def _(g):
    U = UEq()
    k = g.choose(FROM_SHAPES, "e")
    sym_nodes = {}
    me = mk_matcher(FV={FREE: T.size, IT_B: T.index}, sym_nodes=sym_nodes)
    if k == "Var free":
        e = U.Var(g.choose([FREE, IT_B], "which"))
    elif k == "Var mod-div symbol":
        s = Sym("moddiv")
        sym_nodes[s] = LoopIR.BinOp("/", LoopIR.Read(FREE, [], T.size, SRC), LoopIR.Const(4, T.int, SRC), T.index, SRC)
        e = U.Var(s)
    elif k == "Const":
        e = mk(U.Const, g.int("c"))
    elif k == "Add":
        e = mk(U.Add, o_uexpr(g, "l"), o_uexpr(g, "r"))
    else:
        e = mk(U.Scale, g.int("coeff"), o_uexpr(g, "arg"))
    return {"self": me, "e": e}


@c_from.requires
def _(a):
    return And([rho(s) == ival(n, None, None) for s, n in a.self.sym_nodes.items()])


@c_from.ensures("the LoopIR expression read back has the value of the affine expression")
def _(a):
    return ival(a.result, None, None) == uev(a.e)


@c_from.ensures("the result is an index expression (indexable type)")
def _(a):
    return a.result.type.is_indexable()


# ======================================================================================================
# (M3) Unification.unify_affine_e
# ======================================================================================================

c_aff = contract("C05", F, "Unification.unify_affine_e")
c_aff.callee("Unification.to_ueq", result=ih_to_ueq, assumed=False, note="contract (M1)")


@c_aff.inputs
def _(g):
    me = mk_matcher(idx_subst={IT_P: IT_B})
    npre = g.choose([0, 1], "equations collected before")
    me.equations = [OUP()("earlier", g.bool("holds_earlier"), None, ())] if npre and not g.concrete else []
    return {"self": me, "pa": o_index(g, "pa"), "ba": o_index(g, "ba"), "__ghost__": {"n0": len(me.equations),
                                                                                     "old": list(me.equations)}}


@c_aff.ensures("exactly one equation is added; it holds iff the callee expression and the block expression have the same value")
def _(a):
    new = added(a)
    if len(new) != 1 or not all(x is y for x, y in zip(a.self.equations, a.ghost.old)):
        return False
    return Iff(holds(new[0]), pval(a.pa, a.self) == bval(a.ba, a.self))


@c_aff.ensures("the callee side is lowered as callee side (so / and % there are refused), the block side as block side")
def _(a):
    calls = a.g.ghost.get("to_ueq_calls")
    if calls is None:            # concrete replay: nothing recorded
        return True
    return len(calls) == 2 and calls[0][0] is a.pa and calls[0][1] is True and calls[1][0] is a.ba and calls[1][1] is False


c_aff.raises(UErr(), label="UnificationError only from lowering the callee side")


# ======================================================================================================
# (M4) comparision_to_unification_expr
# ======================================================================================================

c_cmp = contract("C05", F, "Unification.comparision_to_unification_expr")


@c_cmp.inputs
def _(g):
    op = g.choose(CMP, "op")
    e = LoopIR.BinOp(op, o_index(g, "lhs"), o_index(g, "rhs"), T.bool, SRC)
    return {"e": e}


@c_cmp.ensures("`lhs op rhs` holds iff 0 < result (0 == result for ==)")
def _(a):
    r = ival(a.result, None, None)
    l, h = ival(a.e.lhs, None, None), ival(a.e.rhs, None, None)
    truth = cmp_val(a.e.op, l, h)
    return Iff(truth, (0 == r) if a.e.op == "==" else (0 < r))


# ======================================================================================================
# induction hypotheses / summaries of the recursive calls, and the oracle
# ======================================================================================================

def ihlog(g):
    return g.ghost.setdefault("ih", [])


def is_index(e):
    return e.type.is_indexable()


def _ih_pair(g, me, p, b, what):
    """contract of unify_e / unify_accesses on a child pair: it either rejects, or adds equations E such that
    E holds under sigma  ==>  p is b under sigma  (index expressions: E holds  <=>  same value)"""
    if g.choose(["unifies", "rejected"], "ih." + what) == "rejected":
        raise ProgExc(UErr()(f"{what}: the children do not unify"))
    E = OUP()("eqs_of_" + what, g.bool("holds_" + what), None, ())
    me.equations.append(E)
    if hasattr(p, "type") and hasattr(b, "type") and p.type is not None and b.type is not None \
            and is_index(p) and is_index(b) and not isinstance(p, LoopIR.stmt):
        inst = pval(p, me) == bval(b, me)
        g.assume(Iff(holds(E), inst))
    else:
        inst = g.bool("inst_" + what)
        g.assume(Implies(holds(E), inst))
    ihlog(g).append((p, b, inst, dict(me.idx_subst)))
    return None


def ih_unify_e(g, a):
    pe, be = a.pe, a.be
    if is_index(pe) != is_index(be) or (pe.type == T.bool) != (be.type == T.bool):
        raise ProgExc(UErr()("expected expressions to have similar types"))
    return _ih_pair(g, a.self, pe, be, "unify_e")


def sum_unify_affine_e(g, a):
    """contract (M3)"""
    return _ih_pair(g, a.self, a.pa, a.ba, "unify_affine_e")


def sum_unify_accesses(g, a):
    """contract (M6), summarised: equations that imply `the two accesses denote the same location`; the callee buffer
    is bound to the block buffer (never re-bound)"""
    return _ih_pair(g, a.self, a.pnode, a.bnode, "unify_accesses")


def _key(xs):
    return tuple(id(x) for x in xs)


def ih_unify_stmts(g, a):
    P, B = list(a.proc_s), list(a.block_s)
    if len(P) != len(B):
        raise ProgExc(UErr()("cannot unify blocks of different length"))
    if not P:
        return None
    me = a.self
    if g.choose(["unifies", "rejected"], "ih.unify_stmts") == "rejected":
        raise ProgExc(UErr()("the statements do not unify"))
    E = OUP()("eqs_of_block", g.bool("holds_block"), None, ())
    me.equations.append(E)
    inst = g.bool("inst_block")
    g.assume(Implies(holds(E), inst))
    ihlog(g).append((P, B, inst, dict(me.idx_subst)))
    return None


def ih_lookup(g, p, b):
    for pp, bb, inst, snap in ihlog(g):
        if isinstance(pp, list):
            if isinstance(p, list) and _key(pp) == _key(p) and _key(bb) == _key(b):
                return inst, snap
        elif pp is p and bb is b:
            return inst, snap
    return None


def same_sym(x, y):
    return x is y


class Oracle:
    """`P is B under sigma` (module docstring); sigma = rho on holes / window symbols / case variables, the buffer
    map is read off the BufVars AFTER the call.  Children that were handed to a recursive call are looked up in the
    induction-hypothesis log; a schematic child that was never handed to one is not known to be an instance."""
    def __init__(self, g, me):
        self.g, self.me = g, me

    def e(self, pe, be):
        me = self.me
        tp, tb = pe.type, be.type
        if tp.is_indexable() != tb.is_indexable() or (tp == T.bool) != (tb == T.bool):
            return False
        if tp.is_indexable():
            return pval(pe, me) == bval(be, me)
        hit = ih_lookup(self.g, pe, be)
        if hit is not None:
            return hit[0]
        if isinstance(pe, Opaque) or isinstance(be, Opaque):
            return False
        if tp == T.bool and isinstance(pe, LoopIR.Read) and pe.name in me.bool_holes:
            return exact_e(me.bool_holes[pe.name], be) if me.bool_holes[pe.name] is not False else False
        if tp == T.stride and isinstance(pe, LoopIR.Read) and pe.name in me.stride_holes:
            return exact_e(me.stride_holes[pe.name], be) if me.stride_holes[pe.name] is not False else False
        if type(pe) is not type(be):
            return False
        if isinstance(pe, LoopIR.Const):
            return pe.val == be.val
        if isinstance(pe, LoopIR.USub):
            return self.e(pe.arg, be.arg)
        if isinstance(pe, LoopIR.BinOp):
            ops = [pe.lhs, pe.rhs, be.lhs, be.rhs]
            if pe.op in CMP and be.op in CMP and all(is_index(x) for x in ops):
                # a comparison of index expressions is an instance iff it has the same truth value
                return Iff(cmp_val(pe.op, pval(pe.lhs, me), pval(pe.rhs, me)),
                           cmp_val(be.op, bval(be.lhs, me), bval(be.rhs, me)))
            if pe.op != be.op:
                return False
            return And(self.e(pe.lhs, be.lhs), self.e(pe.rhs, be.rhs))
        if isinstance(pe, LoopIR.Extern):
            if pe.f is not be.f or len(pe.args) != len(be.args):
                return False
            return And([self.e(x, y) for x, y in zip(pe.args, be.args)])
        if isinstance(pe, LoopIR.ReadConfig):
            return pe.config is be.config and pe.field == be.field
        if isinstance(pe, LoopIR.Read):
            return self.access(pe, be)
        if isinstance(pe, LoopIR.WindowExpr):
            return self.window(pe, be)
        raise AssertionError(f"oracle: {type(pe).__name__}")

    def bound(self, pname, bname):
        pv = self.me.buf_unknowns.get(pname)
        return pv is not None and pv.solution_buf is bname

    def access(self, pnode, bnode):
        """the callee access denotes the location of the block access"""
        me = self.me
        hit = ih_lookup(self.g, pnode, bnode)
        if hit is not None:
            return hit[0]
        pv = me.buf_unknowns.get(pnode.name)
        if pv is None or pv.solution_buf is not bnode.name:
            return False
        pidx, bidx = list(pnode.idx), list(bnode.idx)
        if not pv.use_win:
            if len(pidx) != len(bidx) or pv.case_var is not None:
                return False
            return And([pval(p, me) == bval(b, me) for p, b in zip(pidx, bidx)])
        gap = len(bidx) - len(pidx)
        if gap < 0 or pv.win_dim != gap or pv.case_var is None:
            return False
        combos = list(itertools.combinations(range(len(bidx)), gap))
        if len(pv.cases) != len(combos):
            return False
        cv = rho(pv.case_var)
        alts = []
        for c, pts in enumerate(combos):
            case = pv.cases[c]
            if len(case) != len(bidx):
                return False
            conj, k = [cv == c], 0
            for d in range(len(bidx)):
                w = case[d]
                if d in pts:
                    if not isinstance(w, Sym):
                        return False
                    conj.append(rho(w) == bval(bidx[d], me))
                else:
                    if isinstance(w, Sym):
                        return False
                    conj.append(rho(w[0]) + pval(pidx[k], me) == bval(bidx[d], me))
                    k += 1
            alts.append(And(conj))
        return Or(alts)

    def window(self, pe, be):
        me = self.me
        if not self.bound(pe.name, be.name) or len(pe.idx) != len(be.idx):
            return False
        cs = []
        for pw, bw in zip(pe.idx, be.idx):
            if type(pw) is not type(bw):
                return False
            if isinstance(pw, LoopIR.Point):
                cs.append(pval(pw.pt, me) == bval(bw.pt, me))
            else:
                cs += [pval(pw.lo, me) == bval(bw.lo, me), pval(pw.hi, me) == bval(bw.hi, me)]
        return And(cs)

    def shapes(self, pt, bt):
        ps, bs = pt.shape(), bt.shape()
        if len(ps) != len(bs):
            return False
        return And([pval(x, self.me) == bval(y, self.me) for x, y in zip(ps, bs)])

    def block(self, P, B, binding=None):
        hit = ih_lookup(self.g, list(P), list(B))
        if hit is not None:
            if binding is not None and hit[1].get(binding[0]) is not binding[1]:
                return False            # the body was matched without the iterator binding in force
            return hit[0]
        if len(P) != len(B):
            return False
        if len(P) == 0:
            return True
        return And(self.s(P[0], B[0]), self.block(list(P)[1:], list(B)[1:]))

    def s(self, ps, bs):
        me = self.me
        if isinstance(ps, Opaque) or isinstance(bs, Opaque):
            return False            # a schematic statement that was never handed to the matcher
        if type(ps) is not type(bs):
            return False
        if isinstance(ps, (LoopIR.Assign, LoopIR.Reduce)):
            return And(self.e(ps.rhs, bs.rhs), self.access(ps, bs))
        if isinstance(ps, LoopIR.WriteConfig):
            if ps.config is not bs.config or ps.field != bs.field:
                return False
            return self.e(ps.rhs, bs.rhs)
        if isinstance(ps, LoopIR.Pass):
            return True
        if isinstance(ps, LoopIR.If):
            return And(self.e(ps.cond, bs.cond), self.block(ps.body, bs.body), self.block(ps.orelse, bs.orelse))
        if isinstance(ps, LoopIR.For):
            if me.idx_subst.get(ps.iter) is not bs.iter:
                return False
            return And(self.e(ps.lo, bs.lo), self.e(ps.hi, bs.hi), self.block(ps.body, bs.body, (ps.iter, bs.iter)))
        if isinstance(ps, LoopIR.Alloc):
            pv = me.buf_unknowns.get(ps.name)
            if pv is None or pv.solution_buf is not bs.name or pv.use_win:
                return False
            return self.shapes(ps.type, bs.type)
        if isinstance(ps, LoopIR.Call):
            if ps.f is not bs.f or len(ps.args) != len(bs.args):
                return False
            return And([self.e(x, y) for x, y in zip(ps.args, bs.args)])
        if isinstance(ps, LoopIR.WindowStmt):
            pv = me.buf_unknowns.get(ps.name)
            if pv is None or pv.solution_buf is not bs.name or pv.use_win:
                return False
            return self.e(ps.rhs, bs.rhs)
        raise AssertionError(f"oracle: {type(ps).__name__}")


def exact_e(e0, e1):
    """the two block-side expressions are the same expression"""
    if type(e0) is not type(e1):
        return False
    if isinstance(e0, LoopIR.Read):
        return e0.name is e1.name and len(e0.idx) == len(e1.idx) and all(exact_e(x, y) for x, y in zip(e0.idx, e1.idx))
    if isinstance(e0, LoopIR.Const):
        return e0.val == e1.val
    if isinstance(e0, LoopIR.USub):
        return exact_e(e0.arg, e1.arg)
    if isinstance(e0, LoopIR.BinOp):
        return e0.op == e1.op and exact_e(e0.lhs, e1.lhs) and exact_e(e0.rhs, e1.rhs)
    if isinstance(e0, LoopIR.StrideExpr):
        return e0.name is e1.name and e0.dim == e1.dim
    return e0 is e1


def kept(a):
    """the equations collected earlier are still there, in order"""
    old = a.ghost.old
    return len(a.self.equations) >= len(old) and all(x is y for x, y in zip(a.self.equations, old))


def pre_equations(g, me):
    """some equations were collected before the call under proof"""
    if not g.concrete:
        me.equations.append(OUP()("earlier", g.bool("holds_earlier"), None, ()))
    return {"n0": len(me.equations), "old": list(me.equations)}


SOUND = ("returns only if the callee node IS the block node under every hole assignment that satisfies the equations "
         "it adds (same constructor / operator / literal; index expressions, loop bounds and guards by value)")
KEPT = "the equations collected earlier are kept"
REJECT = "rejection (UnificationError) is always allowed: completeness is not claimed"


# ======================================================================================================
# (M5) Unification.unify_e
# ======================================================================================================

c_ue = contract("C05", F, "Unification.unify_e")
c_ue.callee("Unification.unify_e", result=ih_unify_e, assumed=False,
            note="induction hypothesis: contract (M5) on the sub-expressions")
c_ue.callee("Unification.unify_affine_e", result=sum_unify_affine_e, assumed=False, note="contract (M3)")
c_ue.callee("Unification.unify_accesses", result=sum_unify_accesses, assumed=False, note="contract (M6)")

X_, Y_, A_, B_ = Sym("x"), Sym("y"), Sym("a"), Sym("b")
BH_, SH_ = Sym("flag"), Sym("str")


def _cfgs():
    from exo.core.configs import Config
    from exo.core.LoopIR import UAST
    d = _cfgs.__dict__
    if "c" not in d:
        d["c"] = (Config("CfgM1", [("f", UAST.F32()), ("g", UAST.F32())], False),
                  Config("CfgM2", [("f", UAST.F32())], False))
    return d["c"]


def _tensor(dims, win=False):
    return T.Tensor(list(dims), win, T.f32)


def std_bufs(me, g, rank=1, use_win=False):
    """callee buffer x (BufVar), block buffers a, b of the same rank"""
    BufVar = LU().BufVar
    me.buf_unknowns[X_] = BufVar(X_, _tensor([o_index(g, f"xs{i}") for i in range(rank)], use_win), use_win)
    for s in (A_, B_):
        me.bbuf_types[s] = _tensor([o_index(g, f"{s.name()}s{i}") for i in range(rank)])
    return me


UE_SHAPES = ["index", "index vs numeric", "bool vs numeric", "Const", "Const vs USub", "USub", "arith", "cmp", "logic",
             "cmp vs logic", "Extern", "ReadConfig", "Read", "WindowExpr", "bool hole", "stride hole"]


def g_expr_pair(g, me, k):
    from exo.libs.externs import sin, relu, select
    if k == "index":
        return o_index(g, "pe"), o_index(g, "be")
    if k == "index vs numeric":
        return (o_index(g, "pe"), o_num(g, "be")) if g.choose([0, 1], "which") else (o_num(g, "pe"), o_index(g, "be"))
    if k == "bool vs numeric":
        return (o_bool(g, "pe"), o_num(g, "be")) if g.choose([0, 1], "which") else (o_num(g, "pe"), o_bool(g, "be"))
    if k == "Const":
        return mk(LoopIR.Const, g.int("pc"), T.f32, SRC), mk(LoopIR.Const, g.int("bc"), T.f32, SRC2)
    if k == "Const vs USub":
        return mk(LoopIR.Const, g.int("pc"), T.f32, SRC), LoopIR.USub(o_num(g, "ba"), T.f32, SRC2)
    if k == "USub":
        return LoopIR.USub(o_num(g, "pa"), T.f32, SRC), LoopIR.USub(o_num(g, "ba"), T.f32, SRC2)
    if k == "arith":
        po, bo = g.choose(["+", "*", "/"], "callee op"), g.choose(["+", "-", "*", "/"], "block op")
        return (LoopIR.BinOp(po, o_num(g, "pl"), o_num(g, "pr"), T.f32, SRC),
                LoopIR.BinOp(bo, o_num(g, "bl"), o_num(g, "br"), T.f32, SRC2))
    if k == "cmp":
        po, bo = g.choose(CMP, "callee op"), g.choose(CMP, "block op")
        return (LoopIR.BinOp(po, o_index(g, "pl"), o_index(g, "pr"), T.bool, SRC),
                LoopIR.BinOp(bo, o_index(g, "bl"), o_index(g, "br"), T.bool, SRC2))
    if k == "logic":
        po, bo = g.choose(["and", "or"], "callee op"), g.choose(["and", "or"], "block op")
        return (LoopIR.BinOp(po, o_bool(g, "pl"), o_bool(g, "pr"), T.bool, SRC),
                LoopIR.BinOp(bo, o_bool(g, "bl"), o_bool(g, "br"), T.bool, SRC2))
    if k == "cmp vs logic":
        return (LoopIR.BinOp("<", o_index(g, "pl"), o_index(g, "pr"), T.bool, SRC),
                LoopIR.BinOp("and", o_bool(g, "bl"), o_bool(g, "br"), T.bool, SRC2))
    if k == "Extern":
        fp, fb, n = g.choose([(sin, sin, 1), (sin, relu, 1), (select, select, 4)], "externs")
        return (LoopIR.Extern(fp, [o_num(g, f"pa{i}") for i in range(n)], T.f32, SRC),
                LoopIR.Extern(fb, [o_num(g, f"ba{i}") for i in range(n)], T.f32, SRC2))
    if k == "ReadConfig":
        c1, c2 = _cfgs()
        cp, fp, cb, fb = g.choose([(c1, "f", c1, "f"), (c1, "f", c1, "g"), (c1, "f", c2, "f")], "config fields")
        return LoopIR.ReadConfig(cp, fp, T.f32, SRC), LoopIR.ReadConfig(cb, fb, T.f32, SRC2)
    if k == "Read":
        std_bufs(me, g)
        return LoopIR.Read(X_, [o_index(g, "pi")], T.f32, SRC), LoopIR.Read(A_, [o_index(g, "bi")], T.f32, SRC2)
    if k == "WindowExpr":
        n, nb = g.choose([(1, 1), (2, 2), (1, 2)], "window coordinates (callee, block)")
        std_bufs(me, g, rank=n)
        state = g.choose(["first occurrence", "bound to this buffer", "bound to another buffer"], "state") \
            if nb == n else "first occurrence"
        if state != "first occurrence":
            me.buf_unknowns[X_].set_buf_solution(A_ if state == "bound to this buffer" else B_)
        kinds = g.choose(list(itertools.product("PI", repeat=n)), "callee coordinates")
        flip = g.choose([None] + list(range(n)), "block coordinate of the other kind") if nb == n else None
        bkinds = [("I" if c == "P" else "P") if i == flip else c for i, c in enumerate(kinds)] + ["I"] * (nb - n)

        def acc(side, i, kind, src):
            if kind == "P":
                return LoopIR.Point(o_index(g, f"{side}pt{i}"), src)
            return LoopIR.Interval(o_index(g, f"{side}lo{i}"), o_index(g, f"{side}hi{i}"), src)
        pidx = [acc("p", i, c, SRC) for i, c in enumerate(kinds)]
        bidx = [acc("b", i, c, SRC2) for i, c in enumerate(bkinds)]
        wt = lambda buf, idx: T.Window(_tensor([o_index(g, "ws")]), _tensor([o_index(g, "wt")], True), buf, idx)
        return LoopIR.WindowExpr(X_, pidx, wt(X_, pidx), SRC), LoopIR.WindowExpr(A_, bidx, wt(A_, bidx), SRC2)
    if k == "bool hole":
        me.bool_holes[BH_] = False
        me.FV[FREE] = T.size
        be = LoopIR.BinOp("<", LoopIR.Read(FREE, [], T.size, SRC2), mk(LoopIR.Const, g.int("c"), T.int, SRC2), T.bool, SRC2)
        return LoopIR.Read(BH_, [], T.bool, SRC), be
    if k == "stride hole":
        me.stride_holes[SH_] = False
        return LoopIR.Read(SH_, [], T.stride, SRC), LoopIR.StrideExpr(A_, 0, T.stride, SRC2)
    raise AssertionError(k)


@c_ue.inputs
def _(g):
    me = mk_matcher(idx_subst={IT_P: IT_B})
    k = g.choose(UE_SHAPES, "pair")
    pe, be = g_expr_pair(g, me, k)
    gh = pre_equations(g, me)
    gh["kind"] = k
    return {"self": me, "pe": pe, "be": be, "__ghost__": gh}


@c_ue.ensures(SOUND)
def _(a):
    return Implies(all_hold(added(a)), Oracle(a.g, a.self).e(a.pe, a.be))


@c_ue.ensures(KEPT)
def _(a):
    return kept(a)


c_ue.raises(UErr(), label=REJECT)


# ======================================================================================================
# (M6) Unification.unify_accesses
# ======================================================================================================

c_acc = contract("C05", F, "Unification.unify_accesses")
c_acc.callee("Unification.to_ueq", result=ih_to_ueq, assumed=False, note="contract (M1)")
c_acc.callee("Unification.unify_affine_e", result=sum_unify_affine_e, assumed=False, note="contract (M3)")
c_acc.callee("Unification.is_proc_constant", result=lambda g, a: g.bool("is_proc_constant"), assumed=True,
             note="is_proc_constant only selects between two rejections (NotImplementedError / UnificationError)")

BOUND = ("a callee buffer is bound to ONE block buffer: on return it is bound to the buffer of this access, and it was "
         "unbound or bound to that same buffer before")
CASES = ("window cases: one case per choice of point dimensions (all of them, in order), each with a point symbol for "
         "every point dimension and a (lo, hi) pair for every interval dimension, all symbols distinct")
SIZES = "window sizes: the equations added for the first access imply hi - lo == the extent the callee declares, in every case"
WLBL = "f52_window_buffer_rebound"


def my_cases(name, n_dim, win_dim):
    """window cases built by hand (state of a BufVar that was accessed before)"""
    full = n_dim + win_dim
    out = []
    for cid, pts in enumerate(itertools.combinations(range(full), win_dim)):
        out.append([Sym(f"{name}_c{cid}_pt{i}") if i in pts else (Sym(f"{name}_c{cid}_lo{i}"), Sym(f"{name}_c{cid}_hi{i}"))
                    for i in range(full)])
    return out


ACC_STATES = ["first occurrence", "bound to this buffer", "bound to another buffer", "bound, windowed down from another rank"]


@c_acc.inputs
def _(g):
    BufVar = LU().BufVar
    me = mk_matcher(idx_subst={IT_P: IT_B})
    form = g.choose(["element access", "whole buffer argument"], "form")
    use_win = g.choose([False, True], "callee buffer is a window argument")
    if form == "whole buffer argument":
        rp, rb = g.choose([(1, 1), (2, 2), (1, 2), (0, 1), (1, 0)], "ranks (callee, block)")
        state = g.choose(ACC_STATES[:3], "state")
        ptyp = _tensor([o_index(g, f"xs{i}") for i in range(rp)], use_win) if rp else T.f32
        btyp = _tensor([o_index(g, f"as{i}") for i in range(rb)]) if rb else T.f32
        pv = BufVar(X_, ptyp, use_win)
        pnode = LoopIR.Read(X_, [] if rp else [], ptyp, SRC)
        bnode = LoopIR.Read(A_, [], btyp, SRC2)
        gap = 0
        if rp == 0 and rb == 0:
            raise AssertionError
    else:
        if use_win:
            rp, gap = g.choose([(1, 0), (1, 1), (2, 0), (2, 1), (1, 2), (2, -1)], "callee indices, extra block indices")
            state = g.choose(ACC_STATES, "state")
        else:
            rp, gap = g.choose([(0, 0), (1, 0), (2, 0), (0, 1), (1, 1), (1, -1)], "callee indices, extra block indices")
            state = g.choose(ACC_STATES[:3], "state")
        rb = rp + gap
        ptyp = _tensor([o_index(g, f"xs{i}") for i in range(rp)], use_win) if rp else T.f32
        btyp = _tensor([o_index(g, f"as{i}") for i in range(rb)]) if rb else T.f32
        pv = BufVar(X_, ptyp, use_win)
        pidx = [o_index(g, f"pi{i}") for i in range(rp)]
        bidx = [o_index(g, f"bi{i}") for i in range(rb)]
        if g.choose(["Read", "Assign"], "node") == "Read":
            pnode, bnode = LoopIR.Read(X_, pidx, T.f32, SRC), LoopIR.Read(A_, bidx, T.f32, SRC2)
        else:
            pnode = LoopIR.Assign(X_, T.f32, pidx, o_num(g, "prhs"), SRC)
            bnode = LoopIR.Assign(A_, T.f32, bidx, o_num(g, "brhs"), SRC2)
    if state != "first occurrence":
        pv.set_buf_solution(B_ if state == "bound to another buffer" else A_)
        if use_win and form == "element access":
            wd = max(gap, 0) + (1 if state.startswith("bound, windowed") else 0)
            pv.win_dim, pv.case_var, pv.cases = wd, Sym("x_which_case"), my_cases("x", rp, wd)
    me.buf_unknowns[X_] = pv
    me.buf_holes[X_] = pv
    me.bbuf_types[A_] = btyp
    me.bbuf_types[B_] = btyp
    gh = pre_equations(g, me)
    gh.update(state=state, form=form, use_win=use_win, rp=rp, gap=gap, old_solution=pv.solution_buf,
              old_cases=[list(c) for c in pv.cases], ptyp=ptyp, btyp=btyp)
    return {"self": me, "pnode": pnode, "bnode": bnode, "__ghost__": gh}


def _pv(a):
    return a.self.buf_unknowns[a.pnode.name]


@c_acc.ensures(BOUND)
def _(a):
    pv, old = _pv(a), a.ghost.old_solution
    return pv.solution_buf is a.bnode.name and (old is None or old is a.bnode.name)


@c_acc.ensures("the equations added imply that the callee access denotes the location of the block access: per dimension, "
               "pt_d == q_d (point) or lo_k + p_k == q_d (interval) in the case sigma selects; same indices without a window")
def _(a):
    return Implies(all_hold(added(a)), Oracle(a.g, a.self).access(a.pnode, a.bnode))


@c_acc.ensures(CASES)
def _(a):
    pv, gh = _pv(a), a.ghost
    if not gh.use_win or gh.form != "element access":
        return pv.case_var is None or not gh.use_win
    full = gh.rp + gh.gap
    combos = list(itertools.combinations(range(full), gh.gap))
    if pv.win_dim != gh.gap or not isinstance(pv.case_var, Sym) or len(pv.cases) != len(combos):
        return False
    syms = [pv.case_var]
    for case, pts in zip(pv.cases, combos):
        if len(case) != full:
            return False
        for d, w in enumerate(case):
            if d in pts:
                if not isinstance(w, Sym):
                    return False
                syms.append(w)
            else:
                if isinstance(w, Sym) or len(w) != 2 or not all(isinstance(x, Sym) for x in w):
                    return False
                syms += list(w)
    if len({id(s) for s in syms}) != len(syms):
        return False
    listed = pv.all_syms()
    return len(listed) == len(syms) and {id(s) for s in listed} == {id(s) for s in syms}


@c_acc.ensures(SIZES)
def _(a):
    pv, gh = _pv(a), a.ghost
    if not gh.use_win or gh.form != "element access" or gh.state != "first occurrence":
        return True
    shape = gh.ptyp.shape()
    cs = []
    for case in pv.cases:
        ivs = [w for w in case if not isinstance(w, Sym)]
        if len(ivs) != len(shape):
            return False
        for (lo, hi), sz in zip(ivs, shape):
            cs.append(rho(hi) - rho(lo) == bval(sz, a.self))
    return Implies(all_hold(added(a)), And(cs))


@c_acc.ensures("whole buffer argument: the equations added imply that the two buffers have the same extents")
def _(a):
    gh = a.ghost
    if gh.form != "whole buffer argument":
        return True
    return Implies(all_hold(added(a)), Oracle(a.g, a.self).shapes(gh.ptyp, gh.btyp))


@c_acc.ensures(KEPT)
def _(a):
    return kept(a)


c_acc.raises(UErr(), label=REJECT)
c_acc.raises(NotImplementedError, when=lambda a: not a.ghost.use_win and a.ghost.rp == 0 and a.ghost.gap > 0,
             label="NotImplementedError only for a scalar of the callee against an indexed access (no window)")


def f52_window_buffer_rebound(c, model, choices):
    """witness class of the known finding: the callee buffer is a window argument that was already bound to ANOTHER
    block buffer (decided on the shape of the refuted path)"""
    from pyvc.sym import ConcreteCtx
    from pyvc.run import G
    ctx = ConcreteCtx(values=model, choices=choices)
    old = S.set_ctx(ctx)
    try:
        argd = c.gen(G(ctx))
        gh = argd["__ghost__"]
        return bool(gh["use_win"]) and gh["state"] == "bound to another buffer" and gh["form"] == "element access"
    finally:
        S.set_ctx(old)


# ======================================================================================================
# (M7) BufVar.get_solution
# ======================================================================================================

c_sol = contract("C05", F, "BufVar.get_solution")


def sum_from_ueq(g, a):
    """contract (M2); a literal is possible for a lower bound (get_solution drops `- 0`)"""
    nm = getattr(a.e, "_pyvc_name", "")
    if "_lo" in nm and g.choose(["expression", "literal"], "read back " + nm) == "literal":
        r = mk(LoopIR.Const, g.int("read_back_lit"), T.int, SRC)
        g.assume(r.val == uev(a.e))
        return r
    r = OE_("read_back_" + nm, g.int("ev_read_back"), T.index, (LoopIR.Const,))
    g.assume(r._pyvc_ev == uev(a.e))
    return r


c_sol.callee("Unification.from_ueq", result=sum_from_ueq, assumed=False, note="contract (M2)")


@c_sol.inputs
def _(g):
    BufVar = LU().BufVar
    me = mk_matcher(FV={A_: _tensor([LoopIR.Const(8, T.int, SRC), LoopIR.Const(8, T.int, SRC), LoopIR.Const(8, T.int, SRC)])})
    windowed = g.choose([True, False], "window argument")
    sols = {}
    if not windowed:
        pv = BufVar(X_, _tensor([o_index(g, "xs0")]), False)
        pv.set_buf_solution(A_)
        which = None
    else:
        n_dim, win_dim = g.choose([(1, 0), (1, 1), (2, 0), (2, 1), (1, 2)], "interval dimensions, point dimensions")
        pv = BufVar(X_, _tensor([o_index(g, f"xs{i}") for i in range(n_dim)], True), True)
        pv.set_buf_solution(A_)
        pv.win_dim, pv.case_var, pv.cases = win_dim, Sym("x_which_case"), my_cases("x", n_dim, win_dim)
        which = g.choose(list(range(len(pv.cases))), "selected case")
        sols[pv.case_var] = which
        for case in pv.cases:
            for w in case:
                for s in ([w] if isinstance(w, Sym) else list(w)):
                    sols[s] = o_uexpr(g, s.name())
    return {"self": pv, "UObj": me, "ueq_solutions": sols, "srcinfo": SRC,
            "__ghost__": {"which": which, "windowed": windowed}}


@c_sol.ensures("the argument is built from the SELECTED case: a point where that case has a point symbol, an interval where "
               "it has a (lo, hi) pair, each with the value the solution gives to that symbol; on the bound buffer")
def _(a):
    pv, r = a.self, a.result
    if not a.ghost.windowed:
        return isinstance(r, LoopIR.Read) and r.name is pv.solution_buf and len(r.idx) == 0
    if not isinstance(r, LoopIR.WindowExpr) or r.name is not pv.solution_buf:
        return False
    case = pv.cases[a.ghost.which]
    if len(r.idx) != len(case):
        return False
    cs = []
    for w, acc in zip(case, r.idx):
        if isinstance(w, Sym):
            if not isinstance(acc, LoopIR.Point):
                return False
            cs.append(ival(acc.pt) == uev(a.ueq_solutions[w]))
        else:
            if not isinstance(acc, LoopIR.Interval):
                return False
            cs += [ival(acc.lo) == uev(a.ueq_solutions[w[0]]), ival(acc.hi) == uev(a.ueq_solutions[w[1]])]
    return And(cs)


@c_sol.ensures("the window type records the source buffer, the same coordinates and the extents hi - lo")
def _(a):
    pv, r = a.self, a.result
    if not a.ghost.windowed:
        return True
    t = r.type
    if not isinstance(t, T.Window) or t.src_buf is not pv.solution_buf or len(t.idx) != len(r.idx) \
            or not all(x is y for x, y in zip(t.idx, r.idx)):
        return False
    ivs = [acc for acc in r.idx if isinstance(acc, LoopIR.Interval)]
    shp = t.as_tensor.shape()
    if len(shp) != len(ivs) or not t.as_tensor.is_window:
        return False
    return And([ival(s) == ival(iv.hi) - ival(iv.lo) for s, iv in zip(shp, ivs)])


# ======================================================================================================
# (M9) small helpers: unify_buf_name_no_win, unify_types, unify_bool_hole, unify_stride_hole
# ======================================================================================================

c_nw = contract("C05", F, "Unification.unify_buf_name_no_win")


@c_nw.inputs
def _(g):
    BufVar = LU().BufVar
    me = mk_matcher()
    use_win = g.choose([False, True], "callee buffer is a window argument")
    state = g.choose(ACC_STATES[:3], "state")
    pv = BufVar(X_, _tensor([o_index(g, "xs0")], use_win), use_win)
    if state != "first occurrence":
        pv.set_buf_solution(B_ if state == "bound to another buffer" else A_)
    me.buf_unknowns[X_] = pv
    return {"self": me, "pname": X_, "bname": A_, "__ghost__": {"old_solution": pv.solution_buf, "use_win": use_win}}


@c_nw.ensures(BOUND)
def _(a):
    pv, old = a.self.buf_unknowns[a.pname], a.ghost.old_solution
    return pv.solution_buf is a.bname and (old is None or old is a.bname)


@c_nw.ensures("never used for a window argument (its window coordinates would stay unconstrained)")
def _(a):
    return not a.ghost.use_win


c_nw.raises(UErr(), label=REJECT)


c_ty = contract("C05", F, "Unification.unify_types")
c_ty.callee("Unification.unify_affine_e", result=sum_unify_affine_e, assumed=False, note="contract (M3)")

TY_SHAPES = ["scalars", "index", "bool", "tensors", "tensors of different rank", "tensor vs scalar", "scalar vs index"]


@c_ty.inputs
def _(g):
    me = mk_matcher(idx_subst={IT_P: IT_B})
    k = g.choose(TY_SHAPES, "types")
    if k == "scalars":
        pt, bt = T.f32, g.choose([T.f32, T.f64], "block precision")
    elif k == "index":
        pt, bt = T.size, T.index
    elif k == "bool":
        pt, bt = T.bool, T.bool
    elif k == "tensors":
        n = g.choose([1, 2], "rank")
        pt = _tensor([o_index(g, f"ps{i}") for i in range(n)], True)
        bt = _tensor([o_index(g, f"bs{i}") for i in range(n)])
    elif k == "tensors of different rank":
        pt, bt = _tensor([o_index(g, "ps0")]), _tensor([o_index(g, "bs0"), o_index(g, "bs1")])
    elif k == "tensor vs scalar":
        pt, bt = _tensor([o_index(g, "ps0")]), T.f32
    else:
        pt, bt = T.f32, T.index
    gh = pre_equations(g, me)
    gh["kind"] = k
    return {"self": me, "pt": pt, "bt": bt, "pnode": LoopIR.Pass(SRC), "bnode": LoopIR.Pass(SRC2), "__ghost__": gh}


@c_ty.ensures("returns only for two types of the same kind; tensors: same rank, and the equations added imply equal extents")
def _(a):
    pt, bt = a.pt, a.bt
    same_kind = (pt.is_real_scalar() and bt.is_real_scalar()) or (pt.is_indexable() and bt.is_indexable()) \
        or (pt == T.bool and bt == T.bool) or (pt.is_tensor_or_window() and bt.is_tensor_or_window())
    if not same_kind:
        return False
    if pt.is_tensor_or_window():
        return Implies(all_hold(added(a)), Oracle(a.g, a.self).shapes(pt, bt))
    return True


@c_ty.ensures(KEPT)
def _(a):
    return kept(a)


c_ty.raises(UErr(), label=REJECT)


c_bh = contract("C05", F, "Unification.unify_bool_hole")


def g_bool_expr(g, name, free, bound):
    """small concrete boolean expression of the block over the variables `free` / a bound one"""
    k = g.choose(["free < c", "free == free", "and", "bound < c", "not-free <= c"], name)
    rd = lambda s, t=T.index: LoopIR.Read(s, [], t, SRC2)
    c = lambda nm: mk(LoopIR.Const, g.int(nm), T.int, SRC2)
    if k == "free < c":
        return LoopIR.BinOp("<", rd(free[0], T.size), c(name + "c"), T.bool, SRC2)
    if k == "free == free":
        return LoopIR.BinOp("==", rd(free[0], T.size), rd(free[1], T.size), T.bool, SRC2)
    if k == "and":
        return LoopIR.BinOp("and", LoopIR.BinOp("<", rd(free[0], T.size), c(name + "c"), T.bool, SRC2),
                            LoopIR.BinOp("<=", rd(free[1], T.size), c(name + "d"), T.bool, SRC2), T.bool, SRC2)
    if k == "bound < c":
        return LoopIR.BinOp("<", rd(bound), c(name + "c"), T.bool, SRC2)
    return LoopIR.BinOp("<=", rd(free[1], T.size), c(name + "c"), T.bool, SRC2)


def mentions(e, sym):
    if isinstance(e, LoopIR.Read):
        return e.name is sym or any(mentions(i, sym) for i in e.idx)
    if isinstance(e, LoopIR.USub):
        return mentions(e.arg, sym)
    if isinstance(e, LoopIR.BinOp):
        return mentions(e.lhs, sym) or mentions(e.rhs, sym)
    return False


@c_bh.inputs
def _(g):
    M_, N_ = Sym("m"), Sym("n")
    me = mk_matcher(FV={M_: T.size, N_: T.size})
    first = g.choose(["first occurrence", "second occurrence"], "state")
    prev = False if first == "first occurrence" else g_bool_expr(g, "prev", [M_, N_], IT_B)
    me.bool_holes[BH_] = prev
    be = g_bool_expr(g, "be", [M_, N_], IT_B)
    return {"self": me, "pe": LoopIR.Read(BH_, [], T.bool, SRC), "be": be, "__ghost__": {"prev": prev, "bound": IT_B}}


@c_bh.requires
def _(a):
    return a.ghost.prev is False or not mentions(a.ghost.prev, a.ghost.bound)


@c_bh.ensures("the boolean argument is one block expression over variables that are free in the block: on return the "
              "hole holds an expression that is (structurally) this occurrence")
def _(a):
    got = a.self.bool_holes[a.pe.name]
    if got is False or mentions(a.be, a.ghost.bound):
        return False
    if a.ghost.prev is not False and got is not a.ghost.prev:
        return False
    return exact_e(got, a.be)


c_bh.raises(UErr(), label=REJECT)


c_sh = contract("C05", F, "Unification.unify_stride_hole")
STRIDE_LBL = ("the stride argument is one stride expression of the block: on return the hole holds an expression that is "
              "(structurally) this occurrence")


@c_sh.inputs
def _(g):
    me = mk_matcher()
    mkst = lambda nm: LoopIR.StrideExpr(g.choose([A_, B_], nm + " buffer"), g.choose([0, 1], nm + " dim"), T.stride, SRC2)
    prev = False if g.choose(["first occurrence", "second occurrence"], "state") == "first occurrence" else mkst("prev")
    me.stride_holes[SH_] = prev
    return {"self": me, "pe": LoopIR.Read(SH_, [], T.stride, SRC), "be": mkst("be"), "__ghost__": {"prev": prev}}


@c_sh.ensures(STRIDE_LBL)
def _(a):
    got = a.self.stride_holes[a.pe.name]
    return got is not False and exact_e(got, a.be)


c_sh.raises(UErr(), label=REJECT)


def f53_stride_hole_second_occurrence(c, model, choices):
    """witness class: the stride hole was already bound (second occurrence)"""
    from pyvc.sym import ConcreteCtx
    from pyvc.run import G
    ctx = ConcreteCtx(values=model, choices=choices)
    old = S.set_ctx(ctx)
    try:
        return c.gen(G(ctx))["__ghost__"]["prev"] is not False
    finally:
        S.set_ctx(old)


# ======================================================================================================
# (M8) Unification.unify_stmts
# ======================================================================================================

c_us = contract("C05", F, "Unification.unify_stmts")
c_us.callee("Unification.unify_stmts", result=ih_unify_stmts, assumed=False,
            note="induction hypothesis: contract (M8) on the bodies, the branches and the rest of the block")
c_us.callee("Unification.unify_e", result=ih_unify_e, assumed=False, note="contract (M5)")
c_us.callee("Unification.unify_accesses", result=sum_unify_accesses, assumed=False, note="contract (M6)")
c_us.callee("Unification.unify_affine_e", result=sum_unify_affine_e, assumed=False, note="contract (M3)")

US_SHAPES = ["empty", "different length", "Assign", "Reduce", "Assign vs Reduce", "Reduce vs Assign", "WriteConfig", "Pass",
             "If", "For", "For vs If", "Alloc", "Call", "WindowStmt"]


def g_stmt_pair(g, me, k):
    c1, c2 = _cfgs()
    if k in ("Assign", "Reduce", "Assign vs Reduce", "Reduce vs Assign"):
        std_bufs(me, g)
        pc = LoopIR.Assign if k.startswith("Assign") else LoopIR.Reduce
        bc = LoopIR.Assign if k in ("Assign", "Reduce vs Assign") else LoopIR.Reduce
        return (pc(X_, T.f32, [o_index(g, "pi")], o_num(g, "prhs"), SRC),
                bc(A_, T.f32, [o_index(g, "bi")], o_num(g, "brhs"), SRC2))
    if k == "WriteConfig":
        cp, fp, cb, fb = g.choose([(c1, "f", c1, "f"), (c1, "f", c1, "g"), (c1, "f", c2, "f")], "config fields")
        return LoopIR.WriteConfig(cp, fp, o_num(g, "prhs"), SRC), LoopIR.WriteConfig(cb, fb, o_num(g, "brhs"), SRC2)
    if k == "Pass":
        return LoopIR.Pass(SRC), LoopIR.Pass(SRC2)
    if k == "If":
        pe_, be_ = g.choose([(0, 0), (1, 1), (1, 0), (0, 1)], "else branches (callee, block)")
        cond = g.choose(["schematic condition", "index comparison"], "condition")
        if cond == "schematic condition":
            pc, bc = o_bool(g, "pcond"), o_bool(g, "bcond")
        else:
            pc = LoopIR.BinOp("<", o_index(g, "pl"), o_index(g, "pr"), T.bool, SRC)
            bc = LoopIR.BinOp(g.choose(["<", "<=", "=="], "block op"), o_index(g, "bl"), o_index(g, "br"), T.bool, SRC2)
        return (LoopIR.If(pc, [o_stmt(g, "pthen")], [o_stmt(g, "pelse")][:pe_], SRC),
                LoopIR.If(bc, [o_stmt(g, "bthen")], [o_stmt(g, "belse")][:be_], SRC2))
    if k in ("For", "For vs If"):
        itp, itb = Sym("i"), Sym("i")
        nb = g.choose([1, 2], "statements of the loop body")
        mode_b = g.choose([LoopIR.Seq(), LoopIR.Par()], "block loop mode")
        ps = LoopIR.For(itp, o_index(g, "plo"), o_index(g, "phi"), [o_stmt(g, f"pb{i}") for i in range(nb)], LoopIR.Seq(), SRC)
        if k == "For":
            bs = LoopIR.For(itb, o_index(g, "blo"), o_index(g, "bhi"), [o_stmt(g, f"bb{i}") for i in range(nb)], mode_b, SRC2)
        else:
            bs = LoopIR.If(o_bool(g, "bcond"), [o_stmt(g, "bthen")], [], SRC2)
        return ps, bs
    if k == "Alloc":
        rp, rb = g.choose([(0, 0), (1, 1), (2, 2), (1, 2), (1, 0)], "ranks (callee, block)")
        pt = _tensor([o_index(g, f"ps{i}") for i in range(rp)]) if rp else T.f32
        bt = _tensor([o_index(g, f"bs{i}") for i in range(rb)]) if rb else T.f32
        return LoopIR.Alloc(Sym("t"), pt, DRAM, SRC), LoopIR.Alloc(Sym("u"), bt, DRAM, SRC2)
    if k == "Call":
        N1, V1 = Sym("n"), Sym("v")
        f1 = _FS.setdefault("f1", LoopIR.proc("callee1", [LoopIR.fnarg(N1, T.index, None, SRC), LoopIR.fnarg(V1, T.f32, DRAM, SRC)],
                                              [], [LoopIR.Pass(SRC)], None, SRC))
        f2 = _FS.setdefault("f2", LoopIR.proc("callee2", [LoopIR.fnarg(N1, T.index, None, SRC), LoopIR.fnarg(V1, T.f32, DRAM, SRC)],
                                              [], [LoopIR.Pass(SRC)], None, SRC))
        fb = g.choose([f1, f2], "block callee")
        return (LoopIR.Call(f1, [o_index(g, "pa0"), o_num(g, "pa1")], SRC),
                LoopIR.Call(fb, [o_index(g, "ba0"), o_num(g, "ba1")], SRC2))
    if k == "WindowStmt":
        std_bufs(me, g)
        pidx = [LoopIR.Interval(o_index(g, "plo"), o_index(g, "phi"), SRC)]
        bidx = [LoopIR.Interval(o_index(g, "blo"), o_index(g, "bhi"), SRC2)]
        wt = lambda buf, idx: T.Window(_tensor([o_index(g, "ws")]), _tensor([o_index(g, "wt")], True), buf, idx)
        return (LoopIR.WindowStmt(Sym("w"), LoopIR.WindowExpr(X_, pidx, wt(X_, pidx), SRC), SRC),
                LoopIR.WindowStmt(Sym("v"), LoopIR.WindowExpr(A_, bidx, wt(A_, bidx), SRC2), SRC2))
    raise AssertionError(k)


@c_us.inputs
def _(g):
    me = mk_matcher(idx_subst={IT_P: IT_B})
    k = g.choose(US_SHAPES, "pair")
    if k == "empty":
        P, B = [], []
    elif k == "different length":
        n, m = g.choose([(1, 0), (0, 1), (2, 1)], "lengths (callee, block)")
        P, B = [o_stmt(g, f"p{i}") for i in range(n)], [o_stmt(g, f"b{i}") for i in range(m)]
    else:
        ps, bs = g_stmt_pair(g, me, k)
        tail = g.choose([0, 1], "statements after the pair")
        P, B = [ps] + [o_stmt(g, "ptail")][:tail], [bs] + [o_stmt(g, "btail")][:tail]
    gh = pre_equations(g, me)
    gh["kind"] = k
    return {"self": me, "proc_s": P, "block_s": B, "__ghost__": gh}


@c_us.ensures(SOUND + "; For: lower AND upper bound, iterator binding in force for the body; If: condition and both "
              "branches; Alloc / WindowStmt: the new callee buffer is bound to the block's; the rest of the block is matched too")
def _(a):
    return Implies(all_hold(added(a)), Oracle(a.g, a.self).block(a.proc_s, a.block_s))


@c_us.ensures(KEPT)
def _(a):
    return kept(a)


c_us.raises(UErr(), label=REJECT)
c_us.raises(NameError, when=lambda a: a.ghost.kind == "WriteConfig",
            label="NameError only while formatting the rejection of two different configuration fields (the message names "
                  "undefined variables; still a rejection)")
c_us.raises(TypeError, when=lambda a: a.ghost.kind == "Call",
            label="TypeError only while formatting the rejection of calls of two different procedures (`f.name()` on an "
                  "attribute; still a rejection)")


# ======================================================================================================
# (M10) Unification.__init__ : how holes are created and how the equations reach the solver (protocol)
# ======================================================================================================
#
# The real constructor is interpreted on a real little callee signature and a real little block; the structural
# match, the solver, the read-back and the window construction are the contracts above, replaced here by recorders.

c_in = contract("C05", F, "Unification.__init__")
c_in.native("FreeVars.__init__", "FreeVars.result", "_Find_Mod_Div_Symbols.__init__", "_Find_Mod_Div_Symbols.result")

N_, K_, XW_, YT_, FL_, ST_ = Sym("n"), Sym("k"), Sym("x"), Sym("y"), Sym("flag"), Sym("s")
M_, I_, AB_, CB_ = Sym("m"), Sym("i"), Sym("a"), Sym("c")


def _rd(s, t=T.index):
    return LoopIR.Read(s, [], t, SRC)


def glue_callee(sig):
    args = [LoopIR.fnarg(N_, T.size, None, SRC)]
    if "index" in sig:
        args.append(LoopIR.fnarg(K_, T.index, None, SRC))
    args.append(LoopIR.fnarg(XW_, _tensor([_rd(N_, T.size)], True), DRAM, SRC))
    if "tensor" in sig:
        args.append(LoopIR.fnarg(YT_, _tensor([_rd(N_, T.size)], False), DRAM, SRC))
    if "bool" in sig:
        args.append(LoopIR.fnarg(FL_, T.bool, None, SRC))
    if "stride" in sig:
        args.append(LoopIR.fnarg(ST_, T.stride, None, SRC))
    return LoopIR.proc("callee", args, [], [LoopIR.Pass(SRC)], None, SRC)


def glue_block(kind):
    """a block over a: f32[m], c: f32[m], i: index (iterator of an enclosing loop), m: size"""
    one = LoopIR.Const(1.0, T.f32, SRC2)
    if kind == "a[i] = 1.0":
        return [LoopIR.Assign(AB_, T.f32, [_rd(I_)], one, SRC2)]
    if kind == "a[i / 4] = c[i % 4]":
        d = LoopIR.BinOp("/", _rd(I_), LoopIR.Const(4, T.int, SRC2), T.index, SRC2)
        r = LoopIR.BinOp("%", _rd(I_), LoopIR.Const(4, T.int, SRC2), T.index, SRC2)
        return [LoopIR.Assign(AB_, T.f32, [d], LoopIR.Read(CB_, [r], T.f32, SRC2), SRC2)]
    return [LoopIR.Assign(AB_, T.f32, [_rd(I_)], one, SRC2), LoopIR.Reduce(CB_, T.f32, [_rd(I_)], one, SRC2)]


class Tok:
    def __init__(self, what, of):
        self.what, self.of = what, of

    def __repr__(self):
        return f"<{self.what}>"


def glue_events(g):
    return g.ghost.setdefault("glue", [])


def sum_unify_stmts_glue(g, a):
    me = a.self
    glue_events(g).append(("match", list(a.proc_s), list(a.block_s)))
    if g.choose(["unifies", "rejected"], "unify_stmts") == "rejected":
        raise ProgExc(UErr()("the block is not an instance"))
    eqs = [OUP()(f"collected{i}", g.bool(f"holds_collected{i}"), None, ()) if not g.concrete
           else UEq().Eq(UEq().Const(0), UEq().Const(0)) for i in range(2)]
    me.equations += eqs
    g.ghost["collected"] = list(me.equations)
    unbound = g.ghost.get("leave_unbound")
    wsyms = []
    for nm, pv in me.buf_holes.items():
        if nm is unbound:
            continue
        pv.set_buf_solution(AB_ if nm is XW_ else CB_)
        if pv.use_win:
            pv.win_dim, pv.case_var, pv.cases = 0, Sym("x_which_case"), my_cases("x", pv.n_dim, 0)
            wsyms += [pv.case_var] + [s for c in pv.cases for w in c for s in w]
    g.ghost["window_syms"] = wsyms
    if FL_ in me.bool_holes and g.ghost.get("bool_used"):
        me.bool_holes[FL_] = LoopIR.BinOp("<", _rd(M_, T.size), LoopIR.Const(4, T.int, SRC2), T.bool, SRC2)
    if ST_ in me.stride_holes and g.ghost.get("stride_used"):
        me.stride_holes[ST_] = LoopIR.StrideExpr(AB_, 0, T.stride, SRC2)
    return None


def sum_solve(g, a):
    prob = a.prob
    g.ghost["prob"] = prob
    glue_events(g).append(("solve", prob))
    if g.choose(["solution", "no solution"], "solve") == "no solution":
        return None
    sols = {}
    for h in prob.holes:
        sols[h] = o_uexpr(g, "sol_" + h.name())
    for pv in g.ghost["buf_holes"].values():
        if pv.case_var is not None:
            sols[pv.case_var] = 0
    g.ghost["solutions"] = sols
    return sols


def sum_from_ueq_glue(g, a):
    t = OE_("arg_read_back", g.int("ev_arg"), T.index, ()) if not g.concrete else LoopIR.Const(g.int("ev_arg"), T.int, SRC)
    glue_events(g).append(("from_ueq", a.e, t))
    return t


def sum_get_solution_glue(g, a):
    t = OE_("arg_window", None, T.f32, ()) if not g.concrete else LoopIR.Read(a.self.solution_buf, [], T.f32, SRC)
    glue_events(g).append(("get_solution", a.self, a.ueq_solutions, t))
    return t


c_in.callee("Unification.unify_stmts", result=sum_unify_stmts_glue, assumed=False, note="contract (M8)")
c_in.callee("solve", result=sum_solve, assumed=False, note="UEq.problem.solve: contracts of c05_replace.py")
c_in.callee("Unification.from_ueq", result=sum_from_ueq_glue, assumed=False, note="contract (M2)")
c_in.callee("BufVar.get_solution", result=sum_get_solution_glue, assumed=False, note="contract (M7)")

SIGS = [("window",), ("window", "index"), ("window", "tensor"), ("window", "bool"), ("window", "stride"),
        ("window", "index", "tensor", "bool", "stride")]


@c_in.inputs
def _(g):
    sig = g.choose(SIGS, "callee signature")
    blk = g.choose(["a[i] = 1.0", "a[i / 4] = c[i % 4]", "a[i] = 1.0; c[i] += 1.0"], "block")
    sub = glue_callee(sig)
    stmts = glue_block(blk)
    live = {AB_: _tensor([_rd(M_, T.size)]), CB_: _tensor([_rd(M_, T.size)]), I_: T.index, M_: T.size}
    me = object.__new__(LU().Unification)
    if "tensor" in sig and g.choose(["every buffer argument is used", "one buffer argument is never matched"], "use") \
            != "every buffer argument is used":
        g.ghost["leave_unbound"] = YT_
    g.ghost["bool_used"] = g.choose([True, False], "bool argument used") if "bool" in sig else False
    g.ghost["stride_used"] = g.choose([True, False], "stride argument used") if "stride" in sig else False
    g.ghost["glue"] = []

    g.ghost["buf_holes"] = _LazyHoles(me)
    return {"self": me, "subproc": sub, "stmt_block": stmts, "live_vars": live,
            "__ghost__": {"sig": sig, "blk": blk}}


class _LazyHoles:
    """the BufVars of the matcher under construction (created by the constructor itself)"""
    def __init__(self, me):
        self.me = me

    def values(self):
        return list(getattr(self.me, "buf_holes", {}).values())


def _solve_events(a):
    return [e for e in glue_events(a.g) if e[0] == "solve"]


@c_in.ensures("the matcher is asked about the callee body and exactly the block; the solver about exactly the equations it "
              "collected (all of them, in order)")
def _(a):
    ev = [e for e in glue_events(a.g) if e[0] == "match"]
    so = _solve_events(a)
    if len(ev) != 1 or len(so) != 1:
        return False
    if not (len(ev[0][1]) == len(a.subproc.body) and all(x is y for x, y in zip(ev[0][1], a.subproc.body))
            and len(ev[0][2]) == len(a.stmt_block) and all(x is y for x, y in zip(ev[0][2], a.stmt_block))):
        return False
    want, got = a.g.ghost["collected"], list(so[0][1].preds)
    return len(want) == len(got) and all(x is y for x, y in zip(want, got))


@c_in.ensures("holes: every index / size argument of the callee, every window symbol and case variable of its buffer "
              "arguments, nothing else; knowns: indexable free variables of the block and its mod-div symbols only "
              "(never a symbol of the callee)")
def _(a):
    so = _solve_events(a)
    if len(so) != 1:
        return False
    prob = so[0][1]
    want = [fa.name for fa in a.subproc.args if fa.type.is_indexable()] + list(a.g.ghost["window_syms"])
    holes = list(prob.holes)
    if len(holes) != len(want) or {id(h) for h in holes} != {id(h) for h in want}:
        return False
    callee_syms = {id(fa.name) for fa in a.subproc.args}
    for kn in prob.knowns:
        if id(kn) in callee_syms or any(kn is h for h in holes):
            return False
        if not (kn in a.self.sym_nodes or (kn in a.live_vars and a.live_vars[kn].is_indexable())):
            return False
    return True


@c_in.ensures("the arguments, in the callee's order: an index argument is the read-back of ITS solution, a buffer "
              "argument the window of ITS BufVar under the solutions, a bool / stride argument the expression it was bound to")
def _(a):
    sols = a.g.ghost.get("solutions")
    args = a.self.new_args
    if sols is None or len(args) != len(a.subproc.args):
        return False
    evs = glue_events(a.g)
    for fa, x in zip(a.subproc.args, args):
        if fa.type.is_indexable():
            if not any(e[0] == "from_ueq" and e[2] is x and e[1] is sols[fa.name] for e in evs):
                return False
        elif fa.type == T.bool:
            want = a.self.bool_holes[fa.name]
            if want is False:
                if not (isinstance(x, LoopIR.Const) and x.val is False):
                    return False
            elif x is not want:
                return False
        elif fa.type == T.stride:
            # (an unused stride argument yields `False`, no expression: LoopIR.Call then refuses to be built)
            if x is not a.self.stride_holes[fa.name]:
                return False
        else:
            pv = a.self.buf_holes[fa.name]
            if not any(e[0] == "get_solution" and e[3] is x and e[1] is pv and e[2] is sols for e in evs):
                return False
    return True


@c_in.ensures("returns only with a solution of the equation system and with every buffer argument bound")
def _(a):
    return a.g.ghost.get("solutions") is not None and all(pv.solution_buf is not None for pv in a.self.buf_holes.values())


c_in.raises(UErr(), label=REJECT)


def _native_init(g, fn, a):
    """replay: the real constructor natively, with the recorders patched into the module"""
    from pyvc.contract import Args
    m = LU()
    U, B, P = m.Unification, m.BufVar, m.UEq.problem

    def wrap(f):
        def run(*args):
            try:
                return f(*args)
            except ProgExc as pe:
                raise pe.exc
        return run
    patches = [
        (U, "unify_stmts", wrap(lambda self, proc_s, block_s: sum_unify_stmts_glue(g, Args(self=self, proc_s=proc_s, block_s=block_s)))),
        (P, "solve", wrap(lambda prob: sum_solve(g, Args(prob=prob)))),
        (U, "from_ueq", wrap(lambda self, e, srcinfo=None: sum_from_ueq_glue(g, Args(self=self, e=e)))),
        (B, "get_solution", wrap(lambda self, UObj, ueq_solutions, srcinfo: sum_get_solution_glue(
            g, Args(self=self, ueq_solutions=ueq_solutions)))),
    ]
    old = [(o, n, o.__dict__[n]) for o, n, _ in patches]
    for o, n, f in patches:
        setattr(o, n, f)
    try:
        return fn(a.self, a.subproc, a.stmt_block, a.live_vars)
    finally:
        for o, n, f in old:
            setattr(o, n, f)


c_in.native_entry = _native_init
