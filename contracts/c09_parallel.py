"""C09 - parallel loops that compile are race-free (coverage half).

Property sentence used here: "... two different iterations of any parallel
loop, *at any nesting depth and in any sub-procedure*, never ... Otherwise
compilation fails with an error."  The decision for one loop is made by
`Check_ParallelizeLoop(proc, s)`; what is proved here is that the decision is
*asked for every Par loop* and that a failed check stops compilation:

  (1) `ParallelAnalysis.map_s(s)`   structural induction over statements:
      after it returns normally, Cov(s) holds, where
        Cov(s) = (s is For/Par  =>  Check_ParallelizeLoop(self.proc, s) was called,
                                    and it returned normally or an error was recorded)
                 and Cov(c) for every child statement c of s (For.body, If.body, If.orelse).
      The children are schematic statements (arbitrary, never inspected); the
      recursive call `self.map_s(c)` is replaced by the induction hypothesis.
  (2) `LoopIR_Rewrite.map_s`  traversal contract on which (1) rests: every child
      statement of For / If (body *and* orelse) is passed to `self.map_s` exactly
      once, in program order; leaves have no child statements.
  (3) `ParallelAnalysis.run(proc)`: returns normally => every top-level
      statement was visited and no check failed; a failed check => TypeError.
  (4) `compile_to_strings`: every proc of the call-graph closure that is not an
      instruction reaches `Compiler(...)` only as the result of the chain that
      starts with `ParallelAnalysis().run(p)`.
  (5) `find_all_subprocs.walk`/`LoopIR_SubProcs.do_s`: callee closure ("in any
      sub-procedure").

Ghost state: `g.ghost["events"]`, the list of calls in order
  ("ok"|"fail", loop)   Check_ParallelizeLoop returned / raised on `loop`
  ("visit", child, okall)  induction hypothesis used on a schematic child

Bounded part (stated): statement lists have concrete lengths 0..3 (the `for`
over a block in `_map_list` is unrolled); depth and the content of every child
are unbounded (schematic + induction).
"""
from __future__ import annotations
from pyvc.contract import contract
from pyvc import sym as S
from pyvc.sym import And, Or, Not, Implies
from pyvc.interp import Opaque, ProgExc
from contracts.ghost import _opaque_class, SRC
from exo.core.LoopIR import LoopIR, T
from exo.core.prelude import Sym
from exo.core.memory import DRAM

F = "src/exo/backend/parallel_analysis.py"
FL = "src/exo/core/LoopIR.py"
FC = "src/exo/backend/LoopIR_compiler.py"

N = Sym("n")
I, J = Sym("i"), Sym("j")
BUF = Sym("buf")


# ----------------------------------------------------------------------------
# shapes

def par_loop(body, it=None):
    return LoopIR.For(it or Sym("p"), LoopIR.Const(0, T.int, SRC), LoopIR.Read(N, [], T.size, SRC),
                      body, LoopIR.Par(), SRC)


def seq_loop(body, it=None):
    return LoopIR.For(it or Sym("q"), LoopIR.Const(0, T.int, SRC), LoopIR.Read(N, [], T.size, SRC),
                      body, LoopIR.Seq(), SRC)


def if_stmt(body, orelse):
    cond = LoopIR.BinOp("<", LoopIR.Read(N, [], T.size, SRC), LoopIR.Const(4, T.int, SRC), T.bool, SRC)
    return LoopIR.If(cond, body, orelse, SRC)


def child(g, name):
    """A schematic child statement: arbitrary (symbolic mode) / one of three
    concrete statements that each contain a Par loop (replay mode)."""
    k = g.int("kind_" + name)
    if g.concrete:
        k = k % 3
        if k == 0:
            return par_loop([LoopIR.Pass(SRC)])
        if k == 1:
            return seq_loop([par_loop([LoopIR.Pass(SRC)])])
        return if_stmt([LoopIR.Pass(SRC)], [par_loop([LoopIR.Pass(SRC)])])
    return _opaque_class(LoopIR.stmt)(name, None, None, ())


def children(g, name, lens=(0, 1, 2)):
    n = g.choose(list(lens), name + ".len")
    return [child(g, f"{name}{i}") for i in range(n)]


_CALLEE = LoopIR.proc("callee", [], [], [LoopIR.Pass(SRC)], None, SRC)

LEAVES = ["Pass", "Assign", "Reduce", "Alloc", "Call", "WindowStmt"]


def leaf(kind):
    one = LoopIR.Const(1.0, T.f32, SRC)
    if kind == "Pass":
        return LoopIR.Pass(SRC)
    if kind == "Assign":
        return LoopIR.Assign(BUF, T.f32, [], one, SRC)
    if kind == "Reduce":
        return LoopIR.Reduce(BUF, T.f32, [], one, SRC)
    if kind == "Alloc":
        return LoopIR.Alloc(Sym("t"), T.f32, DRAM, SRC)
    if kind == "Call":
        return LoopIR.Call(_CALLEE, [], SRC)
    if kind == "WindowStmt":
        ten = T.Tensor([LoopIR.Const(8, T.int, SRC)], False, T.f32)
        acc = [LoopIR.Interval(LoopIR.Const(0, T.int, SRC), LoopIR.Const(4, T.int, SRC), SRC)]
        wt = T.Window(ten, T.Tensor([LoopIR.Const(4, T.int, SRC)], True, T.f32), BUF, acc)
        return LoopIR.WindowStmt(Sym("w"), LoopIR.WindowExpr(BUF, acc, wt, SRC), SRC)
    raise AssertionError(kind)


def g_stmt(g):
    k = g.choose(["ForPar", "ForSeq", "If"] + LEAVES, "stmt")
    if k == "ForPar":
        return par_loop(children(g, "b", (1, 2, 3)))
    if k == "ForSeq":
        return seq_loop(children(g, "b", (1, 2, 3)))
    if k == "If":
        return if_stmt(children(g, "b", (1, 2)), children(g, "e", (0, 1, 2)))
    return leaf(k)


def substmts(s):
    if isinstance(s, LoopIR.For):
        return list(s.body)
    if isinstance(s, LoopIR.If):
        return list(s.body) + list(s.orelse)
    return []


def need(s):
    """Obligation tokens of Cov(s): ("check", loop) for every concrete Par loop,
    ("visit", c) for every schematic child (its Cov is the induction hypothesis)."""
    if isinstance(s, Opaque):
        return [("visit", s)]
    out = []
    if isinstance(s, LoopIR.For) and isinstance(s.loop_mode, LoopIR.Par):
        out.append(("check", s))
    for c in substmts(s):
        out += need(c)
    return out


def events(a):
    return a.g.ghost.setdefault("events", [])


def cov(a, stmts, errors):
    ev = events(a)
    have_err = len(errors) > 0
    cs = []
    for s in stmts:
        for kind, node in need(s):
            if kind == "check":
                called = any(e[1] is node for e in ev if e[0] in ("ok", "fail"))
                ok = any(e[1] is node for e in ev if e[0] == "ok")
                failed = any(e[1] is node for e in ev if e[0] == "fail")
                cs.append(called and (have_err or (ok and not failed)))
            else:
                vis = [e for e in ev if e[0] == "visit" and e[1] is node]
                cs.append(len(vis) >= 1)
                cs.append(Or(have_err, And([e[2] for e in vis])))
    return And(cs)


def mk_pa(g, proc=None):
    from exo.backend.parallel_analysis import ParallelAnalysis
    o = object.__new__(ParallelAnalysis)
    # `run` is always called on a fresh object in compile_to_strings; map_s is
    # also reached with errors already recorded by an earlier sibling
    o._errors = g.choose([[], ["<earlier error>"]], "errors")
    o.proc = proc if proc is not None else LoopIR.proc("p", [], [], [LoopIR.Pass(SRC)], None, SRC)
    return o


# --- modular callees ---------------------------------------------------------

def _sched_error():
    from exo.rewrite.new_eff import SchedulingError
    return SchedulingError


def check_callee(g, a):
    ev = g.ghost.setdefault("events", [])
    g.ghost.setdefault("check_args", []).append((a.proc, a.s))
    if g.choose(["returns", "raises"], "Check_ParallelizeLoop") == "returns":
        ev.append(("ok", a.s))
        return None
    ev.append(("fail", a.s))
    raise ProgExc(_sched_error()("Cannot parallelize loop (abstract failure)"))


def ih_map_s(g, a):
    """Induction hypothesis for a child c: Cov(c) holds afterwards, i.e. every
    Par loop in c was checked and either all checks passed (okall) or an error
    was recorded in self._errors; the errors list only grows."""
    ev = g.ghost.setdefault("events", [])
    if g.choose(["all checks passed", "some check failed"], "ih") == "all checks passed":
        ev.append(("visit", a.s, True))
    else:
        a.self._errors.append("<error recorded below>")
        ev.append(("visit", a.s, g.bool("okall")))
    # a checker never rewrites, but the traversal must not depend on that
    return g.choose([None, [a.s]], "ih.result")


def with_check(c):
    c.callee("Check_ParallelizeLoop", result=check_callee, assumed=True,
             note="Check_ParallelizeLoop(proc, s) returns normally only if distinct iterations of s "
                  "are free of write/reduce conflicts (its formula is examined by contracts.c09_formula; "
                  "effect extraction and the SMT back end are assumed)")
    return c


# ----------------------------------------------------------------------------
# (1) ParallelAnalysis.map_s

cms = contract("C09", F, "ParallelAnalysis.map_s")
with_check(cms)
cms.callee("ParallelAnalysis.map_s", result=ih_map_s, assumed=False,
           note="induction hypothesis (structural recursion on child statements)")


@cms.inputs
def _(g):
    g.ghost["events"] = []
    g.ghost["check_args"] = []
    me = mk_pa(g)
    s = g_stmt(g)
    return {"self": me, "s": s, "__ghost__": {"old_errors": list(me._errors)}}


@cms.ensures("every Par loop below s was checked (or an error recorded), children included")
def _(a):
    return cov(a, [a.s], a.self._errors)


@cms.ensures("the check is asked about this procedure and this loop")
def _(a):
    return all(p is a.self.proc for p, _ in a.g.ghost.get("check_args", [])) \
        if not a.g.concrete else True


@cms.ensures("recorded errors are never dropped")
def _(a):
    old = a.ghost.old_errors
    return a.self._errors[:len(old)] == old


def _native_with_recorder(call):
    """Replay entry: the real method runs natively; Check_ParallelizeLoop is
    replaced by a recorder that fails on the calls selected by `failmask`."""
    def entry(g, fn, a):
        import exo.backend.parallel_analysis as PAm
        ev = g.ghost.setdefault("events", [])
        mask = abs(g.int("failmask"))
        SE = _sched_error()

        def rec(proc, s):
            k = sum(1 for e in ev if e[0] in ("ok", "fail"))
            if (mask >> k) & 1:
                ev.append(("fail", s))
                raise SE("replay: check fails")
            ev.append(("ok", s))
        old = PAm.Check_ParallelizeLoop
        PAm.Check_ParallelizeLoop = rec
        try:
            return call(fn, a)
        finally:
            PAm.Check_ParallelizeLoop = old
    return entry


cms.native_entry = _native_with_recorder(lambda fn, a: fn(a.self, a.s))


# ----------------------------------------------------------------------------
# (2) LoopIR_Rewrite.map_s : traversal contract

crw = contract("C09", FL, "LoopIR_Rewrite.map_s")


def ih_visit(g, a):
    g.ghost.setdefault("events", []).append(("visit", a.s, True))
    return g.choose([None, [a.s]], "ih.result")


crw.callee("LoopIR_Rewrite.map_s", result=ih_visit, assumed=False,
           note="recursive calls on child statements (dispatch through self.map_s)")


@crw.inputs
def _(g):
    from exo.core.LoopIR import LoopIR_Rewrite
    g.ghost["events"] = []
    return {"self": LoopIR_Rewrite(), "s": g_stmt(g)}


@crw.ensures("every child statement of For/If is visited exactly once, in program order")
def _(a):
    want = substmts(a.s)
    if a.g.concrete:
        vis = a.g.ghost.get("seen", [])          # filled by the replay entry below
    else:
        vis = [e[1] for e in events(a) if e[0] == "visit"]
    return len(vis) == len(want) and all(x is y for x, y in zip(vis, want))


def _native_rewrite(g, fn, a):
    """Replay: a subclass records the statements it is asked to map."""
    from exo.core.LoopIR import LoopIR_Rewrite
    seen = []
    top = a.s

    class Rec(LoopIR_Rewrite):
        def map_s(self, s):
            if s is top:
                return fn(self, s)
            seen.append(s)
            return None
    Rec().map_s(top)
    g.ghost["seen"] = seen
    return None


crw.native_entry = _native_rewrite


# ----------------------------------------------------------------------------
# (3) ParallelAnalysis.run

crun = contract("C09", F, "ParallelAnalysis.run")
with_check(crun)
crun.callee("ParallelAnalysis.map_s", result=ih_map_s, assumed=False,
            note="contract of ParallelAnalysis.map_s proved above")


@crun.inputs
def _(g):
    g.ghost["events"] = []
    body = children(g, "s", (1, 2, 3))
    proc = LoopIR.proc("p", [], [], body, None, SRC)
    me = mk_pa(g, proc)
    me.proc = None
    return {"self": me, "proc": proc}


@crun.ensures("normal return: every top-level statement visited, every check passed")
def _(a):
    return And(len(a.self._errors) == 0, cov(a, list(a.proc.body), []))


@crun.ensures("the checks are asked about the procedure being compiled")
def _(a):
    return a.self.proc is a.proc


crun.raises(TypeError, when=lambda a: len(a.self._errors) > 0,
            label="TypeError only when a check failed")
crun.native_entry = _native_with_recorder(lambda fn, a: fn(a.self, a.proc))


# ----------------------------------------------------------------------------
# (4) compile_to_strings: the analysis is on the only road to code generation
#
# Procedures are tokens here: every pass is modular and returns a *new* token
# that remembers which pass produced it from which token.  Obligation: the
# token given to `Compiler(...)` descends from `ParallelAnalysis().run(p)` for
# the p of the same loop iteration, and every non-instruction procedure of the
# call-graph closure gets exactly one Compiler.

class ProcTok:
    def __init__(self, name, instr=None, via=None, src=None):
        self.name, self.instr, self.args = name, instr, []
        self.via, self.src = via, src

    def chain(self):
        out, p = [], self
        while p.via is not None:
            out.append(p.via)
            p = p.src
        return list(reversed(out)), p

    def __repr__(self):
        ch, root = self.chain()
        return f"<proc {root.name} via {ch}>"


class InstrTok:
    c_instr = "asm({x});"
    c_global = ""


class CompTok:
    def __init__(self, proc):
        self.proc = proc


def cev(g):
    return g.ghost.setdefault("cevents", [])


def _pass(stage):
    def result(g, a):
        p = ProcTok(a.proc.name if hasattr(a, "proc") else a.old.name, None, stage,
                    a.proc if hasattr(a, "proc") else a.old)
        cev(g).append((stage, p.src))
        return p
    return result


def _compiler_init(g, a):
    cev(g).append(("Compiler", a.proc))
    a.self.proc = a.proc
    return None


cct = contract("C09", FC, "compile_to_strings")
cct.callee("find_all_subprocs", result=lambda g, a: list(g.ghost["closure"]), assumed=False,
           note="call-graph closure; its own contract is find_all_subprocs.walk below")
cct.callee("find_all_configs", result=lambda g, a: [], note="not relevant to C09")
cct.callee("_compile_context_struct", result=lambda g, a: ("ctxt", ["struct ctxt;"]), note="not relevant to C09")
cct.callee("find_all_mems", result=lambda g, a: [], note="not relevant to C09")
cct.callee("_compile_memories", result=lambda g, a: [], note="not relevant to C09")
cct.callee("find_all_externs", result=lambda g, a: [], note="not relevant to C09")
cct.callee("_compile_externs", result=lambda g, a: [], note="not relevant to C09")
cct.callee("ParallelAnalysis.run", result=_pass("parallel"), assumed=False,
           note="contract of ParallelAnalysis.run proved above")
cct.callee("PrecisionAnalysis.run", result=_pass("precision"), note="returns the analysed procedure (C15)")
cct.callee("LoopIR_Rewrite.apply_proc", result=_pass("window"), note="WindowAnalysis (C15)")
cct.callee("MemoryAnalysis.run", result=_pass("memory"), note="returns the procedure with frees inserted (C08)")
cct.callee("Compiler.__init__", result=_compiler_init, note="code generation of one procedure (C02)")
cct.callee("Compiler.comp_top", result=lambda g, a: (f"void {a.self.proc.name}();", f"void {a.self.proc.name}() {{}}"),
           note="code generation (C02)")
cct.callee("Compiler.struct_defns", result=lambda g, a: set(), note="code generation (C02)")
cct.callee("Compiler.needed_helpers", result=lambda g, a: set(), note="code generation (C02)")

_PNAMES = ["foo", "bar", "baz"]


@cct.inputs
def _(g):
    g.ghost["cevents"] = []
    n = g.choose([1, 2, 3], "nprocs")
    procs = []
    for i in range(n):
        kind = g.choose(["proc", "instr"], f"kind{i}")
        procs.append(ProcTok(_PNAMES[i], InstrTok() if kind == "instr" else None))
    g.ghost["closure"] = procs
    # the user passes any non-empty subset in any order; find_all_subprocs returns the closure
    return {"lib_name": "lib", "proc_list": [procs[-1]]}


@cct.ensures("every compiled procedure went through ParallelAnalysis().run before Compiler(...)")
def _(a):
    ev = cev(a.g)
    ok = True
    for i, e in enumerate(ev):
        if e[0] != "Compiler":
            continue
        ch, root = e[1].chain()
        ok = ok and "parallel" in ch and root in a.g.ghost["closure"] \
            and any(x[0] == "parallel" and x[1] is root for x in ev[:i])
    return ok


@cct.ensures("every non-instruction procedure of the closure is analysed and compiled exactly once")
def _(a):
    ev = cev(a.g)
    ok = True
    for p in a.g.ghost["closure"]:
        ncomp = sum(1 for e in ev if e[0] == "Compiler" and e[1].chain()[1] is p)
        npar = sum(1 for e in ev if e[0] == "parallel" and e[1] is p)
        ok = ok and (ncomp == npar == (0 if p.instr is not None else 1))
    return ok


def _native_compile(g, fn, a):
    """Replay: the real compile_to_strings runs natively with every pass and
    the code generator replaced by recording fakes."""
    import exo.backend.LoopIR_compiler as LC
    ev = cev(g)

    class A:
        pass

    def mk_pass(stage, meth):
        def run(self, p):
            q = ProcTok(p.name, None, stage, p)
            ev.append((stage, p))
            return q
        return type(stage, (), {meth: run})

    class FakeCompiler:
        def __init__(self, proc, ctxt_name, *, is_public_decl):
            ev.append(("Compiler", proc))
            self.proc = proc

        def comp_top(self):
            return "d", "b"

        def struct_defns(self):
            return set()

        def needed_helpers(self):
            return set()
    patch = dict(find_all_subprocs=lambda pl: list(g.ghost["closure"]), find_all_configs=lambda pl: [],
                 _compile_context_struct=lambda c, l: ("ctxt", []), find_all_mems=lambda pl: [],
                 _compile_memories=lambda m: [], find_all_externs=lambda pl: [], _compile_externs=lambda e: [],
                 ParallelAnalysis=mk_pass("parallel", "run"), PrecisionAnalysis=mk_pass("precision", "run"),
                 WindowAnalysis=mk_pass("window", "apply_proc"), MemoryAnalysis=mk_pass("memory", "run"),
                 Compiler=FakeCompiler)
    old = {k: getattr(LC, k) for k in patch}
    for k, v in patch.items():
        setattr(LC, k, v)
    try:
        return fn(a.lib_name, a.proc_list)
    finally:
        for k, v in old.items():
            setattr(LC, k, v)


cct.native_entry = _native_compile


# ----------------------------------------------------------------------------
# (5) "in any sub-procedure": the call-graph closure that compile_to_strings
#     iterates over.  LoopIR_SubProcs collects the callee of every Call at any
#     depth (structural induction, same scheme as (1)); find_all_subprocs.walk
#     keeps the depth-first invariant
#        proc in seen  and  callees(proc) <= seen      after walk(proc, ..) returns
#     so that `seen` is closed under "calls" when the outermost walk returns.

_CALLEE2 = LoopIR.proc("callee2", [], [], [LoopIR.Pass(SRC)], None, SRC)


def child_with_call(g, name):
    k = g.int("kind_" + name)
    if g.concrete:
        k = k % 3
        call = LoopIR.Call(_CALLEE2, [], SRC)
        if k == 0:
            return call
        if k == 1:
            return seq_loop([par_loop([call])])
        return if_stmt([LoopIR.Pass(SRC)], [call])
    return _opaque_class(LoopIR.stmt)(name, None, None, ())


def children_with_call(g, name, lens):
    n = g.choose(list(lens), name + ".len")
    return [child_with_call(g, f"{name}{i}") for i in range(n)]


def g_stmt_calls(g):
    k = g.choose(["ForPar", "ForSeq", "If"] + LEAVES, "stmt")
    if k == "ForPar":
        return par_loop(children_with_call(g, "b", (1, 2, 3)))
    if k == "ForSeq":
        return seq_loop(children_with_call(g, "b", (1, 2, 3)))
    if k == "If":
        return if_stmt(children_with_call(g, "b", (1, 2)), children_with_call(g, "e", (0, 1, 2)))
    return leaf(k)


def calls_below(s):
    if isinstance(s, LoopIR.Call):
        return [s.f]
    out = []
    for c in substmts(s):
        out += calls_below(c)
    return out


def subprocs_cov(a, me, stmts):
    if a.g.concrete:
        return all(f in me._subprocs for s in stmts for f in calls_below(s))
    vis = [e[1] for e in events(a) if e[0] == "visit"]
    ok = True
    for s in stmts:
        for kind, node in need(s):
            if kind == "visit":
                ok = ok and any(v is node for v in vis)
        if isinstance(s, LoopIR.Call):
            ok = ok and s.f in me._subprocs
    return ok


def ih_do_s(g, a):
    g.ghost.setdefault("events", []).append(("visit", a.s, True))
    return None


csp = contract("C09", FC, "LoopIR_SubProcs.do_s")
csp.callee("LoopIR_SubProcs.do_s", result=ih_do_s, assumed=False,
           note="induction hypothesis: the callees of every Call below the child are in self._subprocs")


@csp.inputs
def _(g):
    from exo.backend.LoopIR_compiler import LoopIR_SubProcs
    g.ghost["events"] = []
    me = object.__new__(LoopIR_SubProcs)
    me._subprocs = g.choose([set(), {_CALLEE}], "found so far")
    return {"self": me, "s": g_stmt_calls(g), "__ghost__": {"old": set(me._subprocs)}}


@csp.ensures("the callee of a Call is collected; every child statement is visited")
def _(a):
    return subprocs_cov(a, a.self, [a.s])


@csp.ensures("collected callees are never dropped")
def _(a):
    return a.ghost.old <= a.self._subprocs


csi = contract("C09", FC, "LoopIR_SubProcs.__init__")
csi.callee("LoopIR_SubProcs.do_s", result=ih_do_s, assumed=False, note="proved above")


@csi.inputs
def _(g):
    from exo.backend.LoopIR_compiler import LoopIR_SubProcs
    g.ghost["events"] = []
    body = children_with_call(g, "s", (1, 2, 3))
    ins = g.choose([None, LoopIR.instr("asm", "")], "instr")
    return {"self": object.__new__(LoopIR_SubProcs), "proc": LoopIR.proc("p", [], [], body, ins, SRC)}


@csi.ensures("every top-level statement of a non-instruction procedure is visited")
def _(a):
    if a.proc.instr is not None:
        return len(a.self._subprocs) == 0     # instruction bodies are not compiled
    return subprocs_cov(a, a.self, list(a.proc.body))


# find_all_subprocs.walk ------------------------------------------------------

def _graph(g):
    """proc P with 0..2 callees; each callee may already be in `seen` and may be
    on the current DFS stack (`visited`)."""
    P = ProcTok("P")
    n = g.choose([0, 1, 2], "ncallees")
    cs = [ProcTok(f"C{i}") for i in range(n)]
    seen0, visited = set(), set()
    older = ProcTok("older")
    if g.choose(["fresh", "older procs seen"], "seen0") != "fresh":
        seen0.add(older)
    for c in cs:
        st = g.choose(["new", "seen", "on stack"], c.name)
        if st == "seen":
            seen0.add(c)
        elif st == "on stack":
            seen0.add(c)
            visited.add(c)
    if g.choose(["P new", "P seen"], "P") == "P seen":
        seen0.add(P)
    g.ghost["callees"] = {P: cs}
    g.ghost["seen0"] = set(seen0)
    return P, visited, seen0


def _walk_state(g):
    fr = g.ghost["walk_fn"].frame
    return fr.vars["seen"], fr.vars["all_procs"]


def ih_walk(g, a):
    seen, allp = _walk_state(g)
    if g.choose(["returns", "cycle"], "walk(sp)") == "cycle":
        g.ghost["ih_raised"] = True
        raise ProgExc(ValueError("found call cycle (below)"))
    new = [a.proc] if a.proc not in seen else []
    if g.choose(["leaf", "has descendants"], "desc") != "leaf":
        new.append(ProcTok("D_" + a.proc.name))
    for p in new:
        seen.add(p)
        allp.append(p)
    return None


def _subprocs_init(g, a):
    a.self._subprocs = set(g.ghost["callees"].get(a.proc, []))
    return None


cwk = contract("C09", FC, "find_all_subprocs.walk")
cwk.outer_inputs = lambda g: {"proc_list": []}
cwk.callee("find_all_subprocs.walk", result=ih_walk, assumed=False,
           note="induction hypothesis on the call graph: after walk(sp, ..) returns, sp is in seen; seen only grows")
cwk.callee("LoopIR_SubProcs.__init__", result=_subprocs_init, assumed=False,
           note="LoopIR_SubProcs(p).result() = the procedures called anywhere in p (proved above)")


@cwk.inputs
def _(g):
    P, visited, seen0 = _graph(g)
    return {"proc": P, "visited": visited}


def _walk_entry(g, it, fn, a):
    g.ghost["walk_fn"] = fn
    fn.frame.vars["seen"] = set(g.ghost["seen0"])
    fn.frame.vars["all_procs"] = sorted(g.ghost["seen0"], key=lambda p: p.name)
    return it.call(fn, [a.proc, a.visited])


cwk.entry = _walk_entry


@cwk.ensures("after walk(p): p is seen, and every procedure p calls is seen")
def _(a):
    g = a.g
    cs = g.ghost["callees"][a.proc]
    if g.concrete:
        return a.proc in a.result and all(c in a.result for c in cs)
    seen, allp = _walk_state(g)
    closed = all(c in seen for c in cs) if a.proc not in g.ghost["seen0"] else True
    return a.proc in seen and closed


@cwk.ensures("seen only grows, and all_procs lists exactly the seen procedures, once each")
def _(a):
    g = a.g
    if g.concrete:
        return len(set(a.result)) == len(a.result)
    seen, allp = _walk_state(g)
    return g.ghost["seen0"] <= seen and set(allp) == seen and len(allp) == len(seen)


cwk.raises(ValueError, label="ValueError only for a call cycle",
           when=lambda a: a.g.concrete or a.g.ghost.get("ih_raised", False)
           or any(c in a.visited for c in a.g.ghost["callees"][a.proc]))


def _native_walk(g, fn, a):
    import exo.backend.LoopIR_compiler as LC
    callees = g.ghost["callees"]

    class Fake:
        def __init__(self, p):
            self.p = p

        def result(self):
            return set(callees.get(self.p, []))
    old = LC.LoopIR_SubProcs
    LC.LoopIR_SubProcs = Fake
    try:
        return LC.find_all_subprocs([a.proc])
    finally:
        LC.LoopIR_SubProcs = old


cwk.native_entry = _native_walk


cfs = contract("C09", FC, "find_all_subprocs")


def ih_walk_top(g, a):
    # the nested def is modular here; its frame is the one of this very call
    st = g.ghost.setdefault("top_seen", [])
    if g.choose(["returns", "cycle"], "walk(p)") == "cycle":
        raise ProgExc(ValueError("found call cycle (below)"))
    st.append(a.proc)
    g.ghost["walk_calls"] = g.ghost.get("walk_calls", 0) + 1
    g.ghost.setdefault("walk_visited", []).append(a.visited)
    return None


cfs.callee("find_all_subprocs.walk", result=ih_walk_top, assumed=False, note="proved above")


@cfs.inputs
def _(g):
    n = g.choose([1, 2, 3], "nprocs")
    return {"proc_list": [ProcTok(_PNAMES[i]) for i in range(n)]}


@cfs.ensures("walk is started on every requested procedure with an empty stack")
def _(a):
    if a.g.concrete:
        return all(p in a.result for p in a.proc_list)
    st = a.g.ghost.get("top_seen", [])
    return len(st) == len(a.proc_list) and all(x is y for x, y in zip(st, a.proc_list)) \
        and all(len(v) == 0 for v in a.g.ghost.get("walk_visited", []))


cfs.raises(ValueError, label="ValueError only for a call cycle")


def _native_fas(g, fn, a):
    import exo.backend.LoopIR_compiler as LC

    class Fake:
        def __init__(self, p):
            pass

        def result(self):
            return set()
    old = LC.LoopIR_SubProcs
    LC.LoopIR_SubProcs = Fake
    try:
        return fn(a.proc_list)
    finally:
        LC.LoopIR_SubProcs = old


cfs.native_entry = _native_fas


ASSUMPTIONS = [
    "C09: statement lists in the shapes have concrete lengths (For body 1..3, If body 1..2 / orelse 0..2, procedure body "
    "1..3, call graph: 0..2 callees per procedure); depth and the content of every child statement are unbounded "
    "(schematic children + induction hypothesis)",
    "C09: every way to generated C goes through compile_to_strings (run_compile, Procedure.compile_c / c_code_str call it)",
    "C09: a procedure reached only through an instruction (instr) body is not compiled, hence not analysed",
]
