"""C04 / C01 - capture-avoiding copy and substitution: `Alpha_Rename`, `SubstArgs`
(src/exo/core/LoopIR.py) and the callers' protocol in LoopIR_scheduling.py.

Property sentences used (C04): "every use of a variable lies in the scope of exactly
one declaration of it" and the mechanism "Alpha_Rename on every duplicated block";
(C01) "capture-avoiding copy and substitution used whenever code is duplicated".

(1) Alpha_Rename - structural induction over the whole statement / expression / type
    ADT.  One shape per constructor, children are SCHEMATIC (arbitrary statement,
    expression or type, never inspected), the recursive `map_s / map_e / map_t` calls
    are replaced by the induction hypothesis.  Specification (oracle `Chk`, written
    from the sentence above, independent of LoopIR_Rewrite):
       rename(block, env):   env : old binder -> new binder
         * every BINDER (For.iter, Alloc.name, WindowStmt.name, fnarg.name) is
           replaced by a symbol that did not exist before the call (Sym id >= the
           id counter at entry), with the same printed name, different from every
           other new binder (env stays injective, its range stays fresh);
         * the scope of a For binder is the loop body; of an Alloc / WindowStmt
           binder the REST OF ITS BLOCK; the branches of an If are two blocks;
         * every use (Read / WindowExpr / StrideExpr name, Assign / Reduce
           destination, WindowType.src_buf; in indices, bounds, guards, call
           arguments, extents of types, window coordinates) of n becomes
           env.get(n, n): symbols that are free in the block are unchanged;
         * nothing else changes: constructors, operators, constants, callee,
           memory, loop mode, config/field, srcinfo, types, list lengths.
    Scope discipline on the rewriter's state: `self.env` is a ChainMap; after
    `map_s(s)` its frames are the SAME dict objects as before, outer frames have
    the same contents, the innermost frame gained exactly the top-level binder of
    s (Alloc / WindowStmt) - a binder of a For body or an If branch cannot leak.
(2) SubstArgs - same induction; oracle `SChk`: a Read of a bound symbol without
    indices is replaced by the bound expression; an indexed Read / Assign / Reduce /
    WindowExpr / StrideExpr / WindowType.src_buf on a symbol bound to `Read(y)` is
    retargeted to y; binders are untouched; for index expressions additionally
    ev(result) under rho == ev(original) under rho[x := ev(binding[x])].
    What the code does NOT do (stated, see ASSUMPTIONS): it does not compose
    windows (a binding to a WindowExpr is rejected by an assertion; DoInline binds
    the formal to an alias introduced by a WindowStmt instead) and it does not look
    at binders at all - capture is excluded by the callers (engine (3)).
(3) `scan_sites` (ENGINE) - data-flow scan over the real AST of
    LoopIR_scheduling.py: every place where statements of the input tree flow into
    the output tree (`_insert`, `_replace`, results of the class-based rewriters,
    wrappers passed to `_wrap`).  One obligation per site, id = function + ordinal:
    a COPY that stays in the procedure must have passed through
    `Alpha_Rename(..).result()`; moves, binder-free statements and copies into
    disjoint sibling scopes are classified (reviewed table below) and listed.
(4) `run_blocks` (ENGINE, bounded stand-in, labelled so): every block of up to 3
    concrete statements over a small alphabet through the real Alpha_Rename and the
    same oracle - a cross-check of the composition of (1), not counted as proved.

Unbounded: depth and content of every child (schematic + induction), the
environment's content for children.  Bounded (stated): list lengths 0..2 (blocks,
indices, arguments, extents, window dimensions) and the environment shapes listed
in ENV_SHAPES for the node under proof.
"""
from __future__ import annotations
import ast, os, time
from collections import ChainMap
from pyvc.contract import contract
from pyvc import sym as S
from pyvc.sym import And, Or, Not, Implies
from pyvc.interp import Opaque, ProgExc
from contracts.ghost import _opaque_class, SRC, ev, rho
from exo.core.LoopIR import LoopIR, T
from exo.core.prelude import Sym, SrcInfo
from exo.core.memory import DRAM

FL = "src/exo/core/LoopIR.py"
FS = "src/exo/rewrite/LoopIR_scheduling.py"

SRC2 = SrcInfo("ghost-child", 1)

# The branches of an If are two blocks.  Until /repo 65ce5978 Alpha_Rename.map_s renamed both branches in ONE
# ChainMap frame, which is correct only under precondition U "a symbol declared at the top of the then-branch does
# not occur in the else-branch" (finding F60, witness/F60_alpha_rename_if_shared_frame.py: a free symbol of the
# else-branch was captured; an Alloc of the same symbol in both branches - reachable through lift_scope +
# eliminate_dead_code - made every copying rewrite die with an AssertionError).  The clause is now stated
# unconditionally (U_PRECONDITION = False); True restores the weaker, conditional clause.
U_PRECONDITION = False


def _AR():
    from exo.core.LoopIR import Alpha_Rename
    return Alpha_Rename


def _SA():
    from exo.core.LoopIR import SubstArgs
    return SubstArgs


# ============================================================================
# schematic children
# ============================================================================

OS_, OE_, OT_ = (_opaque_class(LoopIR.stmt), _opaque_class(LoopIR.expr), _opaque_class(LoopIR.type))

_CALLEE = LoopIR.proc("callee", [], [], [LoopIR.Pass(SRC)], None, SRC)


def _cfg():
    from exo.core.configs import Config
    from exo.core.LoopIR import UAST
    c = _cfg.__dict__.get("c")
    if c is None:
        c = _cfg.__dict__["c"] = Config("AlphaCfg", [("f", UAST.F32()), ("n", UAST.Index())], False)
    return c


def rd(n, idx=(), typ=None):
    return LoopIR.Read(n, list(idx), typ or (T.f32 if idx else T.index), SRC2)


def c_int(v):
    return LoopIR.Const(v, T.int, SRC2)


def c_type(scope):
    """concrete tensor type whose extents mention every symbol of `scope`"""
    return T.Tensor([rd(v) for v in scope], False, T.f32)


def c_wtype(src, scope):
    acc = [LoopIR.Interval(rd(scope[0]), rd(scope[-1]), SRC2)]
    return T.Window(c_type(scope), T.Tensor([LoopIR.BinOp("-", rd(scope[-1]), rd(scope[0]), T.index, SRC2)], True, T.f32),
                    src, acc), acc


def c_expr(k, scope):
    """concrete stand-in for a schematic expression (replay): mentions the symbols in scope"""
    k = k % 5
    a, b = scope[0], scope[-1]
    if k == 0:
        return rd(a, [rd(b)] + [rd(v) for v in scope[1:-1]])
    if k == 1:
        return LoopIR.BinOp("+", rd(a), LoopIR.USub(LoopIR.StrideExpr(b, 0, T.stride, SRC2), T.index, SRC2), T.index, SRC2)
    if k == 2:
        wt, acc = c_wtype(a, scope)
        return LoopIR.WindowExpr(a, acc, wt, SRC2)
    if k == 3:
        from exo.libs.externs import sin
        return LoopIR.Extern(sin, [rd(b, [rd(a)])], T.f32, SRC2)
    return LoopIR.BinOp("*", c_int(3), rd(b), T.index, SRC2)


def c_stmt(k, scope, binds):
    """concrete stand-in for a schematic statement (replay).  `binds`: the symbol it
    declares for the rest of its block (Alloc / WindowStmt) or None."""
    a, b = scope[0], scope[-1]
    if binds is not None:
        if k % 2 == 0:
            return LoopIR.Alloc(binds, c_type(scope), DRAM, SRC2)
        wt, acc = c_wtype(a, scope)
        return LoopIR.WindowStmt(binds, LoopIR.WindowExpr(a, acc, wt, SRC2), SRC2)
    k = k % 4
    if k == 0:
        return LoopIR.Assign(a, T.f32, [rd(v) for v in scope], rd(b, [rd(a)]), SRC2)
    if k == 1:
        j, t = Sym("j"), Sym("t")
        return LoopIR.For(j, rd(a), rd(b),
                          [LoopIR.Alloc(t, c_type(scope + [j]), DRAM, SRC2),
                           LoopIR.Reduce(t, T.f32, [rd(j)], rd(a, [rd(j)]), SRC2)], LoopIR.Seq(), SRC2)
    if k == 2:
        w = Sym("w")
        wt, acc = c_wtype(a, scope)
        cond = LoopIR.BinOp("<", rd(a), rd(b), T.bool, SRC2)
        return LoopIR.If(cond, [LoopIR.WindowStmt(w, LoopIR.WindowExpr(a, acc, wt, SRC2), SRC2),
                                LoopIR.Assign(w, T.f32, [rd(b)], rd(w, [rd(a)]), SRC2)],
                         [LoopIR.Reduce(b, T.f32, [], LoopIR.StrideExpr(a, 0, T.stride, SRC2), SRC2)], SRC2)
    wt, acc = c_wtype(a, scope)
    return LoopIR.Call(_CALLEE, [rd(v) for v in scope] + [LoopIR.WindowExpr(a, acc, wt, SRC2)], SRC2)


def o_expr(g, name, scope):
    k = g.int("shape_" + name)
    if g.concrete:
        return c_expr(k, scope)
    return OE_(name, None, T.index, ())


def o_type(g, name, scope):
    k = g.int("shape_" + name)
    if g.concrete:
        if k % 2 == 0:
            return c_type(scope)
        return c_wtype(scope[0], scope)[0]
    return OT_(name, None, None, ())


def o_stmt(g, name, scope, may_bind=True):
    binds = None
    if may_bind and g.choose(["plain statement", "declares a symbol (Alloc / WindowStmt)"], name + ".kind") != "plain statement":
        binds = Sym("b_" + name)
    k = g.int("shape_" + name)
    if g.concrete:
        return c_stmt(k, scope, binds), binds
    o = OS_(name, None, None, ())
    object.__setattr__(o, "_binds", binds)
    return o, binds


def o_exprs(g, name, scope, lens=(0, 1, 2)):
    n = g.choose(list(lens), name + ".len")
    return [o_expr(g, f"{name}{i}", scope) for i in range(n)]


def o_block(g, name, scope, lens=(1, 2), declared=None):
    """a block of schematic statements; a later one sees the symbols declared by the earlier ones
    (`declared`, if given, collects them)"""
    n = g.choose(list(lens), name + ".len")
    out, scope = [], list(scope)
    for i in range(n):
        s, b = o_stmt(g, f"{name}{i}", scope)
        out.append(s)
        if b is not None:
            scope = scope + [b]
            if declared is not None:
                declared.append(b)
    return out


ACCESS_LAYOUTS = ["[lo:hi]", "[pt]", "[lo:hi, pt]"]


def o_access(g, name, scope, layouts=ACCESS_LAYOUTS):
    lay = g.choose(list(layouts), name + ".layout")
    out = []
    for i, kind in enumerate(lay.strip("[]").split(", ")):
        if kind == "lo:hi":
            out.append(LoopIR.Interval(o_expr(g, f"{name}{i}lo", scope), o_expr(g, f"{name}{i}hi", scope), SRC))
        else:
            out.append(LoopIR.Point(o_expr(g, f"{name}{i}pt", scope), SRC))
    return out


# ============================================================================
# the oracle for Alpha_Rename
# ============================================================================

def flat(env):
    return dict(env)


def same_map(m1, m2, ignore=()):
    k1 = [k for k in m1 if not any(k is i for i in ignore)]
    k2 = [k for k in m2 if not any(k is i for i in ignore)]
    return len(k1) == len(k2) and all(k in m2 and m1[k] is m2[k] for k in k1)


class Log:
    """induction-hypothesis log of one path: which schematic child was renamed under which environment"""
    def __init__(self):
        self.entries = []

    def add(self, orig, env, node, fresh=None):
        self.entries.append(dict(orig=orig, env=env, node=node, fresh=fresh))

    def of(self, orig):
        return [e for e in self.entries if e["orig"] is orig]


def ihlog(g):
    return g.ghost.setdefault("ihlog", Log())


BINDER, USES, FRAME_, VISIT = "binder", "uses", "frame", "visit"


class Chk:
    """rename(block, env) as a checker of (original, result).  Failures are sorted into
    categories so that each clause of the contract looks at one aspect."""
    def __init__(self, log, id0):
        self.log, self.id0 = log, id0
        self.bad = {}
        self.new = []

    def fail(self, cat, msg):
        self.bad.setdefault(cat, msg)
        return False

    def ok(self, cat=None):
        return not self.bad if cat is None else cat not in self.bad

    # -- leaves
    def enter(self, env, old, new):
        """environment inside the scope of a binder"""
        inner = dict(env)
        inner[old] = new
        return inner

    def use(self, o, r, env, where):
        if r is env.get(o, o):
            return True
        return self.fail(USES, f"{where}: {o!r} became {r!r}, expected {env.get(o, o)!r}")

    def binder(self, o, r, where):
        ok = isinstance(r, Sym) and r is not o and r.name() == o.name() and r._id >= self.id0 \
            and not any(r is n for n in self.new)
        self.new.append(r)
        if not ok:
            return self.fail(BINDER, f"{where}: binder {o!r} became {r!r} (not a fresh, unused symbol of the same name)")
        return True

    def eq(self, x, y, where):
        if x is y or (type(x) is type(y) and not isinstance(x, (Sym, LoopIR.proc)) and x == y):
            return True
        return self.fail(FRAME_, f"{where}: {x!r} != {y!r}")

    def schematic(self, o, r, env, where, ignore=()):
        es = self.log.of(o)
        if len(es) != 1:
            self.fail(VISIT, f"{where}: schematic child renamed {len(es)} times")
            return None
        e = es[0]
        if not same_map(e["env"], env, ignore):
            self.fail(USES, f"{where}: child renamed under {e['env']!r}, its scope is {env!r}")
            return None
        if r is not e["node"]:
            self.fail(FRAME_, f"{where}: result does not contain the renamed child")
            return None
        return e

    # -- expressions, window coordinates, types
    def exprs(self, os, rs, env, where, ignore=()):
        if not isinstance(rs, list) or len(os) != len(rs):
            return self.fail(FRAME_, f"{where}: list length changed")
        return all([self.e(o, r, env, f"{where}[{i}]", ignore) for i, (o, r) in enumerate(zip(os, rs))])

    def e(self, o, r, env, where, ignore=()):
        if isinstance(o, Opaque):
            return self.schematic(o, r, env, where, ignore) is not None
        if type(o) is not type(r):
            return self.fail(FRAME_, f"{where}: {type(o).__name__} became {type(r).__name__}")
        ok = self.eq(o.srcinfo, r.srcinfo, where + ".srcinfo")
        if isinstance(o, LoopIR.Read):
            return ok & self.use(o.name, r.name, env, where) & self.exprs(o.idx, r.idx, env, where + ".idx", ignore) \
                & self.t(o.type, r.type, env, where + ".type", ignore)
        if isinstance(o, LoopIR.Const):
            return ok & self.eq(o.val, r.val, where) & self.t(o.type, r.type, env, where + ".type", ignore)
        if isinstance(o, LoopIR.USub):
            return ok & self.e(o.arg, r.arg, env, where + ".arg", ignore) & self.t(o.type, r.type, env, where + ".type", ignore)
        if isinstance(o, LoopIR.BinOp):
            return ok & self.eq(o.op, r.op, where + ".op") & self.e(o.lhs, r.lhs, env, where + ".lhs", ignore) \
                & self.e(o.rhs, r.rhs, env, where + ".rhs", ignore) & self.t(o.type, r.type, env, where + ".type", ignore)
        if isinstance(o, LoopIR.Extern):
            return ok & self.eq(o.f, r.f, where + ".f") & self.exprs(o.args, r.args, env, where + ".args", ignore) \
                & self.t(o.type, r.type, env, where + ".type", ignore)
        if isinstance(o, LoopIR.WindowExpr):
            return ok & self.use(o.name, r.name, env, where) & self.ws(o.idx, r.idx, env, where + ".idx", ignore) \
                & self.t(o.type, r.type, env, where + ".type", ignore)
        if isinstance(o, LoopIR.StrideExpr):
            return ok & self.use(o.name, r.name, env, where) & self.eq(o.dim, r.dim, where + ".dim") \
                & self.t(o.type, r.type, env, where + ".type", ignore)
        if isinstance(o, LoopIR.ReadConfig):
            return ok & self.eq(o.config, r.config, where) & self.eq(o.field, r.field, where) \
                & self.t(o.type, r.type, env, where + ".type", ignore)
        return self.fail(FRAME_, f"{where}: unknown expression {type(o).__name__}")

    def ws(self, os, rs, env, where, ignore=()):
        if not isinstance(rs, list) or len(os) != len(rs):
            return self.fail(FRAME_, f"{where}: number of window coordinates changed")
        ok = True
        for i, (o, r) in enumerate(zip(os, rs)):
            w = f"{where}[{i}]"
            if type(o) is not type(r):
                ok = self.fail(FRAME_, f"{w}: {type(o).__name__} became {type(r).__name__}")
            elif isinstance(o, LoopIR.Interval):
                ok &= self.e(o.lo, r.lo, env, w + ".lo", ignore) & self.e(o.hi, r.hi, env, w + ".hi", ignore)
            else:
                ok &= self.e(o.pt, r.pt, env, w + ".pt", ignore)
        return ok

    def t(self, o, r, env, where, ignore=()):
        if isinstance(o, Opaque):
            return self.schematic(o, r, env, where, ignore) is not None
        if type(o) is not type(r):
            return self.fail(FRAME_, f"{where}: type {type(o).__name__} became {type(r).__name__}")
        if isinstance(o, T.Tensor):
            return self.exprs(o.hi, r.hi, env, where + ".hi", ignore) & self.eq(o.is_window, r.is_window, where) \
                & self.t(o.type, r.type, env, where + ".type", ignore)
        if isinstance(o, T.Window):
            return self.t(o.src_type, r.src_type, env, where + ".src_type", ignore) \
                & self.t(o.as_tensor, r.as_tensor, env, where + ".as_tensor", ignore) \
                & self.use(o.src_buf, r.src_buf, env, where + ".src_buf") & self.ws(o.idx, r.idx, env, where + ".idx", ignore)
        return True

    # -- statements
    def block(self, os, rs, env, where, ignore=()):
        """returns the top-level binders of the block {old: new} (None after a structural failure)"""
        if not isinstance(rs, list) or len(os) != len(rs):
            self.fail(FRAME_, f"{where}: block length changed")
            return None
        env, decl = dict(env), {}
        for i, (o, r) in enumerate(zip(os, rs)):
            d = self.s(o, r, env, f"{where}[{i}]", ignore)
            if d is None:
                return None
            env.update(d)
            decl.update(d)
            # a symbol declared by an earlier statement is a legitimate entry of the later scopes
            ignore = tuple(x for x in ignore if not any(x is k for k in d))
        return decl

    def s(self, o, r, env, where, ignore=()):
        """returns {old: new} for the symbol the statement declares for the rest of its block"""
        if isinstance(o, Opaque):
            e = self.schematic(o, r, env, where, ignore)
            if e is None:
                return None
            b = getattr(o, "_binds", None)
            if b is None:
                return {}
            self.new.append(e["fresh"])
            return {b: e["fresh"]}
        if type(o) is not type(r):
            self.fail(FRAME_, f"{where}: {type(o).__name__} became {type(r).__name__}")
            return None
        self.eq(o.srcinfo, r.srcinfo, where + ".srcinfo")
        if isinstance(o, (LoopIR.Assign, LoopIR.Reduce)):
            self.use(o.name, r.name, env, where)
            self.t(o.type, r.type, env, where + ".type", ignore)
            self.exprs(o.idx, r.idx, env, where + ".idx", ignore)
            self.e(o.rhs, r.rhs, env, where + ".rhs", ignore)
            return {}
        if isinstance(o, LoopIR.WriteConfig):
            self.eq(o.config, r.config, where)
            self.eq(o.field, r.field, where)
            self.e(o.rhs, r.rhs, env, where + ".rhs", ignore)
            return {}
        if isinstance(o, LoopIR.Pass):
            return {}
        if isinstance(o, LoopIR.If):
            self.e(o.cond, r.cond, env, where + ".cond", ignore)
            d = self.block(o.body, r.body, env, where + ".body", ignore)
            # the else branch is its own block: what the then-branch declares is not in scope there.
            # (U_PRECONDITION = True: the older, conditional clause - such a symbol is assumed not to occur in
            # the else branch, so an environment that still contains it renames the else branch in the same way.)
            self.block(o.orelse, r.orelse, env, where + ".orelse", tuple(ignore) + (tuple(d or ()) if U_PRECONDITION else ()))
            return {}
        if isinstance(o, LoopIR.For):
            self.e(o.lo, r.lo, env, where + ".lo", ignore)
            self.e(o.hi, r.hi, env, where + ".hi", ignore)
            self.eq(o.loop_mode, r.loop_mode, where + ".loop_mode")
            self.binder(o.iter, r.iter, where + ".iter")
            self.block(o.body, r.body, self.enter(env, o.iter, r.iter), where + ".body",
                       tuple(x for x in ignore if x is not o.iter))
            return {}
        if isinstance(o, LoopIR.Alloc):
            self.t(o.type, r.type, env, where + ".type", ignore)
            self.eq(o.mem, r.mem, where + ".mem")
            self.binder(o.name, r.name, where + ".name")
            return {o.name: r.name}
        if isinstance(o, LoopIR.WindowStmt):
            self.e(o.rhs, r.rhs, env, where + ".rhs", ignore)
            self.binder(o.name, r.name, where + ".name")
            return {o.name: r.name}
        if isinstance(o, LoopIR.Call):
            self.eq(o.f, r.f, where + ".f")
            self.exprs(o.args, r.args, env, where + ".args", ignore)
            return {}
        self.fail(FRAME_, f"{where}: unknown statement {type(o).__name__}")
        return None


# ----------------------------------------------------------------------------
# induction hypotheses (modular callees)

def _tagged(cls, o, suffix="'"):
    n = cls(getattr(o, "_pyvc_name", "c") + suffix, None, getattr(o, "type", None), getattr(o, "_pyvc_not", ()))
    object.__setattr__(n, "_orig", o)
    return n


def _ih_leaf(g, a, node, cls, what):
    """rename(child, env) for a schematic expression / type: either the child contains nothing that env renames
    and no binder (None: unchanged) or it is the renamed child (a new node).  The environment is not modified."""
    if not isinstance(node, Opaque):
        raise ProgExc(AssertionError(f"recursive {what} call on a non-schematic node: {node!r}"))
    snap = flat(a.self.env)
    # expressions and types contain no binder: under an empty environment there is nothing to rename
    # (clause "empty environment => unchanged" of map_e / map_t)
    if snap and g.choose(["renamed", "unchanged (nothing to rename inside)"], "ih." + node._pyvc_name) == "renamed":
        n = _tagged(cls, node)
        ihlog(g).add(node, snap, n)
        return n
    ihlog(g).add(node, snap, node)
    return None


def ih_map_e(g, a):
    return _ih_leaf(g, a, a.e, OE_, "map_e")


def ih_map_t(g, a):
    if not isinstance(a.t, Opaque) and not isinstance(a.t, (T.Tensor, T.Window)):
        return None                     # scalar / index types: proved as the shape "scalar" of map_t
    return _ih_leaf(g, a, a.t, OT_, "map_t")


def ih_map_s(g, a):
    """rename(child statement, env): the induction hypothesis is the contract of map_s itself -
    result [renamed child] (or None: unchanged), frames of self.env untouched except that a
    declaring statement (Alloc / WindowStmt) adds  old -> fresh copy  to the innermost frame."""
    c = a.s
    if not isinstance(c, Opaque):
        raise ProgExc(AssertionError(f"recursive map_s call on a non-schematic statement: {c!r}"))
    snap = flat(a.self.env)
    b = getattr(c, "_binds", None)
    if b is not None:
        fresh = Sym(b.name())
        a.self.env[b] = fresh
        n = _tagged(OS_, c)
        ihlog(g).add(c, snap, n, fresh)
        return [n]
    if g.choose(["renamed", "unchanged (nothing to rename inside)"], "ih." + c._pyvc_name) == "renamed":
        n = _tagged(OS_, c)
        ihlog(g).add(c, snap, n)
        return [n]
    ihlog(g).add(c, snap, c)
    return None


IH_S = dict(result=ih_map_s, assumed=False,
            note="induction hypothesis: contract of Alpha_Rename.map_s on a child statement")
IH_E = dict(result=ih_map_e, assumed=False,
            note="induction hypothesis / proved contract of Alpha_Rename.map_e on a child expression")
IH_T = dict(result=ih_map_t, assumed=False,
            note="induction hypothesis / proved contract of Alpha_Rename.map_t on a child type")


# ----------------------------------------------------------------------------
# environments of the node under proof

ENV_SHAPES = ["empty", "x renamed in this frame", "x renamed in an outer frame, y in this frame"]
LEAF_ENV_SHAPES = ["empty", "x renamed in an outer frame, y in this frame"]     # expressions / types never push or pop


def gen_env(g, shapes=ENV_SHAPES):
    X, Y, F = Sym("x"), Sym("y"), Sym("free")
    X1, Y1 = Sym("x"), Sym("y")
    shape = g.choose(list(shapes), "env")
    if shape == "empty":
        maps = [{}]
    elif shape == "x renamed in this frame":
        maps = [{X: X1}]
    else:
        maps = [{Y: Y1}, {X: X1}]
    return ChainMap(*maps), X, Y, F


def pick_name(g, env, X, F, label="name"):
    """a use position of the node under proof: a symbol the environment renames, or a free one"""
    if X in env and g.choose(["declared outside the node, inside the copied block (in env)", "free in the block"],
                             label) != "free in the block":
        return X
    return F


def mk_renamer(g, env):
    me = object.__new__(_AR())
    me.env = env
    me.node = []
    return me


def env_ghost(env):
    return {"maps0": list(env.maps), "contents0": [dict(m) for m in env.maps], "flat0": dict(env),
            "id0": Sym._unq_count}


def frames_ok(a, added=None):
    """self.env consists of the same frame objects; outer frames unchanged; innermost frame = before + added"""
    maps = a.self.env.maps
    gh = a.ghost
    if len(maps) != len(gh.maps0) or not all(m is m0 for m, m0 in zip(maps, gh.maps0)):
        return False
    for m, c0 in list(zip(maps, gh.contents0))[1:]:
        if not same_map(m, c0):
            return False
    want = dict(gh.contents0[0])
    want.update(added or {})
    if not same_map(maps[0], want):
        return False
    vals = list(dict(a.self.env).values())
    return len({id(v) for v in vals}) == len(vals)          # injective


def _verdict(a, compute):
    v = a.g.ghost.get("verdict")
    if v is None:
        v = a.g.ghost["verdict"] = compute()
    return v


# ============================================================================
# (1a) Alpha_Rename.map_s
# ============================================================================

STMTS = ["Assign", "Reduce", "WriteConfig", "Pass", "If", "For", "Alloc", "Free", "Call", "WindowStmt"]

cms = contract("C04", FL, "Alpha_Rename.map_s")
cms.callee("Alpha_Rename.map_s", **IH_S)
cms.callee("Alpha_Rename.map_e", **IH_E)
cms.callee("Alpha_Rename.map_t", **IH_T)


def g_stmt(g, k, env, X, Y, F):
    scope = [X, Y, F]
    if k in ("Assign", "Reduce"):
        n = pick_name(g, env, X, F)
        cls = LoopIR.Assign if k == "Assign" else LoopIR.Reduce
        return cls(n, o_type(g, "ty", scope), o_exprs(g, "i", scope, (0, 2)), o_expr(g, "rhs", scope), SRC)
    if k == "WriteConfig":
        return LoopIR.WriteConfig(_cfg(), "f", o_expr(g, "rhs", scope), SRC)
    if k == "Pass":
        return LoopIR.Pass(SRC)
    if k == "If":
        nb, ne = g.choose([(1, 0), (1, 1), (1, 2), (2, 0), (2, 1)], "len(body), len(orelse)")
        cond, decl = o_expr(g, "cond", scope), []
        body = o_block(g, "b", scope, (nb,), decl)
        # under precondition U the else-branch does not mention what the then-branch declares; without it
        # (replay) it may: there such a symbol is FREE and must stay unchanged
        return LoopIR.If(cond, body, o_block(g, "e", scope if U_PRECONDITION else scope + decl, (ne,)), SRC)
    if k == "For":
        # the iterator may be a symbol that an enclosing scope of the block already renamed (shadowing)
        it = X if (X in env and g.choose(["new iterator", "iterator shadows a renamed symbol"], "iter") != "new iterator") \
            else Sym("it")
        body = o_block(g, "b", scope + [it], (1, 2))
        mode = LoopIR.Par() if len(body) == 2 else LoopIR.Seq()
        # (replay) the bounds may mention the iterator's symbol: there it is a FREE occurrence (an outer variable)
        return LoopIR.For(it, o_expr(g, "lo", [it] + scope), o_expr(g, "hi", scope + [it]), body, mode, SRC)
    if k == "Alloc":
        n = X if (X in env and g.choose(["new buffer", "buffer symbol already renamed (re-declaration)"], "nm")
                  != "new buffer") else Sym("buf")
        return LoopIR.Alloc(n, o_type(g, "ty", scope), DRAM, SRC)
    if k == "Free":
        return LoopIR.Free(pick_name(g, env, X, F), o_type(g, "ty", scope), DRAM, SRC)
    if k == "Call":
        return LoopIR.Call(_CALLEE, o_exprs(g, "a", scope), SRC)
    if k == "WindowStmt":
        return LoopIR.WindowStmt(Sym("win"), o_expr(g, "rhs", scope), SRC)
    raise AssertionError(k)


@cms.inputs
def _(g):
    k = g.choose(STMTS, "stmt")
    # statements that open a scope are proved in an outermost and in a nested frame; the others in all three shapes
    env, X, Y, F = gen_env(g, LEAF_ENV_SHAPES if k in ("If", "For") else ENV_SHAPES)
    s = g_stmt(g, k, env, X, Y, F)
    me = mk_renamer(g, env)
    return {"self": me, "s": s, "__ghost__": env_ghost(env)}


def _check_s(a):
    def compute():
        ck = Chk(ihlog(a.g), a.ghost.id0)
        res = a.result if a.result is not None else [a.s]
        if not isinstance(res, list) or len(res) != 1:
            ck.fail(FRAME_, "map_s must return None or a one-element list")
            return ck, None
        return ck, ck.s(a.s, res[0], a.ghost.flat0, "s")
    return _verdict(a, compute)


R_CLAUSE = ("the result is the input with every binder (For.iter, Alloc.name, WindowStmt.name) replaced by a fresh symbol "
            "of the same name, every use renamed by the environment of its scope, free symbols and everything else unchanged")
S_CLAUSE = ("scope discipline: the frames of self.env are restored; only an Alloc / WindowStmt adds its own binder to the "
            "innermost frame; the environment stays injective")


def _explain(ck):
    """in a replay script: say what differs"""
    import sys
    if not ck.ok() and a_replay():
        for cat, msg in ck.bad.items():
            print(f"  oracle [{cat}]: {msg}")
    return ck.ok()


def a_replay():
    import sys
    return "/replay/" in os.path.abspath(sys.argv[0] or "") or bool(os.environ.get("PYVC_EXPLAIN"))


@cms.ensures(R_CLAUSE)
def _(a):
    return _explain(_check_s(a)[0])


@cms.ensures(S_CLAUSE)
def _(a):
    ck, decl = _check_s(a)
    return decl is not None and frames_ok(a, decl)


cms.raises(AssertionError, label="AssertionError only for an Alloc whose symbol is already declared in an enclosing scope of the copy",
           when=lambda a: isinstance(a.s, LoopIR.Alloc) and a.s.name in a.ghost.flat0)
cms.raises(NotImplementedError, label="NotImplementedError only for Free (inserted by the backend after scheduling)",
           when=lambda a: isinstance(a.s, LoopIR.Free))


# ============================================================================
# (1b) Alpha_Rename.map_e
# ============================================================================

EXPRS = ["Read", "Const", "USub", "BinOp", "Extern", "WindowExpr", "StrideExpr", "ReadConfig"]

cme = contract("C04", FL, "Alpha_Rename.map_e")
cme.callee("Alpha_Rename.map_e", **IH_E)
cme.callee("Alpha_Rename.map_t", **IH_T)


def g_expr(g, env, X, Y, F):
    from exo.libs.externs import sin, select
    k = g.choose(EXPRS, "expr")
    scope = [X, Y, F]
    if k == "Read":
        return LoopIR.Read(pick_name(g, env, X, F), o_exprs(g, "i", scope), o_type(g, "ty", scope), SRC)
    if k == "Const":
        return LoopIR.Const(g.int("c"), T.int, SRC)
    if k == "USub":
        return LoopIR.USub(o_expr(g, "arg", scope), o_type(g, "ty", scope), SRC)
    if k == "BinOp":
        op = g.choose(["+", "<"], "op")
        return LoopIR.BinOp(op, o_expr(g, "lhs", scope), o_expr(g, "rhs", scope), o_type(g, "ty", scope), SRC)
    if k == "Extern":
        return LoopIR.Extern(sin, o_exprs(g, "x", scope, (1, 2)), o_type(g, "ty", scope), SRC)
    if k == "WindowExpr":
        return LoopIR.WindowExpr(pick_name(g, env, X, F), o_access(g, "w", scope), o_type(g, "ty", scope), SRC)
    if k == "StrideExpr":
        return LoopIR.StrideExpr(pick_name(g, env, X, F), g.choose([0, 1], "dim"), T.stride, SRC)
    if k == "ReadConfig":
        return LoopIR.ReadConfig(_cfg(), "n", o_type(g, "ty", scope), SRC)
    raise AssertionError(k)


@cme.inputs
def _(g):
    env, X, Y, F = gen_env(g, LEAF_ENV_SHAPES)
    e = g_expr(g, env, X, Y, F)
    return {"self": mk_renamer(g, env), "e": e, "__ghost__": env_ghost(env)}


def _check_e(a):
    def compute():
        ck = Chk(ihlog(a.g), a.ghost.id0)
        ck.e(a.e, a.result if a.result is not None else a.e, a.ghost.flat0, "e")
        return ck
    return _verdict(a, compute)


E_CLAUSE = ("the result is the expression with every Read / WindowExpr / StrideExpr name, index, window coordinate and type "
            "renamed by the environment; free symbols and everything else unchanged")


@cme.ensures(E_CLAUSE)
def _(a):
    return _explain(_check_e(a))


@cme.ensures("an expression declares nothing: self.env is unchanged")
def _(a):
    return frames_ok(a)


@cme.ensures("under an empty environment the expression is unchanged (None)")
def _(a):
    return a.result is None if not a.ghost.flat0 else True


# ============================================================================
# (1c) Alpha_Rename.map_t
# ============================================================================

TYPES = ["scalar", "Tensor", "WindowType"]

cmt = contract("C04", FL, "Alpha_Rename.map_t")
cmt.callee("Alpha_Rename.map_e", **IH_E)
cmt.callee("Alpha_Rename.map_t", **IH_T)


def g_type(g, env, X, Y, F):
    k = g.choose(TYPES, "type")
    scope = [X, Y, F]
    if k == "scalar":
        return g.choose([T.f32, T.index, T.bool], "scalar")
    if k == "Tensor":
        base, isw = g.choose([(T.f32, False), (T.i8, True)], "base / is_window")
        return T.Tensor(o_exprs(g, "hi", scope, (1, 2)), isw, base)
    return T.Window(o_type(g, "src", scope), o_type(g, "as", scope), pick_name(g, env, X, F),
                    o_access(g, "w", scope, ["[pt]", "[lo:hi, pt]"]))


@cmt.inputs
def _(g):
    env, X, Y, F = gen_env(g, LEAF_ENV_SHAPES)
    t = g_type(g, env, X, Y, F)
    return {"self": mk_renamer(g, env), "t": t, "__ghost__": env_ghost(env)}


def _check_t(a):
    def compute():
        ck = Chk(ihlog(a.g), a.ghost.id0)
        ck.t(a.t, a.result if a.result is not None else a.t, a.ghost.flat0, "t")
        return ck
    return _verdict(a, compute)


T_CLAUSE = ("extents of a tensor type, window coordinates and the source buffer of a window type follow the environment; "
            "free symbols and everything else unchanged")


@cmt.ensures(T_CLAUSE)
def _(a):
    return _explain(_check_t(a))


@cmt.ensures("a type declares nothing: self.env is unchanged")
def _(a):
    return frames_ok(a)


@cmt.ensures("a scalar type, and any type under an empty environment, is returned unchanged (None)")
def _(a):
    return a.result is None if (not isinstance(a.t, (T.Tensor, T.Window)) or not a.ghost.flat0) else True


# ============================================================================
# (1d) Alpha_Rename.__init__ / map_fnarg : a whole block, an expression list, a whole procedure
# ============================================================================

cai = contract("C04", FL, "Alpha_Rename.__init__")
cai.callee("Alpha_Rename.map_s", **IH_S)
cai.callee("Alpha_Rename.map_e", **IH_E)
cai.callee("Alpha_Rename.map_t", **IH_T)


def o_pred(g, name, scope):
    k = g.int("shape_" + name)
    if g.concrete:
        return LoopIR.BinOp("<", rd(scope[0]), rd(scope[-1]), T.bool, SRC2)
    return OE_(name, None, T.bool, (LoopIR.Const,))


@cai.inputs
def _(g):
    F = Sym("free")
    kind = g.choose(["statement block", "expression list", "procedure"], "node")
    if kind == "statement block":
        node = o_block(g, "s", [F], (1, 2))
    elif kind == "expression list":
        node = o_exprs(g, "e", [F], (1, 2))
    else:
        n_args = g.choose([0, 1, 2], "n_args")
        args, scope = [], [F]
        for i in range(n_args):
            nm = Sym(f"arg{i}")
            args.append(LoopIR.fnarg(nm, o_type(g, f"aty{i}", scope), DRAM if i else None, SRC))
            scope = scope + [nm]
        preds = [o_pred(g, f"p{i}", scope) for i in range(g.choose([0, 1], "n_preds"))]
        node = LoopIR.proc("p", args, preds, o_block(g, "s", scope, (1,)), None, SRC)
    me = object.__new__(_AR())
    return {"self": me, "node": node, "__ghost__": {"id0": Sym._unq_count, "kind": kind}}


def _check_init(a):
    def compute():
        ck = Chk(ihlog(a.g), a.ghost.id0)
        res = a.self.node
        if a.ghost.kind == "statement block":
            ck.block(a.node, res, {}, "block")
        elif a.ghost.kind == "expression list":
            ck.exprs(a.node, res, {}, "exprs")
        else:
            p, q = a.node, res
            if not isinstance(q, LoopIR.proc) or len(q.args) != len(p.args):
                ck.fail(FRAME_, "procedure / number of arguments changed")
                return ck
            env = {}
            for i, (fa, fb) in enumerate(zip(p.args, q.args)):
                ck.binder(fa.name, fb.name, f"args[{i}].name")
                # an argument's type may mention EARLIER arguments only (front end); its own name does not occur in it
                ck.t(fa.type, fb.type, env, f"args[{i}].type", ignore=(fa.name,))
                ck.eq(fa.mem, fb.mem, f"args[{i}].mem")
                ck.eq(fa.srcinfo, fb.srcinfo, f"args[{i}].srcinfo")
                env[fa.name] = fb.name
            ck.exprs(p.preds, q.preds, env, "preds")
            ck.block(p.body, q.body, env, "body")
            ck.eq(p.name, q.name, "name")
            ck.eq(p.instr, q.instr, "instr")
        return ck
    return _verdict(a, compute)


@cai.ensures("result() is the whole block / expression list / procedure renamed from an EMPTY environment: statements in order, "
             "each in the scope of the declarations before it; arguments are binders whose scope is the later argument "
             "types, the assertions and the body")
def _(a):
    return _explain(_check_init(a))


@cai.ensures("result() returns what the constructor computed")
def _(a):
    return a.self.result() is a.self.node if a.g.concrete else True


# ============================================================================
# (2) SubstArgs
# ============================================================================

OIX_ = OE_


def ix_expr(g, name, scope, not_ctors=()):
    """schematic INDEX expression: carries its value under rho (`_pyvc_ev`) and under the substituted valuation
    rho[x := ev(binding[x])] (`_ev_sub`).  Replay: a small arithmetic expression over the symbols in scope."""
    v, vs, k = g.int("ev_" + name), g.int("evs_" + name), g.int("shape_" + name)
    if g.concrete:
        k = k % 4
        a, b = scope[k % len(scope)], scope[(k + 1) % len(scope)]
        if k == 0:
            return rd(a)
        if k == 1:
            return LoopIR.BinOp("+", rd(a), LoopIR.BinOp("*", c_int(3), rd(b), T.index, SRC2), T.index, SRC2)
        if k == 2:
            return LoopIR.USub(rd(b), T.index, SRC2)
        return LoopIR.BinOp("-", c_int(v), rd(a), T.index, SRC2)
    o = OE_(name, v, T.index, not_ctors)
    object.__setattr__(o, "_ev_sub", vs)
    return o


def gen_binding(g):
    """binding: P -> Read(Q) (a buffer / window / scalar name passed for a formal),
                V -> an index expression that is not a plain name,   F is not bound"""
    P, Q, V, K, F = Sym("p"), Sym("q"), Sym("v"), Sym("k"), Sym("free")
    if g.concrete:
        be = LoopIR.BinOp("+", LoopIR.BinOp("*", c_int(4), rd(K), T.index, SRC2), c_int(g.int("ev_bound")), T.index, SRC2)
    else:
        be = OE_("bound", g.int("ev_bound"), T.index, (LoopIR.Read, LoopIR.WindowExpr))
        object.__setattr__(be, "_ev_sub", be._pyvc_ev)      # bound expressions live outside the block
    B = {P: LoopIR.Read(Q, [], T.index, SRC2), V: be}
    return B, P, Q, V, F


def mk_subst(g, B):
    me = object.__new__(_SA())
    me.env = B
    me.nodes = []
    return me


def evable(e):
    if isinstance(e, Opaque):
        return hasattr(e, "_ev_sub")
    if isinstance(e, LoopIR.Const):
        return isinstance(e.val, (int, S.SInt)) and not isinstance(e.val, bool)
    if isinstance(e, LoopIR.Read):
        return len(e.idx) == 0
    if isinstance(e, LoopIR.USub):
        return evable(e.arg)
    if isinstance(e, LoopIR.BinOp):
        return e.op in ("+", "-", "*", "<", "==") and evable(e.lhs) and evable(e.rhs)
    return False


def ev_sub(e, B):
    """value of the ORIGINAL expression under rho[x := ev(B[x]) for x in B]"""
    from contracts.ghost import ev_binop
    if isinstance(e, Opaque):
        return e._ev_sub
    if isinstance(e, LoopIR.Const):
        return e.val
    if isinstance(e, LoopIR.Read):
        return ev(B[e.name]) if e.name in B else rho(e.name)
    if isinstance(e, LoopIR.USub):
        return -ev_sub(e.arg, B)
    return ev_binop(e.op, ev_sub(e.lhs, B), ev_sub(e.rhs, B))


class SChk(Chk):
    """subst(block, B) as a checker of (original, result); `env` of the base class is the binding"""
    def __init__(self, log, id0, B):
        super().__init__(log, id0)
        self.B = B

    def enter(self, env, old, new):
        return env                                 # binders are not looked at: the binding never changes

    def use(self, o, r, B, where):
        if o in B:
            tgt = B[o]
            if not (isinstance(tgt, LoopIR.Read) and len(tgt.idx) == 0):
                return self.fail(USES, f"{where}: {o!r} is bound to an expression, it cannot be retargeted")
            want = tgt.name
        else:
            want = o
        if r is want:
            return True
        return self.fail(USES, f"{where}: {o!r} became {r!r}, expected {want!r}")

    def binder(self, o, r, where):
        if r is o:
            return True
        return self.fail(BINDER, f"{where}: binder {o!r} changed to {r!r}")

    def e(self, o, r, B, where, ignore=()):
        if isinstance(o, LoopIR.Read) and not isinstance(o, Opaque) and o.name in B and len(o.idx) == 0:
            if r is B[o.name]:
                return True
            return self.fail(USES, f"{where}: read of {o.name!r} not replaced by the bound expression")
        return super().e(o, r, B, where, ignore)

    def schematic(self, o, r, env, where, ignore=()):
        es = self.log.of(o)
        if len(es) != 1:
            self.fail(VISIT, f"{where}: schematic child substituted {len(es)} times")
            return None
        if es[0]["env"] is not self.B:
            self.fail(USES, f"{where}: child substituted under another binding")
            return None
        if r is not es[0]["node"]:
            self.fail(FRAME_, f"{where}: result does not contain the substituted child")
            return None
        return es[0]

    def s(self, o, r, B, where, ignore=()):
        d = super().s(o, r, B, where, ignore)
        return None if d is None else {}          # the binding never grows


def _ih_subst(g, a, node, cls, what):
    if not isinstance(node, Opaque):
        raise ProgExc(AssertionError(f"recursive {what} call on a non-schematic node: {node!r}"))
    B = a.self.env
    if g.choose(["substituted", "unchanged (no bound symbol occurs inside)"], "ih." + node._pyvc_name) == "substituted":
        n = _tagged(cls, node)
        if hasattr(node, "_ev_sub"):
            object.__setattr__(n, "_pyvc_ev", node._ev_sub)
            object.__setattr__(n, "_ev_sub", node._ev_sub)
        ihlog(g).add(node, B, n)
        return n
    if hasattr(node, "_ev_sub"):
        g.assume(node._pyvc_ev == node._ev_sub)
    ihlog(g).add(node, B, node)
    return None


def ih_sub_e(g, a):
    return _ih_subst(g, a, a.e, OE_, "map_e")


def ih_sub_t(g, a):
    if not isinstance(a.t, Opaque) and not isinstance(a.t, (T.Tensor, T.Window)):
        return None
    return _ih_subst(g, a, a.t, OT_, "map_t")


def ih_sub_s(g, a):
    r = _ih_subst(g, a, a.s, OS_, "map_s")
    return None if r is None else [r]


SIH_S = dict(result=ih_sub_s, assumed=False, note="induction hypothesis: contract of SubstArgs.map_s on a child statement")
SIH_E = dict(result=ih_sub_e, assumed=False, note="induction hypothesis / proved contract of SubstArgs.map_e on a child expression")
SIH_T = dict(result=ih_sub_t, assumed=False, note="induction hypothesis / proved contract of SubstArgs.map_t on a child type")


def _not_a_name(B, n):
    return n in B and not (isinstance(B[n], LoopIR.Read) and not isinstance(B[n], Opaque) and len(B[n].idx) == 0)


# ---- SubstArgs.map_e

SEXPRS = ["Read", "Read[..]", "Const", "USub", "BinOp", "Extern", "WindowExpr", "StrideExpr", "ReadConfig"]

cse = contract("C04", FL, "SubstArgs.map_e")
cse.callee("SubstArgs.map_e", **SIH_E)
cse.callee("SubstArgs.map_t", **SIH_T)


def pick3(g, P, V, F, label="name"):
    return g.choose([("bound to the name q", P), ("bound to an index expression", V), ("not bound", F)], label)[1]


@cse.inputs
def _(g):
    from exo.libs.externs import sin
    B, P, Q, V, F = gen_binding(g)
    scope = [P, V, F]
    k = g.choose(SEXPRS, "expr")
    if k == "Read":
        e = LoopIR.Read(pick3(g, P, V, F), [], o_type(g, "ty", scope), SRC)
    elif k == "Read[..]":
        e = LoopIR.Read(pick3(g, P, V, F), o_exprs(g, "i", scope, (1, 2)), T.f32, SRC)
    elif k == "Const":
        e = LoopIR.Const(g.int("c"), T.int, SRC)
    elif k == "USub":
        e = LoopIR.USub(ix_expr(g, "arg", scope), T.index, SRC)
    elif k == "BinOp":
        op = g.choose(["+", "*", "<"], "op")
        e = LoopIR.BinOp(op, ix_expr(g, "lhs", scope), ix_expr(g, "rhs", scope), T.bool if op == "<" else T.index, SRC)
    elif k == "Extern":
        e = LoopIR.Extern(sin, o_exprs(g, "x", scope, (1, 2)), T.f32, SRC)
    elif k == "WindowExpr":
        e = LoopIR.WindowExpr(pick3(g, P, V, F), o_access(g, "w", scope, ["[pt]", "[lo:hi, pt]"]), o_type(g, "ty", scope), SRC)
    elif k == "StrideExpr":
        e = LoopIR.StrideExpr(pick3(g, P, V, F), g.choose([0, 1], "dim"), T.stride, SRC)
    else:
        e = LoopIR.ReadConfig(_cfg(), "n", T.index, SRC)
    return {"self": mk_subst(g, B), "e": e, "__ghost__": {"B": B, "B0": dict(B), "id0": Sym._unq_count}}


def _check_se(a):
    def compute():
        ck = SChk(ihlog(a.g), a.ghost.id0, a.ghost.B)
        ck.e(a.e, a.result if a.result is not None else a.e, a.ghost.B, "e")
        return ck
    return _verdict(a, compute)


SE_CLAUSE = ("a Read of a bound symbol without indices is replaced by the bound expression; an indexed Read / WindowExpr / "
             "StrideExpr on a symbol bound to a name is retargeted to that name; unbound symbols and everything else unchanged")
SD_CLAUSE = "index expressions: ev(result) under rho == ev(original) under rho[x := ev(binding[x])]"
SB_CLAUSE = "the binding is not modified"


@cse.ensures(SE_CLAUSE)
def _(a):
    return _explain(_check_se(a))


@cse.ensures(SD_CLAUSE)
def _(a):
    r = a.result if a.result is not None else a.e
    if not (evable(a.e) and evable(r)):
        return True
    return ev(r) == ev_sub(a.e, a.ghost.B)


@cse.ensures(SB_CLAUSE)
def _(a):
    return a.self.env is a.ghost.B and same_map(a.ghost.B, a.ghost.B0)


cse.raises(AssertionError, label="AssertionError only for an indexed access to a symbol that is bound to an expression, not a name",
           when=lambda a: isinstance(a.e, (LoopIR.Read, LoopIR.WindowExpr)) and len(a.e.idx) > 0 and _not_a_name(a.ghost.B, a.e.name))
cse.raises(AttributeError, label="AttributeError only for stride(x, d) of a symbol that is bound to an expression, not a name",
           when=lambda a: isinstance(a.e, LoopIR.StrideExpr) and _not_a_name(a.ghost.B, a.e.name))


# ---- SubstArgs.map_t

cst = contract("C04", FL, "SubstArgs.map_t")
cst.callee("SubstArgs.map_e", **SIH_E)
cst.callee("SubstArgs.map_t", **SIH_T)


@cst.inputs
def _(g):
    B, P, Q, V, F = gen_binding(g)
    scope = [P, V, F]
    k = g.choose(TYPES, "type")
    if k == "scalar":
        t = g.choose([T.f32, T.index, T.bool], "scalar")
    elif k == "Tensor":
        base, isw = g.choose([(T.f32, False), (T.i8, True)], "base / is_window")
        t = T.Tensor(o_exprs(g, "hi", scope, (1, 2)), isw, base)
    else:
        t = T.Window(o_type(g, "src", scope), o_type(g, "as", scope), pick3(g, P, V, F, "src_buf"),
                     o_access(g, "w", scope, ["[pt]", "[lo:hi, pt]"]))
    return {"self": mk_subst(g, B), "t": t, "__ghost__": {"B": B, "B0": dict(B), "id0": Sym._unq_count}}


def _check_st(a):
    def compute():
        ck = SChk(ihlog(a.g), a.ghost.id0, a.ghost.B)
        ck.t(a.t, a.result if a.result is not None else a.t, a.ghost.B, "t")
        return ck
    return _verdict(a, compute)


@cst.ensures("extents and window coordinates are substituted; the source buffer of a window type bound to a name is retargeted; "
             "everything else unchanged")
def _(a):
    return _explain(_check_st(a))


@cst.ensures(SB_CLAUSE)
def _(a):
    return a.self.env is a.ghost.B and same_map(a.ghost.B, a.ghost.B0)


cst.raises(AttributeError, label="AttributeError only for a window type over a symbol that is bound to an expression, not a name",
           when=lambda a: isinstance(a.t, T.Window) and _not_a_name(a.ghost.B, a.t.src_buf))


# ---- SubstArgs.map_s

css = contract("C04", FL, "SubstArgs.map_s")
css.callee("SubstArgs.map_s", **SIH_S)
css.callee("SubstArgs.map_e", **SIH_E)
css.callee("SubstArgs.map_t", **SIH_T)


def s_block(g, name, scope, lens):
    n = g.choose(list(lens), name + ".len")
    return [o_stmt(g, f"{name}{i}", scope, may_bind=False)[0] for i in range(n)]


@css.inputs
def _(g):
    B, P, Q, V, F = gen_binding(g)
    scope = [P, V, F]
    k = g.choose(STMTS, "stmt")
    if k in ("Assign", "Reduce"):
        cls = LoopIR.Assign if k == "Assign" else LoopIR.Reduce
        s = cls(pick3(g, P, V, F), T.f32, o_exprs(g, "i", scope, (0, 2)), o_expr(g, "rhs", scope), SRC)
    elif k == "WriteConfig":
        s = LoopIR.WriteConfig(_cfg(), "f", o_expr(g, "rhs", scope), SRC)
    elif k == "Pass":
        s = LoopIR.Pass(SRC)
    elif k == "If":
        nb, ne = g.choose([(1, 0), (1, 1), (2, 2)], "len(body), len(orelse)")
        s = LoopIR.If(o_expr(g, "cond", scope), s_block(g, "b", scope, (nb,)), s_block(g, "e", scope, (ne,)), SRC)
    elif k == "For":
        it = Sym("it")
        s = LoopIR.For(it, o_expr(g, "lo", scope), o_expr(g, "hi", scope), s_block(g, "b", scope + [it], (1, 2)),
                       LoopIR.Seq(), SRC)
    elif k == "Alloc":
        s = LoopIR.Alloc(Sym("buf"), o_type(g, "ty", scope), DRAM, SRC)
    elif k == "Free":
        s = LoopIR.Free(F, o_type(g, "ty", scope), DRAM, SRC)
    elif k == "Call":
        s = LoopIR.Call(_CALLEE, o_exprs(g, "a", scope), SRC)
    else:
        s = LoopIR.WindowStmt(Sym("win"), o_expr(g, "rhs", scope), SRC)
    return {"self": mk_subst(g, B), "s": s, "__ghost__": {"B": B, "B0": dict(B), "id0": Sym._unq_count}}


def _check_ss(a):
    def compute():
        ck = SChk(ihlog(a.g), a.ghost.id0, a.ghost.B)
        res = a.result if a.result is not None else [a.s]
        if not isinstance(res, list) or len(res) != 1:
            ck.fail(FRAME_, "map_s must return None or a one-element list")
            return ck
        ck.s(a.s, res[0], a.ghost.B, "s")
        return ck
    return _verdict(a, compute)


@css.ensures("an Assign / Reduce to a symbol bound to a name is retargeted to that name; every child is substituted; binders "
             "(For.iter, Alloc.name, WindowStmt.name) and everything else unchanged")
def _(a):
    return _explain(_check_ss(a))


@css.ensures(SB_CLAUSE)
def _(a):
    return a.self.env is a.ghost.B and same_map(a.ghost.B, a.ghost.B0)


css.raises(AssertionError, label="AssertionError only for an Assign / Reduce to a symbol that is bound to an expression, not a name",
           when=lambda a: isinstance(a.s, (LoopIR.Assign, LoopIR.Reduce)) and _not_a_name(a.ghost.B, a.s.name))
css.raises(NotImplementedError, label="NotImplementedError only for Free (inserted by the backend after scheduling)",
           when=lambda a: isinstance(a.s, LoopIR.Free))


# ---- SubstArgs.__init__

csi = contract("C04", FL, "SubstArgs.__init__")
csi.callee("SubstArgs.map_s", **SIH_S)
csi.callee("SubstArgs.map_e", **SIH_E)
csi.callee("SubstArgs.map_t", **SIH_T)


@csi.inputs
def _(g):
    B, P, Q, V, F = gen_binding(g)
    scope = [P, V, F]
    bk = g.choose(["names and index expressions", "a window expression is bound", "empty"], "binding")
    if bk == "a window expression is bound":
        wt, acc = c_wtype(Q, [Q, F])
        B[Sym("w")] = LoopIR.WindowExpr(Q, acc, wt, SRC2)
    elif bk == "empty":
        B.clear()
    if g.choose(["statement block", "expression list"], "nodes") == "statement block":
        nodes = s_block(g, "s", scope, (1, 2))
    else:
        nodes = o_exprs(g, "e", scope, (1, 2))
    return {"self": object.__new__(_SA()), "nodes": nodes, "binding": B,
            "__ghost__": {"B": B, "B0": dict(B), "id0": Sym._unq_count, "bk": bk}}


@csi.ensures("result() is the list of nodes, each substituted under the given binding, in order")
def _(a):
    def compute():
        ck = SChk(ihlog(a.g), a.ghost.id0, a.ghost.B)
        if isinstance(a.nodes[0], LoopIR.stmt):
            ck.block(a.nodes, a.self.nodes, a.ghost.B, "nodes")
        else:
            ck.exprs(a.nodes, a.self.nodes, a.ghost.B, "nodes")
        return ck
    return _explain(_verdict(a, compute))


@csi.ensures(SB_CLAUSE)
def _(a):
    return a.self.env is a.ghost.B and same_map(a.ghost.B, a.ghost.B0)


@csi.ensures("a binding to a window expression is rejected: SubstArgs never has to compose windows")
def _(a):
    return a.ghost.bk != "a window expression is bound"


csi.raises(AssertionError, label="AssertionError only when a window expression is bound (windows are never composed by substitution)",
           when=lambda a: a.ghost.bk == "a window expression is bound")


# ============================================================================
# (3) the callers' protocol: every duplicated statement list goes through Alpha_Rename
# ============================================================================
# The scan (contracts/alpha_scan.py) lists every place of LoopIR_scheduling.py where statements of the input tree
# (or of a callee) flow into the result, with the information whether they passed through Alpha_Rename(..).result().
# Classification of the flows that are NOT renamed was made by reading each site; it is pinned to the flow signature
# (sink text + origins), so a changed flow is reported (undecided) instead of silently inheriting the old verdict.
#   copy     the statements stay where they were AND are inserted again: every origin must be renamed     (obligation)
#   move     the statements leave their old place (the cursor's own node is replaced / a rewriter returns the
#            updated node in place of the original): not a copy
#   leaf     Assign / Reduce / expression node: contains no binder
#   header   a For / If header rebuilt around MOVED statements; the original header stays around the other half:
#            For.iter then has two declarations in disjoint sibling scopes - each use still has exactly one
#            declaration in scope (accepted, DESIGN section 3 C04), binder uniqueness is lost (listed)
#   sibling  a block copied into both branches of one If WITHOUT renaming (DoLiftScope): accepted as above, listed
#            as a deviation from "whenever we copy code we alpha-rename"
#   renamed-move   renamed although only moved (harmless)

REVIEWED = [
    # unit, kind, sink text (prefix), class, reason, scenarios
    ("Cursor_Rewrite.map_s", "return", "[s.update(", "move", "generic traversal: the updated statement replaces the original"),
    ("DoCutLoop", "_insert", "[loop2]", "copy", "second loop of cut_loop: the loop (iterator and body) exists twice"),
    ("DoMergeWrites", "_replace", "[s1.update(rhs=", "leaf", "Assign / Reduce, no binder; both originals are removed"),
    ("DoSplitWrite", "_replace", "[s0, s1]", "leaf", "Assign / Reduce, no binder"),
    ("DoDivideLoop", "_insert", "[cut_s]", "copy", "tail loop of divide_loop(tail='cut' | 'cut_and_guard'): the body exists twice"),
    ("DoUnroll", "_replace", "unrolled", "copy", "one copy of the body per iteration, all in ONE block"),
    ("DoInline", "_replace", "new_body", "copy", "the callee's body stays in the callee and may be inlined again into the same block"),
    ("DoLeftReassociateExpr", "_replace", "c._node", "leaf", "expression node"),
    ("DoLiftScope", "_replace", "blk_c", "sibling", "else block of the outer If copied under both branches of the lifted If"),
    ("DoLiftScope", "_replace", "blk_a", "sibling", "then block of the outer If copied under both branches of the lifted If"),
    ("DoLiftScope", "_wrap", "loop_wrapper:", "header", "for OUTER: if INNER: A else: B  ->  if INNER: for OUTER: A  else: for OUTER: B"),
    ("DoLiftConstant", "_insert", "[new_assign]", "leaf", "Assign, no binder"),
    ("DoSinkAlloc", "_insert", "else_alloc", "copy", "the allocation is declared in both branches (F20 concerns the USES in the else branch)"),
    ("DoLiftAlloc.map_s", "return", "stmts", "move", "traversal result; the lifted Alloc is erased at its old place"),
    ("DoLiftAlloc.map_s", "return", "s.update(idx=idx, rhs=rhs)", "leaf", "Assign / Reduce"),
    ("DoFissionAfterSimple", "_wrap", "wrapper: par_s.update(body=body", "header", "for i: A; B  ->  for i: A   for i: B  (bodies are moved)"),
    ("DoFissionLoops.map_stmts", "return", "(pre_stmts, post_stmts)", "move", "the two halves of a block, each statement in exactly one of them"),
    ("DoFissionLoops.map_s", "return", "([s], [])", "move", "the fission point itself"),
    ("DoFissionLoops.map_s", "return", "([pre], [post])", "header", "If header around each half"),
    ("DoFissionLoops.map_s", "return", "(pre, post)", "header", "For header around each half; the first one is alpha-renamed"),
    ("DoFissionLoops.map_s", "return", "([], [single_stmt])", "move", "statement after the fission point"),
    ("DoFissionLoops.map_s", "return", "([single_stmt], [])", "move", "statement before the fission point"),
    ("DoAddUnsafeGuard.map_s", "return", "[LoopIR.If(self.cond, s1, [], s.srcinfo)]", "renamed-move", "the guarded statement replaces the original"),
    ("DoSpecialize", "_replace", "else_br", "copy", "one copy of the block per condition plus the final else"),
    ("DoFuseIf", "_replace", "orelse1 + orelse2", "move", "the second If is deleted afterwards"),
]

# flow signatures of the reviewed sites on the pinned tree (filled by `scan_sites` comparing with `_SIGNATURES`)
_SIGNATURES = {
    "Cursor_Rewrite.map_s|return|[s.update(": ["old:sc._node", "old:stmts"],
    "Cursor_Rewrite.map_s|return|[s.update(|body": ["old:s.body", "old:sc._node", "old:stmts"],
    "Cursor_Rewrite.map_s|return|[s.update(|body+orelse": ["old:s.body", "old:s.orelse", "old:sc._node", "old:stmts"],
    "DoMergeWrites|_replace|[s1.update(rhs=": ["old:c1._node", "old:c2._node"],
    "DoSplitWrite|_replace|[s0, s1]": ["old:sc._node"],
    "DoLeftReassociateExpr|_replace|c._node": ["old:c._node"],
    "DoLiftScope|_replace|blk_c": ["old:outer_s.orelse"],
    "DoLiftScope|_replace|blk_a": ["old:outer_s.body"],
    "DoLiftScope|_wrap|loop_wrapper:": ["old:outer_c._node"],
    "DoLiftConstant|_insert|[new_assign]": ["old:assign_c._node"],
    "DoLiftAlloc.map_s|return|stmts": ["old:sc._node"],
    "DoLiftAlloc.map_s|return|s.update(idx=idx, rhs=rhs)": ["old:sc._node"],
    "DoFissionAfterSimple|_wrap|wrapper: par_s.update(body=body": ["old:par_c._node"],
    "DoFissionLoops.map_stmts|return|(pre_stmts, post_stmts)":
        ["old:s", "old:s.body", "old:s.body|renamed", "old:s.orelse", "old:s.orelse|renamed", "old:s|renamed", "old:stmts", "old:stmts|renamed"],
    "DoFissionLoops.map_s|return|([s], [])": ["old:s"],
    "DoFissionLoops.map_s|return|*":
        ["old:s", "old:s.body", "old:s.body|renamed", "old:s.orelse", "old:s.orelse|renamed", "old:s|renamed", "old:stmts", "old:stmts|renamed"],
    "DoFuseIf|_replace|orelse1 + orelse2": ["old:if1.orelse", "old:if2.orelse"],
}


def _review_of(site):
    for r in REVIEWED:
        if r[0] == site.unit and r[1] == site.kind and site.sink.startswith(r[2]):
            return r
    return None


def _expected_signature(site, r):
    base = f"{r[0]}|{r[1]}|{r[2]}"
    if r[0] == "Cursor_Rewrite.map_s":
        if "orelse=" in site.sink:
            return _SIGNATURES[base + "|body+orelse"]
        if "body=" in site.sink:
            return _SIGNATURES[base + "|body"]
    if base in _SIGNATURES:
        return _SIGNATURES[base]
    return _SIGNATURES.get(f"{r[0]}|{r[1]}|*")


REPLAY_SITE = """#!/venv/bin/python
\"\"\"Replay of a duplication site of LoopIR_scheduling.py that no longer alpha-renames its copy (C04/C01):
the public scheduling operation that reaches the site is run natively on a small procedure and the result is
checked by the scoping oracle (every use in the scope of exactly one declaration, no symbol declared twice).
exit 1 = the real code produces an ill-scoped procedure.\"\"\"
import sys
sys.path.insert(0, {verif!r})
from pyvc.run import ensure_repo_on_path
ensure_repo_on_path()
from contracts import alpha_scenarios as A
print("site      : {site}")
print("flow      : {flow}")
bad = 0
for name, ok, text, probs in A.run({unit!r}):
    print("scenario  :", name, "->", "well scoped" if ok else ("could not run: " + text if ok is None else "ILL SCOPED"))
    if ok is False:
        print(text)
        for p in probs:
            print("    ", p)
        bad += 1
sys.exit(1 if bad else 0)
"""


def scan_sites(tier="quick", seed=0):
    """ENGINE: one obligation per site where existing statements flow into the result of a rewrite."""
    from pyvc.run import repo_root
    from contracts import alpha_scan
    t0 = time.time()
    verif = os.path.dirname(os.path.dirname(os.path.abspath(__file__)))
    path = os.path.join(repo_root(), FS)
    sites = alpha_scan.scan(open(path).read())
    clauses, viol, undec, samples, listing = {}, [], [], [], []
    seen_copy = set()
    dis = 0
    for st in sites:
        oid = (f"{FS}::{st.id} :: {st.kind}({st.sink[:48]}): existing statements that enter the result are an alpha-renamed "
               f"copy, or moved, binder-free, or copied into a disjoint sibling scope")
        sig = st.signature()
        flow = f"{st.kind}({st.sink[:60]}) <- " + ", ".join(sig)
        all_renamed = all(o.renamed for o in st.origins)
        r = _review_of(st)
        cls = r[3] if r else None
        if cls == "copy":
            seen_copy.add(r[:3])
        if all_renamed:
            verdict = "copy, alpha-renamed" if cls != "renamed-move" else "moved and alpha-renamed (renaming not required)"
            ok = True
        elif cls == "copy":
            verdict, ok = "COPY NOT RENAMED: " + r[4], False
        elif r is None:
            verdict, ok = "unreviewed flow of existing statements into the result", None
        elif cls == "renamed-move":
            verdict, ok = "moved (no longer renamed; not required): " + r[4], True
        elif _expected_signature(st, r) is not None and sorted(_expected_signature(st, r)) != sig:
            verdict, ok = f"flow changed since it was reviewed as '{cls}' (expected {_expected_signature(st, r)})", None
        else:
            verdict, ok = f"{cls}: {r[4]}", True
        listing.append(f"{st.id} (line {st.line}): {flow}  =>  {verdict}")
        if ok is True:
            clauses[oid] = "discharged"
            dis += 1
        elif ok is None:
            clauses[oid] = "unknown"
            undec.append(f"{FS}::{st.id}: {verdict}; flow: {flow}")
        else:
            clauses[oid] = "refuted"
            from contracts import alpha_scenarios
            runs = alpha_scenarios.run(st.unit)
            confirmed = any(k is False for _, k, _, _ in runs)
            viol.append(dict(obligation=oid, confirmed=confirmed,
                             replay_script=REPLAY_SITE.format(verif=verif, site=st.id + f" (line {st.line})", flow=flow, unit=st.unit)))
    for r in REVIEWED:
        if r[3] == "copy" and r[:3] not in seen_copy:
            undec.append(f"{FS}::{r[0]}: the reviewed duplication site {r[1]}({r[2]}) was not found by the scan (code restructured: review)")
    n = len(sites)
    return dict(obligations=n, discharged=dis, functions=[f"{FS}::{l}" for l in listing],
                assumptions=[], samples=listing, violations=viol, undecided=undec, solver_time_s=0.0,
                wall_s=round(time.time() - t0, 2), bounded=[], clauses=clauses, sites=listing)


# ============================================================================
# (4) bounded cross-check of the composition: whole concrete blocks through the real class
# ============================================================================

def _alphabet():
    """statement builders over a fixed set of symbols; `i` is used as a loop iterator AND as a free variable after
    the loop, `a` before and after its declaration: free occurrences must survive the renaming of the binders"""
    n, x, a, w, i, t = (Sym(k) for k in ["n", "x", "a", "w", "i", "t"])
    ten = lambda: T.Tensor([rd(n)], False, T.f32)
    one = LoopIR.Const(1.0, T.f32, SRC2)

    def win(dst, src):
        acc = [LoopIR.Interval(c_int(0), rd(n), SRC2)]
        return LoopIR.WindowStmt(dst, LoopIR.WindowExpr(src, acc, T.Window(ten(), T.Tensor([rd(n)], True, T.f32), src, acc), SRC2), SRC2)

    A = {
        "a : f32[n]": lambda: LoopIR.Alloc(a, ten(), DRAM, SRC2),
        "a[i] = x[i]": lambda: LoopIR.Assign(a, T.f32, [rd(i)], rd(x, [rd(i)]), SRC2),
        "for i: a[i] += x[i]": lambda: LoopIR.For(i, c_int(0), rd(n), [LoopIR.Reduce(a, T.f32, [rd(i)], rd(x, [rd(i)]), SRC2)],
                                                   LoopIR.Seq(), SRC2),
        "for i in (0, i): t : f32[i]; t[i] = 1": lambda: LoopIR.For(i, c_int(0), rd(i), [
            LoopIR.Alloc(t, T.Tensor([rd(i)], False, T.f32), DRAM, SRC2), LoopIR.Assign(t, T.f32, [rd(i)], one, SRC2)],
            LoopIR.Seq(), SRC2),
        "w = a[0:n]": lambda: win(w, a),
        "x[i] = w[i]": lambda: LoopIR.Assign(x, T.f32, [rd(i)], rd(w, [rd(i)]), SRC2),
        # (precondition U: the symbol declared in the then-branch does not occur in the else-branch)
        "if i < n: t = x[0:n]; t[0] = 1 else: x[0] = stride(a, 0)": lambda: LoopIR.If(
            LoopIR.BinOp("<", rd(i), rd(n), T.bool, SRC2), [win(t, x), LoopIR.Assign(t, T.f32, [c_int(0)], one, SRC2)],
            [LoopIR.Assign(x, T.f32, [c_int(0)], LoopIR.StrideExpr(a, 0, T.stride, SRC2), SRC2)], SRC2),
        "callee(a, w, i)": lambda: LoopIR.Call(_CALLEE, [rd(a, [], ten()), rd(w, [], ten()), rd(i)], SRC2),
    }
    if not U_PRECONDITION:
        # the then-branch declares w, the else-branch uses a FREE w: it must stay unchanged
        A["if i < n: w = x[0:n]; w[0] = 1 else: x[0] = stride(w, 0)"] = lambda: LoopIR.If(
            LoopIR.BinOp("<", rd(i), rd(n), T.bool, SRC2), [win(w, x), LoopIR.Assign(w, T.f32, [c_int(0)], one, SRC2)],
            [LoopIR.Assign(x, T.f32, [c_int(0)], LoopIR.StrideExpr(w, 0, T.stride, SRC2), SRC2)], SRC2)
    return A, dict(n=n, x=x, a=a, w=w, i=i, t=t)


def _declares(kind):
    return {"a : f32[n]": ["a"], "w = a[0:n]": ["w"]}.get(kind, [])


def check_block_case(kinds, wrap):
    """build the block, run the real Alpha_Rename natively, compare with the oracle; -> (ok, messages, text)"""
    A, syms = _alphabet()
    block = [A[k]() for k in kinds]
    if wrap == "for":
        block = [LoopIR.For(Sym("k"), c_int(0), rd(syms["n"]), block, LoopIR.Seq(), SRC2)]
    elif wrap == "if":
        block = [LoopIR.If(LoopIR.BinOp("<", rd(syms["n"]), c_int(4), T.bool, SRC2), [LoopIR.Pass(SRC2)], block, SRC2)]
    id0 = Sym._unq_count
    res = _AR()(block).result()
    ck = Chk(Log(), id0)
    ck.block(block, res, {}, "block")
    text = "\n".join(str(s_) for s_ in res)
    return ck.ok(), list(ck.bad.values()), text


REPLAY_BLOCKS = """#!/venv/bin/python
\"\"\"Replay of a bounded counterexample for Alpha_Rename (C04/C01): the block is rebuilt from real LoopIR nodes, the
real Alpha_Rename(block).result() runs natively and is compared with the renaming oracle.
exit 1 = the real code violates the clause.\"\"\"
import sys
sys.path.insert(0, {verif!r})
from pyvc.run import ensure_repo_on_path
ensure_repo_on_path()
from contracts.c04_alpha import check_block_case
kinds, wrap = {kinds!r}, {wrap!r}
try:
    ok, msgs, text = check_block_case(kinds, wrap)
except Exception as e:
    ok, msgs, text = False, [type(e).__name__ + ": " + str(e)], ""
print("block    :", kinds, "inside", wrap or "the top level")
print("result   :")
print(text)
for m in msgs:
    print("oracle   :", m)
sys.exit(0 if ok else 1)
"""


def run_blocks(tier="quick", seed=0):
    """ENGINE (bounded stand-in, labelled so): every block of up to 3 (thorough: 4) statements over the alphabet,
    at top level / as a loop body / as an else branch, through the real Alpha_Rename and the oracle `Chk`."""
    import itertools
    t0 = time.time()
    verif = os.path.dirname(os.path.dirname(os.path.abspath(__file__)))
    A, _ = _alphabet()
    kinds = list(A)
    n = 4 if tier == "thorough" else 3
    tgt = FL + "::Alpha_Rename [bounded blocks]"
    clause = f"{tgt} :: Alpha_Rename(block).result() is the block renamed (oracle Chk), free occurrences unchanged"
    first, cases = None, 0
    for ln in range(1, n + 1):
        for ks in itertools.product(kinds, repeat=ln):
            dec = [d for k in ks for d in _declares(k)]
            if len(dec) != len(set(dec)):
                continue                    # the same symbol allocated twice in one block: rejected by an assertion
            for wrap in (None, "for", "if"):
                cases += 1
                try:
                    ok, msgs, _ = check_block_case(list(ks), wrap)
                except Exception as e:
                    ok, msgs = False, [f"{type(e).__name__}: {e}"]
                if not ok and first is None:
                    first = (list(ks), wrap, msgs)
    viol = []
    if first is not None:
        viol.append(dict(obligation=clause, confirmed=True,
                         replay_script=REPLAY_BLOCKS.format(verif=verif, kinds=first[0], wrap=first[1])))
    return dict(obligations=0, discharged=0, functions=[tgt], assumptions=[], samples=[], violations=viol, undecided=[],
                solver_time_s=0.0, wall_s=round(time.time() - t0, 2),
                bounded=[dict(target=tgt, cases=cases,
                              bound=f"all blocks of 1..{n} statements over {len(kinds)} statement kinds (allocation, window "
                                    f"alias, loops that re-use the symbol of a free variable, uses before and after the "
                                    f"declaration, If with a window in one branch, call), at top level / loop body / else branch")],
                clauses={clause: ("refuted" if first else "bounded-pass")})


ENGINES = ["contracts.c04_alpha:scan_sites", "contracts.c04_alpha:run_blocks"]

ASSUMPTIONS = [
    "C04/C01 Alpha_Rename, SubstArgs: structural induction - one shape per statement / expression / type constructor with "
    "SCHEMATIC children; recursive map_s / map_e / map_t calls are the induction hypothesis (depth and content of the "
    "children unbounded).  Bounded: list lengths 0..2 (blocks, indices, call arguments, extents, window dimensions), the "
    "environment shapes of the node under proof (empty / one frame / two frames), procedures with <= 2 arguments",
    "C04/C01 Alpha_Rename(proc): an argument is bound before its own type is renamed; this renames like 'the scope of an "
    "argument is the LATER argument types, the assertions and the body' because an argument's name does not occur in its "
    "own type (front end: a type may mention earlier arguments only)",
    "C04/C01 Alpha_Rename: an Alloc whose symbol is already renamed in an enclosing scope of the copy is rejected by an "
    "assertion (allowed exit); For / WindowStmt binders may shadow (the inner binding wins, the outer one is restored)",
    "C04/C01 SubstArgs does not look at binders: SubstArgs(block, B) is capture-free only if (S1) no key of B is declared "
    "inside block and (S2) no symbol of a bound expression is declared inside block.  Callers: DoDivideLoop substitutes into "
    "an Alpha_Rename'd copy (all binders fresh: S1, S2 hold); DoUnroll binds the loop's own iterator to a constant (S2 "
    "trivial, S1 = the iterator is not re-declared in its own body: no shadowing in well-formed procedures); DoInline binds "
    "the callee's formals to caller expressions BEFORE renaming the callee body (S1 = a formal is not re-declared in the "
    "callee's body; S2 = symbols of the caller are never "
    "declared inside the callee: procedures do not share symbols - not proved here); DoFuseLoop and new_eff use the result "
    "for analysis only",
    "C04/C01 SubstArgs does not compose windows: a binding to a WindowExpr is rejected by an assertion; DoInline first binds "
    "the formal to an alias (WindowStmt formal = actual window; Read(formal)) so that accesses go through the alias and the "
    "composition is done where window types are built (create_window_type / the compiler), outside these contracts",
    "C04/C01 statement-flow scan: syntactic and flow-insensitive per top-level function / class of LoopIR_scheduling.py; "
    "sinks are _insert, _replace, wrappers given to _wrap and the returns of map_s / map_stmts of class-based rewriters; the "
    "classification of flows that are not alpha-renamed (move / leaf / header / sibling) was made by reading each site and "
    "is pinned to the flow signature; header and sibling copies (DoFissionAfterSimple, DoLiftScope, DoFissionLoops) leave "
    "the same symbol declared in two disjoint sibling scopes - every use still has exactly one declaration in scope",
]
