#!/venv/bin/python
"""C07 replay scenarios: each runs one scheduling call (successful or failing) on
small procedures and compares a structural fingerprint of every *source*
procedure before and after.  exit 1 = some existing procedure changed."""
from __future__ import annotations
import os, sys
sys.path.insert(0, os.path.join(os.environ.get("VERIF_REPO", "/repo"), "src"))
from exo import proc, DRAM
from exo.stdlib.scheduling import *
from exo.API import Procedure


def fingerprint(p):
    """str() plus a deep structural hash of the LoopIR tree including the identity
    of every node and of every list (so replacing a list by an equal copy, or
    editing it in place, both show up)."""
    seen = []

    def rec(v):
        if isinstance(v, list):
            return ("L", id(v), tuple(rec(x) for x in v))
        if isinstance(v, tuple):
            return ("T", tuple(rec(x) for x in v))
        if hasattr(v, "__attrs_attrs__"):
            return (type(v).__name__, id(v), tuple((a.name, rec(getattr(v, a.name))) for a in v.__attrs_attrs__
                                                   if a.name != "srcinfo"))
        if isinstance(v, (int, str, float, bool, type(None))):
            return v
        return (type(v).__name__, id(v), repr(v) if type(v).__name__ == "Sym" else "")
    return (str(p), hash(rec(p._loopir_proc)), id(p._loopir_proc))


def make():
    @proc
    def foo(y: f32[8]):
        x: f32[4, 2]
        for i in seq(0, 4):
            for j in seq(0, 2):
                x[i, j] = 1.0
        for i in seq(0, 4):
            for j in seq(0, 2):
                y[2 * i + j] = x[i, j]


    @proc
    def bar(n: size, A: f32[n, 8], B: f32[n, 8]):
        assert n > 2
        for i in seq(0, n):
            t: f32[8]
            for j in seq(0, 8):
                t[j] = A[i, j] * 2.0
            for j in seq(0, 8):
                B[i, j] = t[j] + A[i, j] * 2.0


    @proc
    def callee(w: [f32][4], v: f32[4]):
        for k in seq(0, 4):
            w[k] = v[k]


    @proc
    def win(x: f32[8, 4], v: f32[4]):
        w = x[2, 0:4]
        w[1] = 3.0
        callee(w, v)
        for k in seq(0, 4):
            v[k] = w[k]


    @proc
    def buf3(y: f32[6]):
        b: f32[3, 2]
        for i in seq(0, 2):
            b[0, i] = 1.0
            b[1, i] = 2.0
            b[2, i] = b[0, i] + b[1, i]
        for i in seq(0, 2):
            y[i] = b[0, i]
            y[2 + i] = b[1, i]
            y[4 + i] = b[2, i]


    @proc
    def slide(y: f32[12]):
        s: f32[12]
        for i in seq(0, 12):
            s[i] = 1.0
            y[i] = s[i]

    @proc
    def two(y: f32[8], z: f32[8]):
        for i in seq(0, 8):
            y[i] = 1.0
            z[i] = 2.0

    @proc
    def sink(y: f32[8]):
        for i in seq(0, 8):
            t: f32
            if i < 4:
                t = 1.0
                y[i] = t

    return dict(foo=foo, bar=bar, callee=callee, win=win, buf3=buf3, slide=slide, two=two, sink=sink)


SCENARIOS = {
    "mult_dim": ("foo", lambda P, p: mult_dim(p, "x", 0, 1)),
    "divide_dim": ("slide", lambda P, p: divide_dim(p, "s", 0, 4)),
    "expand_dim": ("bar", lambda P, p: expand_dim(p, "t", "n", "i")),
    "rearrange_dim": ("foo", lambda P, p: rearrange_dim(p, "x", [1, 0])),
    "resize_dim": ("slide", lambda P, p: resize_dim(p, "s", 0, 14, -1)),
    "fold_buffer": ("slide", lambda P, p: resize_dim(p, "s", 0, 2, 0, fold=True)),
    "unroll_buffer": ("buf3", lambda P, p: unroll_buffer(p, "b", 0)),
    "inline_window": ("win", lambda P, p: inline_window(p, "w = _")),
    "stage_mem": ("bar", lambda P, p: stage_mem(p, "for j in _:_ #1", "A[i, 0:8]", "a_tile")),
    "bind_expr": ("bar", lambda P, p: bind_expr(p, p.find("A[i, j] * 2.0", many=True), "twice")),
    "lift_alloc": ("bar", lambda P, p: lift_alloc(p, "t", 1)),
    "autolift_alloc": ("bar", lambda P, p: autolift_alloc(p, "t", 1, keep_dims=True)),
    "sink_alloc": ("sink", lambda P, p: sink_alloc(p, "t")),
    "divide_loop": ("bar", lambda P, p: divide_loop(p, "j", 4, ["jo", "ji"], perfect=True)),
    "reorder_loops": ("foo", lambda P, p: reorder_loops(p, "i j")),
    "fission": ("two", lambda P, p: fission(p, p.find("y[_] = _").after(), n_lifts=1)),
    "autofission": ("two", lambda P, p: autofission(p, p.find("y[_] = _").after(), n_lifts=1)),
    "fuse": ("bar", lambda P, p: fuse(p, "for j in _:_ #0", "for j in _:_ #1", unsafe_disable_check=True)),
    "unroll_loop": ("foo", lambda P, p: unroll_loop(p, "j")),
    "simplify": ("foo", lambda P, p: simplify(p)),
    "inline": ("win", lambda P, p: inline(p, "callee(_)")),
    "call_eqv": ("win", lambda P, p: call_eqv(p, "callee(_)", rename(P["callee"], "callee2"))),
    "extract_subproc": ("bar", lambda P, p: extract_subproc(p, "for j in _:_ #0", "sub")),
    "set_memory": ("bar", lambda P, p: set_memory(p, "t", DRAM)),
    "set_precision": ("bar", lambda P, p: set_precision(p, "t", "f64")),
    "reuse_delete": ("buf3", lambda P, p: delete_pass(p)),
    "lift_scope": ("foo", lambda P, p: cut_loop(p, "i", 2)),
    "shift_loop": ("foo", lambda P, p: shift_loop(p, "i", 1)),
    "add_loop": ("slide", lambda P, p: add_loop(p, "s[_] = _", "k", 2, guard=True)),
    "rewrite_expr": ("foo", lambda P, p: rewrite_expr(p, "2 * i + j", "j + 2 * i")),
    "insert_pass": ("foo", lambda P, p: insert_pass(p, p.find_loop("i").before())),
    "replace": ("win", lambda P, p: replace(p, "for k in _:_", P["callee"])),
    "partial_eval": ("bar", lambda P, p: p.partial_eval(n=4)),
    "cursor_forward": ("bar", lambda P, p: divide_loop(p, "j", 2, ["a", "b"], perfect=True).forward(p.find_loop("j"))),
    "failing_op": ("bar", lambda P, p: reorder_loops(p, "i j")),
}


def main(only=None):
    bad = []
    P = None
    for name, (src, op) in SCENARIOS.items():
        if only and name not in only:
            continue
        if P is None:
            P = make()
        procs = list(P.values())
        before = [fingerprint(q) for q in procs]
        try:
            op(P, P[src])
            note = "ok"
        except Exception as e:   # failing calls are part of the property
            note = f"{type(e).__name__}: {str(e).splitlines()[0][:60] if str(e) else ''}"
        after = [fingerprint(q) for q in procs]
        for q, b, a in zip(procs, before, after):
            if a != b:
                P = None   # rebuild the sources for the next scenario
                what = "printed text changed" if a[0] != b[0] else "tree identity/structure changed"
                bad.append((name, q.name(), what))
                print(f"SOURCE-CHANGED scenario={name} procedure={q.name()}: {what}")
                if a[0] != b[0]:
                    print("--- before\n" + b[0] + "--- after\n" + a[0])
        print(f"scenario {name:16s} {note}")
    print("verdict    :", "confirmed" if bad else "not-reproduced")
    return 1 if bad else 0


ONLY = None  # replaced by the generator: scenarios relevant to the refuted obligation

if __name__ == "__main__":
    sys.exit(main(set(sys.argv[1:]) or ONLY))
