"""C17 - the printed procedure denotes the procedure (name half).

Property sentence used: "distinct variables are never shown with the same name
in overlapping scopes".  The mechanism is `PrintEnv.get_name/push` in
src/exo/core/LoopIR_pprint.py: one PrintEnv per scope, `push()` opens a child
scope, `get_name(sym)` hands out the string printed for `sym`.

Two arguments, both on the real source:

 A. bounded, exhaustive (labelled bounded): every sequence of 4 operations out
    of {get_name(s) for 7 symbols named x, x, x, x_1, x_1, x_2, y; push; pop}
    is run through the real code; after every step, in the current scope chain,
    (a1) distinct live symbols have distinct strings,
    (a2) a live symbol keeps its string, an outer scope is not disturbed by an
         inner one,
    (a3) every string handed out is a key of `names` in the chain (the
         invariant of B, observed on the real ChainMaps).

 B. unbounded, one step of an inductive invariant.  Inv(E) for a PrintEnv E:
      I1  E.env (chain view) is injective: distinct symbols, distinct strings
      I2  every string in E.env is a key of E.names (chain view)
    PrintEnv() satisfies Inv (both maps empty).  Contract of get_name: from ANY
    state with Inv(E) - `names` is an arbitrary set of strings (uninterpreted
    sort Str, membership an uninterpreted predicate), `env` binds an arbitrary
    other symbol o - the call returns a string different from the string of
    every other live symbol and re-establishes Inv(E).  The `while candidate in
    self.names` loop is cut with invariant True (havoc candidate, num): only its
    exit condition is used, so the argument is independent of how candidates are
    formed and of how many there are.  push(): the child's view equals the
    parent's, hence Inv(child); writes to the child do not reach the parent
    (ChainMap.new_child, checked concretely in A).
    Together (induction over the calls made on a scope chain used with stack
    discipline - the printer only uses the innermost environment, read off
    _print_stmt, not proved) I1 holds at every point: that is the property.
"""
from __future__ import annotations
from collections import ChainMap
import z3
from pyvc.contract import contract
from pyvc import sym as S
from pyvc.sym import And, Or, Not, Implies, OStr, PathInfeasible
from exo.core.prelude import Sym

F = "src/exo/core/LoopIR_pprint.py"


def _PrintEnv():
    from exo.core.LoopIR_pprint import PrintEnv
    return PrintEnv


# ----------------------------------------------------------------------------
# A. bounded exhaustive sequences on the real ChainMaps

_POOL_NAMES = ["x", "x", "x", "x_1", "x_1", "x_2", "y"]
SEQ_LEN = 4


def _live(env):
    return {k: v for k, v in env.env.items()}


def run_ops(syms, ops, get, push):
    """Runs the operations; returns the observations made after each step."""
    stack = [_PrintEnv()()]
    saved = []                      # parent's live map at the matching push
    obs = []
    for op in ops:
        cur = stack[-1]
        if op[0] == "get":
            before = _live(cur)
            r = get(cur, syms[op[1]])
            obs.append(dict(op=op, sym=syms[op[1]], result=r, before=before, live=_live(cur),
                            names=set(cur.names.keys())))
        elif op[0] == "push":
            saved.append((_live(cur), set(cur.names.keys())))
            ch = push(cur)
            stack.append(ch)
            obs.append(dict(op=op, live=_live(ch), names=set(ch.names.keys()), parent_live=saved[-1][0],
                            parent_names=saved[-1][1]))
        else:
            stack.pop()
            was = saved.pop()
            cur = stack[-1]
            obs.append(dict(op=op, live=_live(cur), names=set(cur.names.keys()), parent_live=was[0],
                            parent_names=was[1]))
    return obs


def seq_clauses(obs):
    """The three observations of argument A on one run; returns the violated ones."""
    bad = []
    for o in obs:
        vals = list(o["live"].values())
        if len(set(vals)) != len(vals):
            bad.append("distinct live symbols never share a printed name")
        if o["op"][0] == "get":
            if o["live"].get(o["sym"]) != o["result"] or any(o["live"].get(k) != v for k, v in o["before"].items()):
                bad.append("a live symbol keeps its name")
        elif o["live"] != o["parent_live"] or o["names"] != o["parent_names"]:
            bad.append("an inner scope does not disturb the outer one")
        if not set(o["live"].values()) <= o["names"]:
            bad.append("every name handed out is recorded in names of the scope chain (invariant I2)")
    return sorted(set(bad))


def _all_sequences(n):
    alphabet = [("get", i) for i in range(len(_POOL_NAMES))] + [("push",), ("pop",)]

    def rec(prefix, depth):
        if len(prefix) == n:
            yield list(prefix)
            return
        for op in alphabet:
            d = depth + (1 if op[0] == "push" else -1 if op[0] == "pop" else 0)
            if d < 0:
                continue
            prefix.append(op)
            yield from rec(prefix, d)
            prefix.pop()
    yield from rec([], 0)


TERMINATES = "get_name terminates (2 s budget)"


class _Timeout(Exception):
    pass


def check_sequence(ops):
    import signal
    syms = [Sym(nm) for nm in _POOL_NAMES]

    def on_alarm(sig, frm):
        raise _Timeout()
    use_alarm = True
    try:
        old = signal.signal(signal.SIGALRM, on_alarm)
        signal.setitimer(signal.ITIMER_REAL, 2.0)
    except ValueError:              # not in the main thread: no budget
        use_alarm = False
    try:
        obs = run_ops(syms, [tuple(o) for o in ops], lambda e, s: e.get_name(s), lambda e: e.push())
        return obs, seq_clauses(obs)
    except _Timeout:
        return [], [TERMINATES]
    finally:
        if use_alarm:
            signal.setitimer(signal.ITIMER_REAL, 0)
            signal.signal(signal.SIGALRM, old)


REPLAY_SEQ = '''#!/venv/bin/python
"""Replay of a bounded-sequence counterexample for PrintEnv.get_name/push (C17).
exit 1 = the real code violates the clause on this sequence."""
import os, sys
sys.path.insert(0, {verif!r})
from pyvc.run import ensure_repo_on_path
ensure_repo_on_path()
from contracts.c17_printer import check_sequence, _POOL_NAMES
ops = {ops!r}
obs, bad = check_sequence(ops)
print("symbols  :", list(enumerate(_POOL_NAMES)))
for o in obs:
    print("  ", o["op"], "->", o.get("result"), " live:", sorted(o["live"].values()), " names:", sorted(o["names"]))
print("violated :", bad)
sys.exit(1 if {clause!r} in bad else 0)
'''


def run_sequences(tier="quick", seed=0):
    """ENGINE (bounded stand-in, DESIGN 2.6 F): exhaustive enumeration of the
    real get_name/push under CPython.  Never counted as discharged."""
    import os, time
    t0 = time.time()
    n = SEQ_LEN + (1 if tier == "thorough" else 0)
    cases, first = 0, {}
    for ops in _all_sequences(n):
        cases += 1
        _, bad = check_sequence(ops)
        for b in bad:
            first.setdefault(b, list(ops))
        if TERMINATES in bad:
            break                   # every further case would cost the full budget
    verif = os.path.dirname(os.path.dirname(os.path.abspath(__file__)))
    tgt = F + "::PrintEnv.get_name+push [bounded sequences]"
    clauses = ["distinct live symbols never share a printed name", "a live symbol keeps its name",
               "an inner scope does not disturb the outer one",
               "every name handed out is recorded in names of the scope chain (invariant I2)", TERMINATES]
    viol = [dict(obligation=f"{tgt} :: {b}", confirmed=True,
                 replay_script=REPLAY_SEQ.format(verif=verif, ops=ops, clause=b))
            for b, ops in sorted(first.items())]
    return dict(obligations=0, discharged=0, functions=[tgt], assumptions=[], samples=[],
                violations=viol, undecided=[],
                bounded=[dict(target=tgt, cases=cases,
                              bound=f"all sequences of {n} operations over get_name on 7 symbols named "
                                    f"{_POOL_NAMES}, push, pop; clauses checked after every step")],
                clauses={f"{tgt} :: {c}": ("refuted" if c in first else "bounded-pass") for c in clauses},
                solver_time_s=0.0, wall_s=round(time.time() - t0, 2))


ENGINES = ["contracts.c17_printer:run_sequences"]
ASSUMPTIONS = [
    "C17: the printer uses PrintEnv with stack discipline (get_name is only called on the innermost live scope; "
    "read off _print_stmt/_print_block, not proved)",
    "C17: collections.ChainMap.new_child/get/__setitem__/__contains__ behave as documented (exercised concretely "
    "by the bounded sequences; modelled by GhostEnv/GhostNames in the invariant step)",
    "C17: Sym names are non-empty strings (a name handed out is truthy)",
    "C17: termination of the candidate loop in get_name is not proved (partial correctness)",
    "C17: only name injectivity is covered; expression precedence printing and the parse(print(p)) round trip are not",
]


# ----------------------------------------------------------------------------
# B. one inductive step on an arbitrary state

StrSort = z3.DeclareSort("Str")
_names0 = z3.Function("names0", StrSort, z3.BoolSort())
_cnt0 = z3.Function("cnt0", StrSort, z3.IntSort())


class StrTok:
    """A non-empty string whose text is unknown."""
    def __init__(self, t):
        self.t = t

    def __bool__(self):
        return True

    def __repr__(self):
        return f"<str {self.t}>"


def tok(x):
    """z3 term (sort Str) of a string value.  Distinct Python strings are
    distinct; a string built from symbolic parts may equal any other string."""
    ctx = S.cur()
    tab = ctx.ghost.setdefault("strtab", {"lit": {}, "opq": {}, "n": 0})
    if isinstance(x, StrTok):
        return x.t
    if isinstance(x, OStr):
        if id(x) not in tab["opq"]:
            tab["n"] += 1
            tab["opq"][id(x)] = (x, z3.Const(f"built!{tab['n']}", StrSort))
        return tab["opq"][id(x)][1]
    if isinstance(x, str):
        if x not in tab["lit"]:
            c = z3.Const(f"lit!{x}", StrSort)
            for other in tab["lit"].values():
                ctx.solver.add(c != other)
            tab["lit"][x] = c
        return tab["lit"][x]
    raise TypeError(f"not a string: {x!r}")


def fresh_tok(g, name):
    tab = g.ctx.ghost.setdefault("strtab", {"lit": {}, "opq": {}, "n": 0})
    tab["n"] += 1
    return StrTok(z3.Const(f"{name}!{tab['n']}", StrSort))


class GhostNames:
    """names : str -> int as (arbitrary initial map) + explicit updates."""
    def __init__(self, updates=()):
        self.updates = list(updates)

    def mem(self, k):
        t = tok(k)
        return S.mk(z3.Or(_names0(t), *[t == u for u, _ in self.updates]))

    def __contains__(self, k):
        return self.mem(k)          # `in` forks on it

    def get(self, k, default=None):
        t = tok(k)
        v = z3.If(_names0(t), _cnt0(t), S.lift(default))
        for u, val in self.updates:
            v = z3.If(t == u, S.lift(val), v)
        return S.mk(v)

    def __setitem__(self, k, v):
        self.updates.append((tok(k), v))

    def new_child(self):
        return GhostNames(self.updates)


class GhostEnv:
    """env : Sym -> str, restricted to the symbols the call can ask about plus
    one arbitrary other live symbol."""
    def __init__(self, b):
        self.b = dict(b)

    def get(self, k, default=None):
        return self.b.get(k, default)

    def __getitem__(self, k):
        return self.b[k]

    def __contains__(self, k):
        return any(k is x for x in self.b)

    def __setitem__(self, k, v):
        self.b[k] = v

    def new_child(self):
        return GhostEnv(self.b)


_CPOOL = ["x", "x_1", "x_2", "y", "x_3", "y_1"]


def g_state(g):
    """Arbitrary PrintEnv state satisfying Inv, a symbol nm to name, another live symbol o."""
    PE = _PrintEnv()
    bound = g.choose(["nm unbound", "nm bound"], "nm") == "nm bound"
    if g.concrete:
        nm = Sym(_CPOOL[abs(g.int("nm_name")) % 2 * 3])              # "x" or "y"
        o = Sym(_CPOOL[abs(g.int("o_name")) % len(_CPOOL)])
        s_o = _CPOOL[abs(g.int("s_o")) % len(_CPOOL)]
        mask = abs(g.int("names_mask"))
        names0 = {k for i, k in enumerate(_CPOOL) if (mask >> i) & 1} | {s_o}
        envd = {o: s_o}
        s_nm = None
        if bound:
            s_nm = next(k for k in _CPOOL + ["z"] if k != s_o)
            names0.add(s_nm)
            envd[nm] = s_nm
        cnt = 1 + abs(g.int("cnt")) % 3
        e = PE(ChainMap(envd), ChainMap({k: cnt for k in names0}))
        gh = dict(o=o, s_o=s_o, s_nm=s_nm, names0=set(names0))
    else:
        nm, o = Sym("x"), Sym("o")
        g.int("nm_name"), g.int("o_name"), g.int("s_o"), g.int("names_mask"), g.int("cnt")
        s_o = fresh_tok(g, "s_o")
        envd = {o: s_o}
        s_nm = None
        if bound:
            s_nm = fresh_tok(g, "s_nm")
            envd[nm] = s_nm
        e = PE(GhostEnv(envd), GhostNames())
        gh = dict(o=o, s_o=s_o, s_nm=s_nm, names0=None)
    return e, nm, gh


def same(a, b):
    if isinstance(a, str) and isinstance(b, str) and not isinstance(a, OStr) and not isinstance(b, OStr):
        return a == b
    return S.mk(tok(a) == tok(b))


def recorded(names, k):
    if isinstance(names, GhostNames):
        return names.mem(k)
    return k in names


def recorded0(a, k):
    if a.ghost.names0 is not None:
        return k in a.ghost.names0
    return S.mk(_names0(tok(k)))


cst = contract("C17", F, "PrintEnv.get_name", name=F + "::PrintEnv.get_name [invariant step]")
cst.loop("PrintEnv.get_name", 0, invariant=lambda env: True,
         havoc={"candidate": lambda g: fresh_tok(g, "candidate"), "num": lambda g: g.int("num")})
cst.note("loop `while candidate in self.names` cut with invariant True; termination not proved")


@cst.inputs
def _(g):
    e, nm, gh = g_state(g)
    return {"self": e, "nm": nm, "__ghost__": gh}


@cst.requires
def _(a):
    # Inv(E): I1 on the two live symbols, I2 for both
    c = [recorded0(a, a.ghost.s_o)]
    if a.ghost.s_nm is not None:
        c += [recorded0(a, a.ghost.s_nm), Not(same(a.ghost.s_nm, a.ghost.s_o))]
    return And(c)


@cst.ensures("the name returned differs from the name of every other live symbol (I1 kept)")
def _(a):
    return Not(same(a.result, a.ghost.s_o))


@cst.ensures("every name handed out is recorded in names of the scope chain (I2 kept)")
def _(a):
    return And(recorded(a.self.names, a.result), recorded(a.self.names, a.ghost.s_o))


@cst.ensures("env changes only by binding nm to the returned name")
def _(a):
    env = a.self.env
    ok = env.get(a.ghost.o) is a.ghost.s_o and env.get(a.nm) is a.result
    if isinstance(env, GhostEnv):
        return ok and set(env.b) == {a.ghost.o, a.nm}
    return ok and set(env.keys()) == {a.ghost.o, a.nm}


@cst.ensures("a symbol that already has a name keeps it")
def _(a):
    if a.ghost.s_nm is None:
        return True
    return a.result is a.ghost.s_nm


# push -----------------------------------------------------------------------

cpu = contract("C17", F, "PrintEnv.push")


def robust(fn):
    """A clause that cannot even be evaluated on the result (wrong kind of
    object in a field) is a failed clause, not a checker error."""
    def wrapped(a):
        try:
            return fn(a)
        except (AttributeError, TypeError, KeyError):
            return False
    return wrapped


@cpu.inputs
def _(g):
    e, nm, gh = g_state(g)
    return {"self": e, "__ghost__": dict(gh, nm=nm)}


@cpu.ensures("the child scope sees exactly the parent's bindings and recorded names")
@robust
def _(a):
    ch, par = a.result, a.self
    c = [ch.env.get(a.ghost.o) is a.ghost.s_o, ch.env.get(a.ghost.nm) is a.ghost.s_nm,
         ch is not par, ch.env is not par.env, ch.names is not par.names]
    if isinstance(par.names, GhostNames):
        probe = fresh_tok(a.g, "probe")
        c.append(recorded(ch.names, probe) == recorded(par.names, probe))
    else:
        c.append(set(ch.names.keys()) == set(par.names.keys()))
    return And(c)


@cpu.ensures("writes to the child scope do not reach the parent")
@robust
def _(a):
    ch, par = a.result, a.self
    z = Sym("zz")
    before = recorded(par.names, "zz_9")
    ch.env[z] = "zz_9"
    ch.names["zz_9"] = 1
    return And(par.env.get(z) is None, recorded(par.names, "zz_9") == before,
               recorded(ch.names, "zz_9"))
