"""C05 - end-to-end translation validation of `replace` (helper of contracts/c05_matcher.py; bounded stand-in).

For a family of (procedure, block, callee) pairs with CONCRETE structure the REAL public `replace` is run
natively.  When it succeeds
  (a) the procedure it returns is compared with the original, the new call being executed from the callee's body
      with its formals bound to the inferred arguments (windows are views of the caller's buffers),
  (b) the REAL `inline` is run on the new call and the inlined-back procedure is compared with the original,
  (c) the callee's signature is checked at the new call site: rank of every window argument, extent of every
      window dimension == the formal's declared extent under the inferred index arguments, window inside the
      source buffer, size arguments positive
- all three FOR ALL INPUTS: size / index arguments and loop iterators are z3 integers, the contents of every
buffer an uninterpreted function of the index tuple, numeric values z3 reals.  The comparison is relational
(lock-step): both procedures are walked together, every pair of loops must have equal bounds, every pair of guards
equivalent conditions, every pair of assignments / reductions the same kind, the same location (after resolving
windows) and - from equal stores - the same value.  Every such condition is a validity query under the path
condition (assertions of the procedure, sizes positive, enclosing loop ranges and guards).  A refuted condition is
turned into concrete inputs and both procedures are EXECUTED by the little reference interpreter below; only a
concrete difference of final buffer contents (or a violated signature requirement on concrete values) is reported
as a violation, anything else is undecided.
Pairs marked `reject` are non-instances differing from an instance in exactly one respect; `replace` accepting one
is a violation (the replay shows the differing final contents).  When `replace` rejects a pair that IS an instance
nothing is claimed (completeness is not the property).

Everything here is reported under `bounded`; nothing is counted as discharged.
"""
from __future__ import annotations
import os, sys, time, zlib, itertools
from fractions import Fraction
import z3

VERIF_DIR = os.path.dirname(os.path.dirname(os.path.abspath(__file__)))


# ======================================================================================================
# the family of pairs
# ======================================================================================================

PROCS_SRC = '''
from __future__ import annotations
from exo import proc, config
from exo.libs.externs import sin, relu

# ---------------------------------------------------------------- callees
@proc
def fill(n: size, x: [f32][n]):
    for i in seq(0, n):
        x[i] = 1.0

@proc
def fill_from(lo: index, hi: index, x: f32[16]):
    assert 0 <= lo
    assert lo <= hi
    assert hi <= 16
    for i in seq(lo, hi):
        x[i] = 1.0

@proc
def fill_kn(n: size, k: index, x: f32[16]):
    assert 0 <= k
    assert k + n <= 16
    for i in seq(k, k + n):
        x[i] = 1.0

@proc
def fill_even(n: size, x: [f32][2 * n]):
    for i in seq(0, n):
        x[2 * i] = 1.0

@proc
def fill_rev(n: size, x: [f32][n]):
    for i in seq(0, n):
        x[n - 1 - i] = 1.0

@proc
def incr(n: size, x: [f32][n]):
    for i in seq(0, n):
        x[i] = x[i] + 1.0

@proc
def incr_fixed(x: f32[8]):
    for i in seq(0, 8):
        x[i] = x[i] + 1.0

@proc
def copy(n: size, x: [f32][n], y: [f32][n]):
    for i in seq(0, n):
        x[i] = y[i]

@proc
def accum(n: size, x: [f32][n], y: [f32][n]):
    for i in seq(0, n):
        x[i] += y[i]

@proc
def axpy(n: size, x: [f32][n], y: [f32][n]):
    for i in seq(0, n):
        x[i] += 2.0 * y[i]

@proc
def set_lt(k: index, x: [f32][8]):
    for i in seq(0, 8):
        if i < k:
            x[i] = 1.0

@proc
def set_eq(k: index, x: [f32][8]):
    for i in seq(0, 8):
        if i == k:
            x[i] = 1.0

@proc
def set_lt_else(k: index, x: [f32][8]):
    for i in seq(0, 8):
        if i < k:
            x[i] = 1.0
        else:
            x[i] = 2.0

@proc
def zero2(n: size, m: size, x: [f32][n, m]):
    for i in seq(0, n):
        for j in seq(0, m):
            x[i, j] = 0.0

@proc
def transp(n: size, m: size, x: [f32][n, m], y: [f32][m, n]):
    for i in seq(0, n):
        for j in seq(0, m):
            x[i, j] = y[j, i]

@proc
def dot_row(n: size, x: [f32][n], y: [f32][n], acc: [f32][1]):
    for i in seq(0, n):
        acc[0] += x[i] * y[i]

@proc
def scal_tmp(n: size, x: [f32][n]):
    for i in seq(0, n):
        t: f32
        t = x[i]
        x[i] = t * t

@proc
def zero2_fixed(x: f32[16, 16]):
    for i in seq(0, 4):
        for j in seq(0, 6):
            x[i, j] = 0.0

@proc
def zero2_fixed_off(x: f32[16, 16]):
    for i in seq(0, 4):
        for j in seq(0, 6):
            x[i + 1, j + 2] = 0.0

@proc
def set_gt(k: index, x: [f32][8]):
    for i in seq(0, 8):
        if k > i:
            x[i] = 1.0

@proc
def neg(n: size, x: [f32][n], y: [f32][n]):
    for i in seq(0, n):
        x[i] = -y[i]

@proc
def sine(n: size, x: [f32][n], y: [f32][n]):
    for i in seq(0, n):
        x[i] = sin(y[i])

@config
class CfgG:
    s: stride
    t: stride

@proc
def set_strides(s: stride):
    CfgG.s = s
    CfgG.t = s

@proc
def fill_if(n: size, flag: bool, x: [f32][n]):
    for i in seq(0, n):
        if flag:
            x[i] = 1.0

@proc
def fill_if2(n: size, flag: bool, x: [f32][n]):
    for i in seq(0, n):
        if flag:
            x[i] = 1.0
    for i in seq(0, n):
        if flag:
            x[i] = 2.0

# ---------------------------------------------------------------- procedures holding the blocks
@proc
def b_zero2_off2(A: f32[16, 16]):
    for i in seq(0, 4):
        for j in seq(0, 6):
            A[i, j + 2] = 0.0

@proc
def b_neg(a: f32[8], b: f32[8]):
    for i in seq(0, 8):
        a[i] = -b[i]

@proc
def b_sin(a: f32[8], b: f32[8]):
    for i in seq(0, 8):
        a[i] = sin(b[i])

@proc
def b_relu(a: f32[8], b: f32[8]):
    for i in seq(0, 8):
        a[i] = relu(b[i])

@proc
def b_strides_same(a: f32[8, 8]):
    CfgG.s = stride(a, 0)
    CfgG.t = stride(a, 0)

@proc
def b_strides_differ(a: f32[8, 8]):
    CfgG.s = stride(a, 0)
    CfgG.t = stride(a, 1)

@proc
def b_fill_if(m: size, a: f32[8]):
    for i in seq(0, 8):
        if m < 4:
            a[i] = 1.0

@proc
def b_fill_if2_same(m: size, a: f32[8]):
    for i in seq(0, 8):
        if m < 4:
            a[i] = 1.0
    for i in seq(0, 8):
        if m < 4:
            a[i] = 2.0

@proc
def b_fill_if2_differ(m: size, a: f32[8]):
    for i in seq(0, 8):
        if m < 4:
            a[i] = 1.0
    for i in seq(0, 8):
        if m < 5:
            a[i] = 2.0

@proc
def b_fill8(a: f32[16]):
    for i in seq(0, 8):
        a[i] = 1.0

@proc
def b_fill_n(n: size, a: f32[n]):
    for i in seq(0, n):
        a[i] = 1.0

@proc
def b_fill_2_10(a: f32[16]):
    for i in seq(2, 10):
        a[i] = 1.0

@proc
def b_fill_m(m: size, a: f32[16]):
    assert m <= 8
    for i in seq(m, m + 8):
        a[i] = 1.0

@proc
def b_fill_off(a: f32[16]):
    for i in seq(0, 8):
        a[i + 2] = 1.0

@proc
def b_fill_off_sym(n: size, m: size, a: f32[n + m]):
    for i in seq(0, n):
        a[i + m] = 1.0

@proc
def b_fill_2(a: f32[16]):
    for i in seq(0, 8):
        a[i] = 2.0

@proc
def b_fill_scaled(a: f32[32]):
    for i in seq(0, 8):
        a[2 * i + 1] = 1.0

@proc
def b_fill_even4(a: f32[32]):
    for i in seq(0, 8):
        a[2 * i + 4] = 1.0

@proc
def b_fill_3i(a: f32[32]):
    for i in seq(0, 8):
        a[3 * i] = 1.0

@proc
def b_fill_rev(a: f32[16]):
    for i in seq(0, 8):
        a[7 - i] = 1.0

@proc
def b_fill_rev_off(a: f32[16]):
    for i in seq(0, 8):
        a[10 - i] = 1.0

@proc
def b_incr_same(a: f32[8], b: f32[8]):
    for i in seq(0, 8):
        a[i] = a[i] + 1.0

@proc
def b_incr_other(a: f32[8], b: f32[8]):
    for i in seq(0, 8):
        a[i] = b[i] + 1.0

@proc
def b_incr_shift(a: f32[16]):
    for i in seq(0, 8):
        a[i] = a[i + 1] + 1.0

@proc
def b_incr_times(a: f32[8], b: f32[8]):
    for i in seq(0, 8):
        a[i] = a[i] * 1.0

@proc
def b_copy(a: f32[8], b: f32[8]):
    for i in seq(0, 8):
        a[i] = b[i]

@proc
def b_copy_off(a: f32[16], b: f32[16]):
    for i in seq(0, 8):
        a[i + 3] = b[i + 5]

@proc
def b_accum(a: f32[8], b: f32[8]):
    for i in seq(0, 8):
        a[i] += b[i]

@proc
def b_axpy(a: f32[8], b: f32[8]):
    for i in seq(0, 8):
        a[i] += 2.0 * b[i]

@proc
def b_axpy3(a: f32[8], b: f32[8]):
    for i in seq(0, 8):
        a[i] += 3.0 * b[i]

@proc
def b_axpy_swapped(a: f32[8], b: f32[8]):
    for i in seq(0, 8):
        a[i] += b[i] * 2.0

@proc
def b_lt(m: size, a: f32[8]):
    assert m <= 8
    for i in seq(0, 8):
        if i < m:
            a[i] = 1.0

@proc
def b_le(m: size, a: f32[8]):
    assert m < 8
    for i in seq(0, 8):
        if i <= m:
            a[i] = 1.0

@proc
def b_gt(m: size, a: f32[8]):
    assert m <= 8
    for i in seq(0, 8):
        if m > i:
            a[i] = 1.0

@proc
def b_ge(m: size, a: f32[8]):
    assert m <= 8
    for i in seq(0, 8):
        if i >= m:
            a[i] = 1.0

@proc
def b_eq(m: size, a: f32[8]):
    assert m < 8
    for i in seq(0, 8):
        if i == m:
            a[i] = 1.0

@proc
def b_eq_off(m: size, a: f32[8]):
    assert m < 6
    for i in seq(0, 8):
        if i == m + 2:
            a[i] = 1.0

@proc
def b_lt_else(m: size, a: f32[8]):
    assert m <= 8
    for i in seq(0, 8):
        if i < m:
            a[i] = 1.0
        else:
            a[i] = 2.0

@proc
def b_lt_else_swapped(m: size, a: f32[8]):
    assert m <= 8
    for i in seq(0, 8):
        if i < m:
            a[i] = 2.0
        else:
            a[i] = 1.0

@proc
def b_row(A: f32[8, 8]):
    for i in seq(0, 8):
        A[3, i] = 1.0

@proc
def b_col(A: f32[8, 8]):
    for i in seq(0, 8):
        A[i, 3] = 1.0

@proc
def b_rows(A: f32[8, 8]):
    for j in seq(0, 8):
        for i in seq(0, 8):
            A[j, i] = 1.0

@proc
def b_cols(A: f32[8, 8]):
    for j in seq(0, 8):
        for i in seq(0, 8):
            A[i, j] = 1.0

@proc
def b_diag(A: f32[8, 8]):
    for i in seq(0, 8):
        A[i, i] = 1.0

@proc
def b_zero2(A: f32[16, 16]):
    for i in seq(0, 4):
        for j in seq(0, 6):
            A[i + 1, j + 2] = 0.0

@proc
def b_zero2_mid(B: f32[8, 4, 8]):
    for i in seq(0, 4):
        for j in seq(0, 6):
            B[i, 2, j + 1] = 0.0

@proc
def b_zero2_swapped(A: f32[16, 16]):
    for i in seq(0, 4):
        for j in seq(0, 6):
            A[j, i] = 0.0

@proc
def b_transp(A: f32[4, 6], B: f32[6, 4]):
    for i in seq(0, 4):
        for j in seq(0, 6):
            A[i, j] = B[j, i]

@proc
def b_not_transp(A: f32[4, 4], B: f32[4, 4]):
    for i in seq(0, 4):
        for j in seq(0, 4):
            A[i, j] = B[i, j]

@proc
def b_two_loops(a: f32[16], b: f32[16]):
    for i in seq(0, 8):
        a[i] = 1.0
    for i in seq(0, 8):
        b[i] = a[i]

@proc
def b_dot(A: f32[4, 8], B: f32[4, 8], c: f32[4]):
    for j in seq(0, 4):
        for i in seq(0, 8):
            c[j] += A[j, i] * B[j, i]

@proc
def b_scal_tmp(a: f32[8]):
    for i in seq(0, 8):
        t: f32
        t = a[i]
        a[i] = t * t

@proc
def b_scal_tmp_other(a: f32[8], b: f32[8]):
    for i in seq(0, 8):
        t: f32
        t = a[i]
        b[i] = t * t
'''

# (id, procedure, loop selector, callee, expectation, what is exercised)
#   selector "i" / "i #1": p.find_loop(..);   expectation "instance" | "reject"
PAIRS = [
    ("lo0_const", "b_fill8", "i", "fill", "instance", "loop 0..8, window hole of size n"),
    ("lo0_size", "b_fill_n", "i", "fill", "instance", "loop 0..n, n a size of the caller"),
    ("lo_const_vs_0", "b_fill_2_10", "i", "fill", "reject", "NON-INSTANCE lower bound: block loop starts at 2, callee at 0"),
    ("lo_sym_vs_0", "b_fill_m", "i", "fill", "reject", "NON-INSTANCE lower bound: block loop starts at a size m"),
    ("lo_hole_const", "b_fill_2_10", "i", "fill_from", "instance", "both bounds are index holes"),
    ("lo_hole_sym", "b_fill_m", "i", "fill_from", "instance", "both bounds are index holes, symbolic start"),
    ("two_holes_eq", "b_fill_2_10", "i", "fill_kn", "instance", "two index holes related by k + n == 10"),
    ("two_holes_eq_sym", "b_fill_m", "i", "fill_kn", "instance", "two index holes, k == m, k + n == m + 8"),
    ("offset_const", "b_fill_off", "i", "fill", "instance", "index i + 2: window offset 2"),
    ("offset_sym", "b_fill_off_sym", "i", "fill", "instance", "index i + m: window offset a size"),
    ("const_differs", "b_fill_2", "i", "fill", "reject", "NON-INSTANCE constant: 2.0 against 1.0"),
    ("scaled_vs_unit", "b_fill_scaled", "i", "fill", "reject", "NON-INSTANCE index coefficient: 2*i+1 against i"),
    ("scaled_even", "b_fill_even4", "i", "fill_even", "instance", "index 2*i + 4 against 2*i: window offset 4"),
    ("coeff_3_vs_2", "b_fill_3i", "i", "fill_even", "reject", "NON-INSTANCE index coefficient: 3*i against 2*i"),
    ("negative_term", "b_fill_rev", "i", "fill_rev", "instance", "index 7 - i against n - 1 - i"),
    ("negative_term_off", "b_fill_rev_off", "i", "fill_rev", "instance", "index 10 - i against n - 1 - i: offset 3"),
    ("negative_vs_positive", "b_fill8", "i", "fill_rev", "reject", "NON-INSTANCE index coefficient: i against n - 1 - i"),
    ("same_buffer_twice", "b_incr_same", "i", "incr", "instance", "the callee buffer occurs twice, the block buffer too"),
    ("buffer_differs", "b_incr_other", "i", "incr", "reject",
     "NON-INSTANCE buffer: the callee reads and writes ONE buffer, the block reads b and writes a"),
    ("buffer_differs_fixed", "b_incr_other", "i", "incr_fixed", "reject", "NON-INSTANCE buffer (no window)"),
    ("same_buffer_shifted", "b_incr_shift", "i", "incr", "reject",
     "NON-INSTANCE index: one callee buffer, the block reads a[i + 1] and writes a[i]"),
    ("operator_differs", "b_incr_times", "i", "incr", "reject", "NON-INSTANCE operator: * against +"),
    ("two_buffers", "b_copy", "i", "copy", "instance", "two window holes"),
    ("two_buffers_off", "b_copy_off", "i", "copy", "instance", "two window holes with different offsets"),
    ("reduce", "b_accum", "i", "accum", "instance", "reduction against reduction"),
    ("assign_vs_reduce", "b_copy", "i", "accum", "reject", "NON-INSTANCE statement kind: assignment against reduction"),
    ("reduce_vs_assign", "b_accum", "i", "copy", "reject", "NON-INSTANCE statement kind: reduction against assignment"),
    ("scaled_value", "b_axpy", "i", "axpy", "instance", "numeric constant inside a product"),
    ("scaled_value_3", "b_axpy3", "i", "axpy", "reject", "NON-INSTANCE constant: 3.0 * y against 2.0 * y"),
    ("product_swapped", "b_axpy_swapped", "i", "axpy", "any", "operands of * swapped: equivalent over the reals; either answer is fine"),
    ("guard_lt", "b_lt", "i", "set_lt", "instance", "guard i < m against i < k"),
    ("guard_le_vs_lt", "b_le", "i", "set_lt", "instance", "guard i <= m against i < k: k == m + 1"),
    ("guard_gt_vs_lt", "b_gt", "i", "set_lt", "instance", "guard m > i against i < k"),
    ("guard_ge_vs_lt", "b_ge", "i", "set_lt", "reject", "NON-INSTANCE comparison: i >= m against i < k (opposite direction)"),
    ("guard_eq", "b_eq", "i", "set_eq", "instance", "guard i == m against i == k"),
    ("guard_eq_off", "b_eq_off", "i", "set_eq", "instance", "guard i == m + 2 against i == k"),
    ("guard_lt_vs_eq", "b_lt", "i", "set_eq", "reject", "NON-INSTANCE comparison operator: i < m against i == k"),
    ("guard_le_vs_eq", "b_le", "i", "set_eq", "reject", "NON-INSTANCE comparison operator: i <= m against i == k"),
    ("guard_eq_vs_lt", "b_eq", "i", "set_lt", "reject", "NON-INSTANCE comparison operator: i == m against i < k"),
    ("guard_else", "b_lt_else", "i", "set_lt_else", "instance", "guard with an else branch"),
    ("guard_else_swapped", "b_lt_else_swapped", "i", "set_lt_else", "reject", "NON-INSTANCE constant: branches swapped"),
    ("guard_missing_else", "b_lt", "i", "set_lt_else", "reject", "NON-INSTANCE: the callee has an else branch, the block none"),
    ("point_first", "b_row", "i", "fill", "instance", "window of a rank-2 buffer, point dimension first"),
    ("point_last", "b_col", "i", "fill", "instance", "window of a rank-2 buffer, point dimension last"),
    ("point_first_iter", "b_rows", "i", "fill", "instance", "point dimension is an enclosing iterator (first)"),
    ("point_last_iter", "b_cols", "i", "fill", "instance", "point dimension is an enclosing iterator (last)"),
    ("diagonal", "b_diag", "i", "fill", "reject", "NON-INSTANCE index: the diagonal A[i, i] is not a window"),
    ("rank2", "b_zero2", "i", "zero2", "instance", "rank-2 window with two offsets"),
    ("rank2_mid_point", "b_zero2_mid", "i", "zero2", "instance", "rank-2 window of a rank-3 buffer, point dimension in the middle"),
    ("rank2_swapped", "b_zero2_swapped", "i", "zero2", "reject", "NON-INSTANCE index: A[j, i] against x[i, j] (a window cannot transpose)"),
    ("rank2_no_window", "b_zero2", "i", "zero2_fixed_off", "instance", "rank-2 buffer argument that is not a window"),
    ("rank2_no_window_offset", "b_zero2", "i", "zero2_fixed", "reject",
     "NON-INSTANCE index: A[i + 1, j + 2] against x[i, j], x not a window (no offset possible)"),
    ("rank2_no_window_offset2", "b_zero2_off2", "i", "zero2_fixed", "reject",
     "NON-INSTANCE index in the SECOND dimension only: A[i, j + 2] against x[i, j], x not a window"),
    ("guard_lt_vs_gt", "b_lt", "i", "set_gt", "instance", "guard i < m against k > i"),
    ("guard_le_vs_gt", "b_le", "i", "set_gt", "instance", "guard i <= m against k > i: k == m + 1"),
    ("guard_ge_vs_gt", "b_ge", "i", "set_gt", "reject", "NON-INSTANCE comparison: i >= m against k > i (opposite direction)"),
    ("negation", "b_neg", "i", "neg", "instance", "unary minus"),
    ("negation_missing", "b_copy", "i", "neg", "reject", "NON-INSTANCE operator: b[i] against -y[i]"),
    ("extern", "b_sin", "i", "sine", "instance", "extern function"),
    ("extern_differs", "b_relu", "i", "sine", "reject", "NON-INSTANCE extern: relu against sin"),
    ("transpose", "b_transp", "i", "transp", "instance", "two rank-2 windows, one read transposed"),
    ("not_transposed", "b_not_transp", "i", "transp", "reject", "NON-INSTANCE index: B[i, j] against y[j, i]"),
    ("shorter_callee", "b_two_loops", "i", "fill", "instance", "the block (two loops) is longer than the callee (one loop)"),
    ("scalar_window", "b_dot", "i", "dot_row", "instance", "three windows, one of extent 1 addressed by a constant"),
    ("local_alloc", "b_scal_tmp", "i", "scal_tmp", "instance", "body with a local allocation"),
    ("local_alloc_other", "b_scal_tmp_other", "i", "scal_tmp", "reject", "NON-INSTANCE buffer: read a, write b"),
    ("stride_arg", "b_strides_same", "body", "set_strides", "instance", "one stride argument used twice, same stride expression twice"),
    ("stride_arg_differs", "b_strides_differ", "body", "set_strides", "reject",
     "NON-INSTANCE stride: one stride argument, two different stride expressions"),
    ("bool_arg", "b_fill_if", "i", "fill_if", "instance", "boolean argument bound to a condition of the block"),
    ("bool_arg_twice", "b_fill_if2_same", "body", "fill_if2", "instance", "boolean argument used twice, same condition twice"),
    ("bool_arg_differs", "b_fill_if2_differ", "body", "fill_if2", "reject",
     "NON-INSTANCE condition: one boolean argument, two different conditions"),
]

_MOD = None


def load_procs():
    """the procedures of PROCS_SRC (the frontend needs a source file)"""
    global _MOD
    if _MOD is not None:
        return _MOD
    import importlib.util, tempfile, shutil
    d = tempfile.mkdtemp(prefix="pyvc_c05m_", dir="/var/tmp")
    try:
        p = os.path.join(d, "c05_pairs.py")
        with open(p, "w") as f:
            f.write(PROCS_SRC)
        spec = importlib.util.spec_from_file_location("c05_pairs", p)
        mod = importlib.util.module_from_spec(spec)
        sys.modules["c05_pairs"] = mod          # @config looks the class's module up
        spec.loader.exec_module(mod)
        _MOD = mod
        return mod
    finally:
        shutil.rmtree(d, ignore_errors=True)


# ======================================================================================================
# windows (shared by the symbolic and the concrete semantics)
# ======================================================================================================

class View:
    """a view of a root buffer: one entry per ROOT dimension, ("pt", v) or ("iv", lo, hi) in root coordinates"""
    def __init__(self, root, dims):
        self.root, self.dims = root, list(dims)

    @property
    def rank(self):
        return sum(1 for d in self.dims if d[0] == "iv")

    def coords(self, idx):
        idx = list(idx)
        if len(idx) != self.rank:
            raise Mismatch(f"{len(idx)} indices on a view of rank {self.rank}")
        out = []
        for d in self.dims:
            out.append(d[1] if d[0] == "pt" else d[1] + idx.pop(0))
        return tuple(out)

    def window(self, acc):
        """acc: one entry per dimension of THIS view: ("pt", v) | ("iv", lo, hi), in this view's coordinates"""
        acc = list(acc)
        if len(acc) != self.rank:
            raise Mismatch(f"window with {len(acc)} coordinates on a view of rank {self.rank}")
        out = []
        for d in self.dims:
            if d[0] == "pt":
                out.append(d)
            else:
                a = acc.pop(0)
                out.append(("pt", d[1] + a[1]) if a[0] == "pt" else ("iv", d[1] + a[1], d[1] + a[2]))
        return View(self.root, out)

    def extents(self):
        return [d[2] - d[1] for d in self.dims if d[0] == "iv"]

    def root_dim(self, k):
        """the root dimension that the k-th dimension of this view walks along"""
        ivs = [i for i, d in enumerate(self.dims) if d[0] == "iv"]
        if not (0 <= k < len(ivs)):
            raise Mismatch(f"stride of dimension {k} of a view of rank {len(ivs)}")
        return ivs[k]


class Root:
    def __init__(self, name, rank, shape=None):
        self.name, self.rank, self.shape = name, rank, shape

    def __repr__(self):
        return self.name


class Mismatch(Exception):
    """the two procedures cannot be aligned / an ill-formed access"""


class NotCovered(Exception):
    """construct outside the semantics (the pair is undecided)"""


def _L():
    from exo.core.LoopIR import LoopIR, T
    return LoopIR, T


# ======================================================================================================
# symbolic semantics + relational comparison
# ======================================================================================================

def _is_real_type(t):
    try:
        return t.is_numeric()
    except Exception:
        return False


class Sem:
    """values of expressions over z3 terms; `mem` is the (arbitrary) common store"""
    def __init__(self):
        self.mem = {}
        self.ext = {}
        self.n = 0

    def fresh(self, name):
        self.n += 1
        return z3.Int(f"{name}#{self.n}")

    def memory(self, root):
        if id(root) not in self.mem:
            nm = f"mem_{root.name}"
            self.mem[id(root)] = z3.Real(nm) if root.rank == 0 else \
                z3.Function(nm, *([z3.IntSort()] * root.rank), z3.RealSort())
        return self.mem[id(root)]

    def load(self, view, idx):
        c = view.coords(idx)
        m = self.memory(view.root)
        return m if not c else m(*c)

    def ev(self, e, env):
        LoopIR, T = _L()
        if isinstance(e, LoopIR.Const):
            if isinstance(e.val, bool):
                return z3.BoolVal(e.val)
            if _is_real_type(e.type) or isinstance(e.val, float):
                return z3.RealVal(str(Fraction(e.val)))
            return z3.IntVal(e.val)
        if isinstance(e, LoopIR.Read):
            v = env[e.name]
            if isinstance(v, View):
                return self.load(v, [self.ev(i, env) for i in e.idx])
            if e.idx:
                raise Mismatch(f"indexed read of the non-buffer {e.name}")
            return v
        if isinstance(e, LoopIR.USub):
            return -self.ev(e.arg, env)
        if isinstance(e, LoopIR.BinOp):
            a, b = self.ev(e.lhs, env), self.ev(e.rhs, env)
            op = e.op
            if op in ("and", "or"):
                return z3.And(a, b) if op == "and" else z3.Or(a, b)
            if z3.is_real(a) != z3.is_real(b):
                a = z3.ToReal(a) if z3.is_int(a) else a
                b = z3.ToReal(b) if z3.is_int(b) else b
            if op == "+":
                return a + b
            if op == "-":
                return a - b
            if op == "*":
                return a * b
            if op == "/":
                return a / b            # ints: divisor is a positive literal (floor division); reals: field division
            if op == "%":
                return a % b
            return {"<": a < b, "<=": a <= b, ">": a > b, ">=": a >= b, "==": a == b}[op]
        if isinstance(e, LoopIR.Extern):
            args = [self.ev(a, env) for a in e.args]
            args = [z3.ToReal(a) if z3.is_int(a) else a for a in args]
            key = (e.f.name(), len(args))
            if key not in self.ext:
                self.ext[key] = z3.Function(f"extern_{key[0]}", *([z3.RealSort()] * len(args)), z3.RealSort())
            return self.ext[key](*args)
        if isinstance(e, LoopIR.StrideExpr):
            v = env[e.name]
            return self.stride(v.root, v.root_dim(e.dim))
        if isinstance(e, LoopIR.ReadConfig):
            # the configuration state is the same in both runs at every pair of statements (lock-step invariant)
            key = ("cfg", e.config.name(), e.field)
            if key not in self.ext:
                t = e.type
                self.ext[key] = z3.Real(f"cfg_{key[1]}_{key[2]}") if _is_real_type(t) else \
                    (z3.Bool(f"cfg_{key[1]}_{key[2]}") if t == T.bool else z3.Int(f"cfg_{key[1]}_{key[2]}"))
            return self.ext[key]
        raise NotCovered(f"expression {type(e).__name__}")

    def stride(self, root, d):
        key = ("stride", id(root), d)
        if key not in self.ext:
            self.ext[key] = z3.Int(f"stride_{root.name}_{d}")
        return self.ext[key]

    def view(self, e, env):
        LoopIR, T = _L()
        if isinstance(e, LoopIR.Read) and not e.idx and isinstance(env.get(e.name), View):
            return env[e.name]
        if isinstance(e, LoopIR.WindowExpr):
            acc = []
            for w in e.idx:
                if isinstance(w, LoopIR.Point):
                    acc.append(("pt", self.ev(w.pt, env)))
                else:
                    acc.append(("iv", self.ev(w.lo, env), self.ev(w.hi, env)))
            return env[e.name].window(acc)
        raise NotCovered(f"buffer argument {type(e).__name__}")


class Compare:
    """relational walk of two procedures with the same signature"""
    def __init__(self, pa, pb, what, budget_ms=4000):
        LoopIR, T = _L()
        self.what = what
        self.sem = Sem()
        self.pc = []
        self.results = []           # (label, status, model | None, detail)
        self.budget = budget_ms
        self.int_consts = {}        # printed name -> (sym, z3 const) of the index / size arguments
        env = {}
        if len(pa.args) != len(pb.args) or any(x.name is not y.name for x, y in zip(pa.args, pb.args)):
            raise Mismatch("the procedures have different arguments")
        for fa in pa.args:
            if _is_real_type(fa.type):
                shape = fa.type.shape()
                env[fa.name] = ("root", Root(str(fa.name), len(shape)), shape)
            elif fa.type == T.bool:
                env[fa.name] = z3.Bool(f"arg_{fa.name}")
            else:
                c = z3.Int(f"arg_{fa.name}")
                env[fa.name] = c
                self.int_consts[str(fa.name)] = c
                if fa.type == T.size:
                    self.pc.append(c > 0)
        for nm, v in list(env.items()):
            if isinstance(v, tuple):
                _, root, shape = v
                dims = [self.sem.ev(h, env) for h in shape]
                root.shape = dims
                env[nm] = View(root, [("iv", z3.IntVal(0), d) for d in dims])
        for p in pa.preds:
            try:
                self.pc.append(self.sem.ev(p, env))
            except (NotCovered, Mismatch, KeyError):
                pass                # an assertion outside the semantics only weakens the path condition
        self.env0 = env
        self.pa, self.pb = pa, pb

    # ---- proving
    def prove(self, cond, label, detail=""):
        s = z3.Solver()
        s.set("timeout", self.budget)
        for c in self.pc:
            s.add(c)
        s.add(z3.Not(cond))
        r = s.check()
        if r == z3.unsat:
            self.results.append((label, "discharged", None, detail))
            return True
        if r == z3.sat:
            m = s.model()
            vals = {}
            for nm, c in self.int_consts.items():
                v = m.eval(c, model_completion=True)
                vals[nm] = v.as_long() if z3.is_int_value(v) else 1
            self.results.append((label, "refuted", vals, detail))
        else:
            self.results.append((label, "unknown", None, detail))
        return False

    def fail(self, label, detail=""):
        self.results.append((label, "refuted", None, detail))

    def run(self):
        try:
            self.block(list(self.pa.body), list(self.pb.body), dict(self.env0), dict(self.env0), "body")
        except Mismatch as e:
            self.fail(f"{self.what}: the procedures cannot be aligned", str(e))
        except NotCovered as e:
            self.results.append((f"{self.what}: outside the reference semantics", "unknown", None, str(e)))
        return self.results

    # ---- statements
    def _bind_window(self, s, env):
        env[s.name] = self.sem.view(s.rhs, env)

    def block(self, A, B, ea, eb, where):
        LoopIR, T = _L()
        i = j = 0
        while True:
            while i < len(A) and isinstance(A[i], LoopIR.WindowStmt):
                self._bind_window(A[i], ea)
                i += 1
            while j < len(B) and isinstance(B[j], LoopIR.WindowStmt):
                self._bind_window(B[j], eb)
                j += 1
            if i == len(A) and j == len(B):
                return
            if i == len(A) or j == len(B):
                raise Mismatch(f"{where}: different number of statements")
            a, b = A[i], B[j]
            w = f"{where}[{i}]"
            if isinstance(b, LoopIR.Call) and not isinstance(a, LoopIR.Call):
                n = len(b.f.body)
                if i + n > len(A):
                    raise Mismatch(f"{w}: the callee body is longer than the remaining block")
                ec = self.call_env(b, eb, w)
                self.block(A[i:i + n], list(b.f.body), ea, ec, w + f".{b.f.name}")
                i += n
                j += 1
                continue
            if type(a) is not type(b):
                raise Mismatch(f"{w}: {type(a).__name__} against {type(b).__name__}")
            if isinstance(a, LoopIR.For):
                la, ha, lb, hb = self.sem.ev(a.lo, ea), self.sem.ev(a.hi, ea), self.sem.ev(b.lo, eb), self.sem.ev(b.hi, eb)
                self.prove(z3.And(la == lb, ha == hb), f"{self.what}: the two loops run over the same range", w)
                v = self.sem.fresh(str(a.iter))
                ea2, eb2 = dict(ea), dict(eb)
                ea2[a.iter] = v
                eb2[b.iter] = v
                n0 = len(self.pc)
                self.pc += [la <= v, v < ha]
                self.block(list(a.body), list(b.body), ea2, eb2, w + ".body")
                del self.pc[n0:]
            elif isinstance(a, LoopIR.If):
                ca, cb = self.sem.ev(a.cond, ea), self.sem.ev(b.cond, eb)
                self.prove(ca == cb, f"{self.what}: the two guards are equivalent", w)
                n0 = len(self.pc)
                self.pc.append(ca)
                self.block(list(a.body), list(b.body), dict(ea), dict(eb), w + ".then")
                del self.pc[n0:]
                self.pc.append(z3.Not(ca))
                self.block(list(a.orelse), list(b.orelse), dict(ea), dict(eb), w + ".else")
                del self.pc[n0:]
            elif isinstance(a, (LoopIR.Assign, LoopIR.Reduce)):
                va, vb = ea[a.name], eb[b.name]
                if va.root is not vb.root:
                    self.fail(f"{self.what}: the two statements write the same buffer",
                              f"{w}: {va.root} against {vb.root}")
                else:
                    ca = va.coords([self.sem.ev(x, ea) for x in a.idx])
                    cb = vb.coords([self.sem.ev(x, eb) for x in b.idx])
                    self.prove(z3.And([x == y for x, y in zip(ca, cb)]) if ca else z3.BoolVal(True),
                               f"{self.what}: the two statements write the same location", w)
                ra, rb = self.sem.ev(a.rhs, ea), self.sem.ev(b.rhs, eb)
                ra = z3.ToReal(ra) if z3.is_int(ra) else ra
                rb = z3.ToReal(rb) if z3.is_int(rb) else rb
                self.prove(ra == rb, f"{self.what}: the two statements store the same value (from equal stores)", w)
            elif isinstance(a, LoopIR.Pass):
                pass
            elif isinstance(a, LoopIR.WriteConfig):
                if a.config is not b.config or a.field != b.field:
                    self.fail(f"{self.what}: the two statements write the same configuration field", w)
                else:
                    ra, rb = self.sem.ev(a.rhs, ea), self.sem.ev(b.rhs, eb)
                    self.prove(ra == rb, f"{self.what}: the two statements store the same value (from equal stores)", w)
            elif isinstance(a, LoopIR.Alloc):
                sa, sb = a.type.shape(), b.type.shape()
                if len(sa) != len(sb):
                    raise Mismatch(f"{w}: allocations of different rank")
                root = Root(f"{a.name}_{self.sem.n}", len(sa))
                self.sem.n += 1
                da, db = [self.sem.ev(h, ea) for h in sa], [self.sem.ev(h, eb) for h in sb]
                if da:
                    self.prove(z3.And([x == y for x, y in zip(da, db)]), f"{self.what}: the two allocations have the same extents", w)
                root.shape = da
                ea[a.name] = View(root, [("iv", z3.IntVal(0), d) for d in da])
                eb[b.name] = View(root, [("iv", z3.IntVal(0), d) for d in da])
            elif isinstance(a, LoopIR.Call):
                if a.f is not b.f:
                    raise Mismatch(f"{w}: calls of different procedures")
                for fa, xa, xb in zip(a.f.args, a.args, b.args):
                    if _is_real_type(fa.type):
                        va, vb = self.sem.view(xa, ea), self.sem.view(xb, eb)
                        if va.root is not vb.root or [d[0] for d in va.dims] != [d[0] for d in vb.dims]:
                            self.fail(f"{self.what}: the two calls pass the same buffer", w)
                        else:
                            eqs = [x == y for da_, db_ in zip(va.dims, vb.dims) for x, y in zip(da_[1:], db_[1:])]
                            self.prove(z3.And(eqs) if eqs else z3.BoolVal(True), f"{self.what}: the two calls pass the same window", w)
                    else:
                        self.prove(self.sem.ev(xa, ea) == self.sem.ev(xb, eb), f"{self.what}: the two calls pass the same value", w)
            else:
                raise NotCovered(f"statement {type(a).__name__}")
            i += 1
            j += 1

    def call_env(self, call, env, where):
        """environment of the callee body; the signature requirements are obligations at the call site"""
        LoopIR, T = _L()
        ec = {}
        views = []
        for fa, x in zip(call.f.args, call.args):
            if _is_real_type(fa.type):
                v = self.sem.view(x, env)
                ec[fa.name] = v
                views.append((fa, v))
            else:
                val = self.sem.ev(x, env)
                ec[fa.name] = val
                if fa.type == T.size:
                    self.prove(val > 0, "signature: a size argument is positive at the call", f"{where}: {fa.name}")
        for fa, v in views:
            shape = fa.type.shape()
            if v.rank != len(shape):
                self.fail("signature: a window argument has the rank the callee declares",
                          f"{where}: {fa.name} has rank {v.rank}, declared {len(shape)}")
                continue
            want = [self.sem.ev(h, ec) for h in shape]
            if want:
                self.prove(z3.And([x == y for x, y in zip(v.extents(), want)]),
                           "signature: every window dimension has the extent the callee declares", f"{where}: {fa.name}")
            if v.root.shape is not None:
                cs = []
                for d, ext in zip(v.dims, v.root.shape):
                    if d[0] == "pt":
                        cs += [d[1] >= 0, d[1] < ext]
                    else:
                        cs += [d[1] >= 0, d[2] <= ext]
                self.prove(z3.And(cs), "signature: every window argument lies inside its source buffer", f"{where}: {fa.name}")
        return ec


# ======================================================================================================
# concrete reference interpreter (confirmation of refuted conditions, replay)
# ======================================================================================================

class CBuf:
    def __init__(self, name, salt=0):
        self.name, self.data, self.salt = name, {}, salt

    def get(self, k):
        if k not in self.data:
            h = zlib.crc32(f"{self.name}|{k}|{self.salt}".encode())
            self.data[k] = Fraction(h % 19 - 9, 1 if h % 3 else 2)
        return self.data[k]


class SignatureViolation(Exception):
    pass


def c_ev(e, env):
    LoopIR, T = _L()
    if isinstance(e, LoopIR.Const):
        if isinstance(e.val, bool):
            return e.val
        return Fraction(e.val) if (_is_real_type(e.type) or isinstance(e.val, float)) else e.val
    if isinstance(e, LoopIR.Read):
        v = env[e.name]
        if isinstance(v, View):
            return v.root.get(v.coords([c_ev(i, env) for i in e.idx]))
        return v
    if isinstance(e, LoopIR.USub):
        return -c_ev(e.arg, env)
    if isinstance(e, LoopIR.BinOp):
        a, b = c_ev(e.lhs, env), c_ev(e.rhs, env)
        op = e.op
        if op == "/":
            if isinstance(a, int) and isinstance(b, int) and not _is_real_type(e.type):
                return a // b
            return Fraction(a) / Fraction(b) if b != 0 else Fraction(0)
        return {"+": lambda: a + b, "-": lambda: a - b, "*": lambda: a * b, "%": lambda: a % b,
                "<": lambda: a < b, "<=": lambda: a <= b, ">": lambda: a > b, ">=": lambda: a >= b,
                "==": lambda: a == b, "and": lambda: a and b, "or": lambda: a or b}[op]()
    if isinstance(e, LoopIR.Extern):
        args = [c_ev(a, env) for a in e.args]
        h = zlib.crc32(f"{e.f.name()}|{args}".encode())
        return Fraction(h % 17 - 8)
    if isinstance(e, LoopIR.StrideExpr):
        v = env[e.name]
        d = v.root_dim(e.dim)
        st = 1
        for x in v.root.shape[d + 1:]:
            st *= x
        return st
    if isinstance(e, LoopIR.ReadConfig):
        return env["__cfg__"].get((e.config.name(), e.field), 7)
    raise NotCovered(f"expression {type(e).__name__}")


def c_view(e, env):
    LoopIR, T = _L()
    if isinstance(e, LoopIR.Read) and not e.idx:
        return env[e.name]
    if isinstance(e, LoopIR.WindowExpr):
        acc = []
        for w in e.idx:
            if isinstance(w, LoopIR.Point):
                acc.append(("pt", c_ev(w.pt, env)))
            else:
                acc.append(("iv", c_ev(w.lo, env), c_ev(w.hi, env)))
        return env[e.name].window(acc)
    raise NotCovered(f"buffer argument {type(e).__name__}")


def c_exec(stmts, env, log):
    LoopIR, T = _L()
    for s in stmts:
        if isinstance(s, (LoopIR.Assign, LoopIR.Reduce)):
            v = env[s.name]
            k = v.coords([c_ev(i, env) for i in s.idx])
            val = Fraction(c_ev(s.rhs, env))
            v.root.data[k] = val if isinstance(s, LoopIR.Assign) else v.root.get(k) + val
        elif isinstance(s, LoopIR.For):
            for it in range(c_ev(s.lo, env), c_ev(s.hi, env)):
                c_exec(s.body, {**env, s.iter: it}, log)
        elif isinstance(s, LoopIR.If):
            c_exec(s.body if c_ev(s.cond, env) else s.orelse, dict(env), log)
        elif isinstance(s, LoopIR.Pass):
            pass
        elif isinstance(s, LoopIR.WriteConfig):
            env["__cfg__"][(s.config.name(), s.field)] = c_ev(s.rhs, env)
        elif isinstance(s, LoopIR.Alloc):
            r = CBuf(f"{s.name}", salt=len(log))
            r.shape = [c_ev(h, env) for h in s.type.shape()]
            env[s.name] = View(r, [("iv", 0, d) for d in r.shape])
        elif isinstance(s, LoopIR.WindowStmt):
            env[s.name] = c_view(s.rhs, env)
        elif isinstance(s, LoopIR.Call):
            sub = {"__cfg__": env["__cfg__"]}
            for fa, x in zip(s.f.args, s.args):
                sub[fa.name] = c_view(x, env) if _is_real_type(fa.type) else c_ev(x, env)
            for fa in s.f.args:                 # the callee's signature at the call (concrete values)
                if fa.type == T.size and sub[fa.name] <= 0:
                    log.append(f"call of {s.f.name}: size argument {fa.name} = {sub[fa.name]}")
                if _is_real_type(fa.type):
                    v, shape = sub[fa.name], fa.type.shape()
                    if v.rank != len(shape):
                        log.append(f"call of {s.f.name}: {fa.name} has rank {v.rank}, declared {len(shape)}")
                    else:
                        want = [c_ev(h, sub) for h in shape]
                        if v.extents() != want:
                            log.append(f"call of {s.f.name}: {fa.name} has extents {v.extents()}, declared {want}")
            c_exec(s.f.body, sub, log)
        else:
            raise NotCovered(f"statement {type(s).__name__}")


def c_run(p, ints, salt=0):
    """run the LoopIR procedure p; returns (final contents of the numeric arguments, signature log) or None when
    the inputs violate an assertion of p"""
    LoopIR, T = _L()
    env, bufs, log = {"__cfg__": {}}, {}, []
    for fa in p.args:
        if _is_real_type(fa.type):
            continue
        v = ints.get(str(fa.name), 1)
        if fa.type == T.size and v <= 0:
            return None
        env[fa.name] = bool(v) if fa.type == T.bool else v
    for fa in p.args:
        if _is_real_type(fa.type):
            r = CBuf(str(fa.name), salt)
            r.shape = [c_ev(h, env) for h in fa.type.shape()]
            bufs[str(fa.name)] = r
            env[fa.name] = View(r, [("iv", 0, d) for d in r.shape])
    for pr in p.preds:
        try:
            if not c_ev(pr, env):
                return None
        except NotCovered:
            pass
    c_exec(p.body, env, log)
    cfg = CBuf("configuration state")
    cfg.data = {k: Fraction(v) for k, v in env["__cfg__"].items()}
    cfg.get = lambda k, d=cfg.data: d.get(k, "unset")
    bufs["configuration"] = cfg
    return bufs, log


def c_diff(pa, pb, ints, salt=0):
    """None: inputs not admitted; else list of differences (final contents / signature violations of pb)"""
    ra, rb = c_run(pa, ints, salt), c_run(pb, ints, salt)
    if ra is None or rb is None:
        return None
    out = list(rb[1])
    for nm, ba in ra[0].items():
        bb = rb[0][nm]
        for k in sorted(set(ba.data) | set(bb.data)):
            x, y = ba.get(k), bb.get(k)
            if x != y:
                out.append(f"{nm}{list(k)}: original {x}, after replace {y}")
    return out


def int_inputs(p):
    LoopIR, T = _L()
    return [str(fa.name) for fa in p.args if not _is_real_type(fa.type)]


def search_difference(pa, pb, hint=None, tries=60):
    """concrete inputs on which the two procedures differ: the model first, then small values"""
    names = int_inputs(pa)
    cands = []
    if hint:
        cands.append({k: hint.get(k, 1) for k in names})
    for vals in itertools.islice(itertools.product([1, 2, 3, 5, 4, 8, 0, 7], repeat=len(names)), tries):
        cands.append(dict(zip(names, vals)))
    for ints in cands:
        try:
            d = c_diff(pa, pb, ints)
        except (NotCovered, Mismatch, KeyError, RecursionError):
            return None
        if d:
            return ints, d
    return None


# ======================================================================================================
# one pair
# ======================================================================================================

def do_replace(pair):
    """(status, q | None, text): the REAL replace, natively"""
    from exo.stdlib.scheduling import replace
    from exo.rewrite.LoopIR_unification import UnificationError
    from exo.rewrite.new_eff import SchedulingError
    mod = load_procs()
    pid, pname, sel, cname, expect, what = pair
    p, callee = getattr(mod, pname), getattr(mod, cname)
    try:
        q = replace(p, p.body() if sel == "body" else p.find_loop(sel), callee, quiet=True)
        return "accepted", q, str(q)
    except (UnificationError, SchedulingError) as e:
        return "rejected", None, f"{type(e).__name__}: {str(e)[:160]}"
    except Exception as e:              # crash of the matcher: not an acceptance
        return "rejected", None, f"{type(e).__name__}: {str(e)[:160]}"


def do_inline(q, cname):
    from exo.stdlib.scheduling import inline
    return inline(q, f"{cname}(_)")


def check_pair(pair, verbose=False):
    """returns dict(id, status, findings=[(label, kind, detail)], conditions=int)
       kind: 'violation' (concretely confirmed) | 'undecided'"""
    pid, pname, sel, cname, expect, what = pair
    mod = load_procs()
    p = getattr(mod, pname)
    st, q, text = do_replace(pair)
    out = dict(id=pid, status=st, findings=[], conditions=0, text=text)
    say = print if verbose else (lambda *a: None)
    say(f"pair {pid}: {what}\n  replace({pname}, loop {sel!r}, {cname}): {st}")
    if st == "rejected":
        say("    " + text)
        return out
    say("    " + text.replace("\n", "\n    "))
    pa, pq = p._loopir_proc, q._loopir_proc
    runs = [("call executed from the callee body", pq)]
    try:
        r = do_inline(q, cname)
        runs.append(("inlined back", r._loopir_proc))
        say("  inlined back:\n    " + str(r).replace("\n", "\n    "))
    except Exception as e:
        out["findings"].append(("inline of the new call succeeds", "undecided", f"{type(e).__name__}: {e}"))
    refuted = []
    for what_run, pb in runs:
        try:
            res = Compare(pa, pb, what_run).run()
        except Mismatch as e:
            res = [(f"{what_run}: the procedures cannot be aligned", "refuted", None, str(e))]
        out["conditions"] += len(res)
        for label, status, model, detail in res:
            if status == "discharged":
                continue
            say(f"  condition '{label}' at {detail}: {status}" + (f" (model {model})" if model else ""))
            if status == "unknown":
                out["findings"].append((label, "undecided", f"solver: unknown at {detail}"))
                continue
            refuted.append((label, model, detail, pb))
    done = set()
    for label, model, detail, pb in refuted:
        if label in done:
            continue
        done.add(label)
        hit = search_difference(pa, pb, model)
        if hit is None:
            out["findings"].append((label, "undecided", f"refuted at {detail} but no concrete difference found"))
        else:
            ints, diffs = hit
            say(f"  concrete inputs {ints}: " + "; ".join(diffs[:4]))
            out["findings"].append((label, "violation", f"inputs {ints}: " + "; ".join(diffs[:3])))
    if expect == "reject":
        lab = "a non-instance is rejected"
        hit = search_difference(pa, pq)
        if hit is not None:
            ints, diffs = hit
            say(f"  NON-INSTANCE ACCEPTED; concrete inputs {ints}: " + "; ".join(diffs[:4]))
            out["findings"].append((lab, "violation", f"inputs {ints}: " + "; ".join(diffs[:3])))
        elif not any(k == "violation" for _, k, _ in out["findings"]):
            out["findings"].append((lab, "undecided", "accepted, but no concrete difference found"))
    return out


# ======================================================================================================
# engine entry + replay
# ======================================================================================================

_REPLAY = '''#!/venv/bin/python
"""Replay (bounded engine of C05): the REAL replace / inline on one (block, callee) pair, the original and the
resulting procedure executed by the reference interpreter of contracts/replace_ghost.py.
exit 1 = the real code violates the property on this pair."""
import os, sys
sys.path.insert(0, os.path.join(os.environ.get("VERIF_REPO", "/repo"), "src"))
sys.path.insert(0, {verif!r})
from contracts.replace_ghost import replay_pair
sys.exit(replay_pair({pid!r}))
'''


def replay_pair(pid):
    import exo.rewrite.LoopIR_unification as LU
    print(f"module under test: {LU.__file__}")
    pair = next(p for p in PAIRS if p[0] == pid)
    r = check_pair(pair, verbose=True)
    bad = [f for f in r["findings"] if f[1] == "violation"]
    for label, kind, detail in r["findings"]:
        print(f"  {kind}: {label}: {detail}")
    print("verdict :", "VIOLATED" if bad else "no violation reproduced")
    return 1 if bad else 0


def obligation_name(pid):
    return f"bounded replace/inline pair {pid}: replace accepts only true instances (original == call == inlined back, signature)"


def run(tier="quick", seed=0):
    from pyvc.run import ensure_repo_on_path
    ensure_repo_on_path()
    t0 = time.time()
    out = dict(obligations=0, discharged=0, functions=[], assumptions=[], samples=[], violations=[],
               undecided=[], bounded=[], clauses={}, solver_time_s=0.0)
    try:
        load_procs()
    except Exception as e:
        out["undecided"].append(f"C05 pairs: the frontend rejects the pair procedures: {type(e).__name__}: {e}")
        return out
    stats = dict(accepted=0, rejected=0, inst_rejected=0, conditions=0)
    for pair in PAIRS:
        pid, pname, sel, cname, expect, what = pair
        try:
            r = check_pair(pair)
        except Exception as e:
            out["undecided"].append(f"C05 pair {pid}: {type(e).__name__}: {str(e)[:200]}")
            continue
        stats[r["status"]] += 1
        stats["conditions"] += r["conditions"]
        if r["status"] == "rejected" and expect == "instance":
            stats["inst_rejected"] += 1
        viol = [(l, d) for l, k, d in r["findings"] if k == "violation"]
        und = [(l, d) for l, k, d in r["findings"] if k != "violation"]
        if viol:
            # one violation per pair (the replay script shows every failed condition)
            out["violations"].append(dict(
                obligation=obligation_name(pid), confirmed=True,
                detail=f"{what}; " + " | ".join(f"{l}: {d}" for l, d in viol[:3]),
                replay_script=_REPLAY.format(verif=VERIF_DIR, pid=pid)))
        else:
            for l, d in und:
                out["undecided"].append(f"{obligation_name(pid)}: {l}: {d}")
    out["bounded"].append(dict(
        target="src/exo/API_scheduling.py::replace + inline (native) on concrete (block, callee) pairs: original vs. "
               "call executed from the callee body vs. inlined-back procedure, for all inputs (z3: symbolic sizes / "
               "indices / iterators, buffer contents uninterpreted); callee signature at the new call site; "
               "one-respect non-instances must be rejected",
        bound=f"{len(PAIRS)} pairs with concrete structure (loop nests of depth <= 2, <= 3 buffers, rank <= 3)",
        cases=len(PAIRS), accepted=stats["accepted"], rejected=stats["rejected"],
        instances_rejected_nothing_claimed=stats["inst_rejected"], conditions_checked=stats["conditions"]))
    out["samples"] = [f"bounded: {len(PAIRS)} replace/inline pairs, {stats['accepted']} accepted and validated "
                      f"({stats['conditions']} relational conditions), {stats['rejected']} rejected in {time.time() - t0:.1f}s"]
    return out


if __name__ == "__main__":
    sys.path.insert(0, VERIF_DIR)
    from pyvc.run import ensure_repo_on_path
    ensure_repo_on_path()
    only = sys.argv[1] if len(sys.argv) > 1 else None
    for pair in PAIRS:
        if only and only != pair[0]:
            continue
        r = check_pair(pair, verbose=bool(only))
        print(f"{pair[0]:22s} expect={pair[4]:9s} {r['status']:9s} conditions={r['conditions']:3d} "
              + " | ".join(f"{k}: {l}: {d[:80]}" for l, k, d in r["findings"]))
