"""C13 - uses of the range analysis inside the compiler: `lift_to_cir` may flag
a node non-negative (which selects C's truncating `/` and `%`) only on the
strength of a sound range-analysis answer.  Same contract as under C02,
registered for C13 because the property names this use explicitly."""
from __future__ import annotations
from pyvc.contract import contract
import contracts.c02_codegen as c02

c = contract("C13", c02.F, "lift_to_cir", name=c02.F + "::lift_to_cir[C13]")
c.gen = c02.clc.gen
c.pre = list(c02.clc.pre)
c.post = list(c02.clc.post)
c.callees = dict(c02.clc.callees)
c.exc_ok = list(c02.clc.exc_ok)
